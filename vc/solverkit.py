"""Solver contracts: symbolic parameters with their documented domains, geometry case splits,
witnesses; extraction of the field terms per path; translation validation against the real solver."""
import os, json, time
import sympy as sp
from . import extract, alg, native, repo as R, sx
from .values import *
from .core import jval, SEED


def P(name, kind='real'):
    if kind == 'pos': return sp.Symbol(name, positive=True)
    if kind == 'neg': return sp.Symbol(name, negative=True)
    if kind == 'nonneg': return sp.Symbol(name, nonnegative=True)
    return sp.Symbol(name, real=True)


class SolverContract:
    def __init__(self, key, cls, params, hyps=(), cases=({},), pos=None, t=None, witness=None, thyps=(), poshyps=(),
                 externals=None, opaque=None, ranges=None, fixed=None, note='', poslocals=()):
        self.key = key; self.cls = cls
        self.params = params          # name -> sympy symbol (symbolic parameters)
        self.hyps = list(hyps)        # documented domain of the parameters (requires)
        self.cases = list(cases)      # exhaustive case split over finite-domain parameters: list of {name: concrete}
        self.pos = pos if pos is not None else sp.Symbol('r', positive=True)
        self.t = t if t is not None else sp.Symbol('t', positive=True)
        self.thyps = list(thyps); self.poshyps = list(poshyps)
        self.witness = witness or {}
        self.externals = externals; self.opaque = opaque; self.ranges = ranges or {}
        self.fixed = fixed or {}      # concrete non-default parameter values
        self.note = note; self.poslocals = list(poslocals); self.extra = {}; self.positive = {}
        self._cache = {}

    def all_hyps(self, case=None):
        h = self.hyps + self.thyps + self.poshyps
        if case is not None:
            k = self.case_name(case)
            h = h + self.extra.get(k, []) + [p > 0 for p in self.positive.get(k, [])]
        return h

    def case_name(self, case):
        return ','.join('%s=%s' % (k, v) for k, v in case.items()) or 'all'

    def kwargs(self, case):
        kw = dict(self.params); kw.update(self.fixed)
        kw.update({k: sp.sympify(v) if not isinstance(v, (str, tuple, list)) else v for k, v in case.items()})
        return kw

    def paths(self, case):
        k = self.case_name(case)
        if k not in self._cache:
            if getattr(self, 'extra_hyps', None): self.extra[k] = list(self.extra_hyps(case))
            ps = extract.run_solver(self.cls, self.kwargs(case), self.pos, self.t, hyps=self.all_hyps(case),
                                    externals=self.externals, opaque=self.opaque)
            self._cache[k] = ps
            if self.poslocals:
                pos = []
                for p in ps:
                    loc = getattr(p.run, 'run_locals', None)
                    if not loc: continue
                    env = {n: (v.elem if isinstance(v, Arr) else v) for n, v in loc.items() if isinstance(v, sp.Basic) or (isinstance(v, Arr) and isinstance(v.elem, sp.Basic))}
                    env.update({n: v for n, v in self.params.items()}); env['pow'] = sp.Pow; env['sqrt'] = sp.sqrt
                    for src in self.poslocals:
                        try: pos.append(sp.sympify(eval(src, {'__builtins__': {}}, env)))
                        except Exception as e: raise Unsupported('contract positivity expression %r: %s' % (src, e))
                    break
                self.positive[k] = pos
        return self._cache[k]

    def function_info(self):
        out = []
        for m in ('__init__', '_run'):
            fv = R.find_method(self.cls, m)
            if fv is not None:
                out.append({'ref': '%s::%s' % (fv.module.path.replace(R.REPO + '/', ''), fv.name), 'sha256_16': R.source_hash(fv)})
        return out

    def symbols(self):
        s = set()
        def walk(v):
            if isinstance(v, sp.Basic): s.update(v.free_symbols)
            elif isinstance(v, (list, tuple)):
                for q in v: walk(q)
        for v in self.params.values(): walk(v)
        s |= set(self.pos) if isinstance(self.pos, (list, tuple)) else {self.pos}
        s.add(self.t)
        return s


def numify(v, pt):
    """parameter value (possibly nested, symbolic) -> JSON-able python value at the point"""
    if isinstance(v, sp.Basic):
        return native.pyval(alg.numeric(v, pt, 20)) if v.free_symbols else native.pyval(v)
    if isinstance(v, tuple): return {'__tuple__': [numify(q, pt) for q in v]}
    if isinstance(v, list): return [numify(q, pt) for q in v]
    return native.pyval(v)


def eval_bool(c, pt):
    return alg.eval_cond(c, pt)


def fieldval(v, pt):
    if isinstance(v, str): return v
    if v is None: return None
    e = alg.numeric(sp.sympify(v), pt, 20)
    if e.has(sp.nan): return 'nan'
    if e.has(sp.zoo) or e.has(sp.oo): return 'inf'
    if not e.is_real: return 'complex'
    return float(e)


SKIPPED = {'float_range': 0}


def float_range_risk(sol, pt):
    """True when some power / exponential sub-term of the extracted fields leaves the comfortable range of IEEE doubles at this point
    (|value| > 1e140 or < 1e-140): the real (float) evaluation may overflow, underflow to 0 or produce inf/inf = NaN there although the
    real-number value is finite (assumption A1).  Such sample points are skipped by translation validation, and counted."""
    try:
        for v in sol.fields().values():
            if isinstance(v, Vec) or not isinstance(v, sp.Basic): continue
            for sub in sp.preorder_traversal(v):
                if sub.is_Pow or isinstance(sub, sp.exp):
                    try:
                        val = alg.numeric(sub, pt, 15)
                        if val.is_real is False: continue
                        a = abs(val)
                        if a > sp.Float('1e140') or (a != 0 and a < sp.Float('1e-140')): return True
                    except Exception:
                        return True
    except Exception:
        return False
    return False


def translation_validation(sc, case, paths, K=3, rtol=1e-8):
    """compare the extracted terms with the real solver at K seeded admissible points.
    returns (points_compared, mismatches[list of str])"""
    syms = sc.symbols()
    pts = alg.sample_points(syms, sc.all_hyps(case), K, seed=SEED + 101, witness=sc.witness or None, ranges=sc.ranges)
    reqs = []; exp = []
    for pt in pts:
        chosen = None
        for p in paths:
            try:
                if all(eval_bool(c, pt) for c in p.pc): chosen = p; break
            except Exception:
                continue
        if chosen is None: continue
        params = {k: numify(v, pt) for k, v in sc.kwargs(case).items()}
        pos = [float(alg.numeric(x, pt)) for x in sc.pos] if isinstance(sc.pos, (list, tuple)) else float(alg.numeric(sc.pos, pt))
        reqs.append({'cls': sc.cls, 'params': params, 'points': [pos], 't': float(alg.numeric(sc.t, pt))})
        exp.append((pt, chosen))
    if not reqs: return 0, ['no admissible sample point matched any path']
    res = native.batch(reqs)
    mism = []
    for (pt, p), rq, rs in zip(exp, reqs, res):
        if p.outcome == 'raise':
            if rs.get('ok'): mism.append('extracted path raises %s but real call returned at %s' % (p.exc, jval(pt)))
            continue
        vals = {n: (fieldval(v, pt) if not isinstance(v, Vec) else None) for n, v in p.value.fields().items()} if isinstance(p.value, Solution) else {}
        if any(x in ('complex', 'nan', 'inf') for x in vals.values()): continue     # outside the domain of definition (C20 matter)
        if isinstance(p.value, Solution) and float_range_risk(p.value, pt):
            SKIPPED['float_range'] += 1; continue
        if not rs.get('ok'):
            mism.append('real call raised %s (%s) but extracted path returns, at %s' % (rs.get('exc'), rs.get('msg'), jval(pt))); continue
        sol = p.value
        if not isinstance(sol, Solution):
            mism.append('path does not return an ExactSolution'); continue
        if list(sol.names) != rs['names']:
            mism.append('field names differ: extracted %s real %s' % (sol.names, rs['names'])); continue
        for n, v in sol.fields().items():
            real = rs['fields'][n][0]
            if isinstance(v, Vec): continue
            mine = fieldval(v, pt)
            if isinstance(mine, str) or isinstance(real, str):
                if str(mine).lower().strip("'") != str(real).lower().strip("'"):
                    mism.append('field %s: extracted %r real %r at %s' % (n, mine, real, jval(pt)))
                continue
            if mine is None: continue
            if abs(mine - real) > rtol * max(abs(mine), abs(real)) + 1e-18:      # absolute floor: cancellation noise of the 20-digit evaluation vs an exact float zero
                mism.append('field %s: extracted %.12g real %.12g at %s' % (n, mine, real, jval(pt)))
    return len(reqs), mism
