"""Class-table introspection.  Runs under /venv/bin/python with PYTHONPATH=<repo> (the real
package is imported, because several class bodies are dynamic).  Prints JSON:
{ "<module>:<Class>": {module, name, file, mro:[...], parameters:[...], attrs:{name: jsonable},
                       own_methods:[...]} }
Only classes defined under exactpack/ are listed."""
import sys, json, pkgutil, importlib, inspect, os, io, contextlib, warnings
warnings.simplefilter('ignore')

def jsonable(v, depth=0):
    import numpy as np
    if isinstance(v, (bool, type(None), str)): return v
    if isinstance(v, (int,)): return v
    if isinstance(v, float): return {'__float__': repr(float(v))}
    if isinstance(v, complex): return {'__complex__': [repr(v.real), repr(v.imag)]}
    if isinstance(v, (np.integer,)): return int(v)
    if isinstance(v, (np.floating,)): return {'__float__': repr(float(v))}
    if depth > 4: return {'__opaque__': type(v).__name__}
    if isinstance(v, tuple): return {'__tuple__': [jsonable(x, depth+1) for x in v]}
    if isinstance(v, list): return [jsonable(x, depth+1) for x in v]
    if isinstance(v, np.ndarray) and v.size <= 64: return {'__ndarray__': jsonable(v.tolist(), depth+1)}
    if isinstance(v, dict):
        if all(isinstance(k, str) for k in v): return {'__dict__': {k: jsonable(x, depth+1) for k, x in v.items()}}
    if inspect.isclass(v): return {'__class__': v.__module__ + ':' + v.__qualname__}
    if hasattr(v, '__class__') and type(v).__module__.startswith('exactpack'):
        return {'__instance__': type(v).__module__ + ':' + type(v).__qualname__,
                'attrs': {k: jsonable(x, depth+1) for k, x in vars(v).items()} if hasattr(v, '__dict__') else {}}
    return {'__opaque__': type(v).__name__}

def main():
    import exactpack
    out = {}; errors = {}
    root = os.path.dirname(exactpack.__file__)
    mods = []
    for m in pkgutil.walk_packages([root], 'exactpack.'):
        if '.tests' in m.name or '.examples' in m.name or m.name.endswith('.cmdline') or '.contrib' in m.name:
            continue
        mods.append(m.name)
    for name in mods:
        try:
            with contextlib.redirect_stdout(io.StringIO()):
                mod = importlib.import_module(name)
        except BaseException as e:
            errors[name] = repr(e)[:200]; continue
        for cname, c in vars(mod).items():
            if not inspect.isclass(c) or c.__module__ != name: continue
            key = name + ':' + c.__qualname__
            attrs = {}
            for k, v in vars(c).items():
                if k.startswith('__') and k not in ('__doc__',): continue
                if k == '__doc__': continue
                if inspect.isfunction(v) or isinstance(v, (staticmethod, classmethod, property)): continue
                attrs[k] = jsonable(v)
            try: fn = inspect.getsourcefile(c)
            except Exception: fn = None
            try: line = inspect.getsourcelines(c)[1]
            except Exception: line = None
            params = getattr(c, 'parameters', None)
            out[key] = {'module': name, 'name': c.__qualname__, 'file': os.path.relpath(fn, os.path.dirname(root)) if fn else None,
                        'line': line,
                        'mro': [b.__module__ + ':' + b.__qualname__ for b in c.__mro__ if b is not object],
                        'parameters': list(params.keys()) if isinstance(params, dict) else None,
                        'attrs': attrs,
                        'own_methods': [k for k, v in vars(c).items() if inspect.isfunction(v) or isinstance(v, (staticmethod, classmethod))],
                        'doc': (c.__doc__ or '')[:4000]}
    json.dump({'classes': out, 'errors': errors}, sys.stdout)
main()
