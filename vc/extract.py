"""Drivers: construct a solver object symbolically (running the real constructor chain) and
evaluate `_run` on a generic request point."""
import sympy as sp
from .values import *
from . import sx, repo as R, smt


def default_feas(conds):
    return smt.feasible(conds)


def construct(I, cls_key, params):
    """run the real constructor chain with keyword arguments `params` (name -> value)"""
    return I.instantiate(ClassRef(cls_key), [], dict(params))


def position(spec):
    """spec: symbol (1-d) or list of symbols (2/3-d points)"""
    if isinstance(spec, (list, tuple)): return Arr(Vec(list(spec)), origin='points')
    return Arr(spec, origin='points')


def run_solver(cls_key, params, pos, t, hyps=(), externals=None, opaque=None, feas=default_feas, max_paths=400,
               method='_run', pre=None):
    """All paths of  Class(**params)._run(points, t).  Path.value is a Solution (or whatever is returned)."""
    def thunk(run):
        I = sx.Interp(run, externals=externals, opaque_funcs=opaque)
        o = construct(I, cls_key, params)
        run.obj = o
        if pre: pre(I, o)
        f = I.getattr(o, method)
        return I.apply(f, [position(pos), t], {})
    return sx.explore(thunk, hyps=hyps, feas=feas, max_paths=max_paths)


def run_ctor(cls_key, params, hyps=(), externals=None, opaque=None, feas=default_feas, max_paths=400, accept_unsupported=False):
    def thunk(run):
        I = sx.Interp(run, externals=externals, opaque_funcs=opaque)
        o = construct(I, cls_key, params)
        return o
    return sx.explore(thunk, hyps=hyps, feas=feas, max_paths=max_paths, accept_unsupported=accept_unsupported)


def run_function(ref, args, kwargs=None, hyps=(), externals=None, opaque=None, feas=default_feas, max_paths=400, self_obj=None):
    fv = R.func_ref(ref)
    def thunk(run):
        I = sx.Interp(run, externals=externals, opaque_funcs=opaque)
        a = [x() if callable(x) and not isinstance(x, sp.Basic) else x for x in args]
        if self_obj is not None:
            o = self_obj(I) if callable(self_obj) else self_obj
            a = [o] + a
        return I.call_func(fv, a, dict(kwargs or {}))
    return sx.explore(thunk, hyps=hyps, feas=feas, max_paths=max_paths)
