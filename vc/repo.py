"""Read-only view of the repository source: modules, functions, classes (by ast, every run)."""
import ast, os, json, hashlib, subprocess, sys, tempfile
from .values import *

REPO = os.environ.get('EXACTPACK_REPO', '/repo')
VENV_PY = os.environ.get('EXACTPACK_PY', '/venv/bin/python')
HERE = os.path.dirname(os.path.abspath(__file__))

_class_table = None


def class_table():
    """Dump of the real class objects, produced by vc/introspect.py under the repo's own python."""
    global _class_table
    if _class_table is None:
        cache = os.environ.get('VERIF_CLASS_TABLE')
        if cache and os.path.exists(cache):
            _class_table = json.load(open(cache))
        else:
            env = dict(os.environ); env['PYTHONPATH'] = REPO
            env.pop('PYTHONHOME', None)
            r = subprocess.run([VENV_PY, os.path.join(HERE, 'introspect.py')], env=env, capture_output=True, text=True, timeout=300, cwd=REPO)
            if r.returncode != 0:
                raise RuntimeError('introspection failed: ' + r.stderr[-2000:])
            _class_table = json.loads(r.stdout)
            if cache:
                with open(cache, 'w') as f: f.write(r.stdout)
    return _class_table


def decode(j):
    """JSON from introspect.py -> executor value"""
    if isinstance(j, bool) or j is None or isinstance(j, str): return j
    if isinstance(j, int): return sp.Integer(j)
    if isinstance(j, list): return [decode(x) for x in j]
    if isinstance(j, dict):
        if '__float__' in j: return num(float(j['__float__']))
        if '__complex__' in j: return num(complex(float(j['__complex__'][0]), float(j['__complex__'][1])))
        if '__tuple__' in j: return tuple(decode(x) for x in j['__tuple__'])
        if '__ndarray__' in j:
            def tovec(x): return Vec([tovec(y) for y in x]) if isinstance(x, list) else x
            return tovec(decode(j['__ndarray__']))
        if '__dict__' in j: return {k: decode(v) for k, v in j['__dict__'].items()}
        if '__class__' in j: return ClassRef(j['__class__'])
        if '__instance__' in j: return Obj(j['__instance__'], {k: decode(v) for k, v in j['attrs'].items()})
        if '__opaque__' in j: return Opaque('classattr:' + j['__opaque__'])
    raise Unsupported('class attribute value ' + repr(j)[:80])


class Module:
    def __init__(self, modname, path, src):
        self.modname = modname; self.path = path; self.src = src
        self.tree = ast.parse(src, filename=path)
        self.is_pkg = os.path.basename(path) == '__init__.py'
        self.funcs = {}; self.classes = {}; self.assigns = {}; self.imports = {}; self.star = []
        for n in self.tree.body:
            self._scan(n)

    def _scan(self, n):
        if isinstance(n, ast.FunctionDef): self.funcs[n.name] = n
        elif isinstance(n, ast.ClassDef): self.classes[n.name] = n
        elif isinstance(n, ast.Assign):
            for t in n.targets:
                if isinstance(t, ast.Name): self.assigns[t.id] = n.value
                elif isinstance(t, ast.Tuple) and isinstance(n.value, ast.Tuple) and len(t.elts) == len(n.value.elts):
                    for a, b in zip(t.elts, n.value.elts):
                        if isinstance(a, ast.Name): self.assigns[a.id] = b
        elif isinstance(n, ast.Import):
            for a in n.names:
                if a.asname: self.imports[a.asname] = ('mod', a.name)
                else: self.imports[a.name.split('.')[0]] = ('mod', a.name.split('.')[0])
        elif isinstance(n, ast.ImportFrom):
            base = self.resolve_from(n.module, n.level)
            for a in n.names:
                if a.name == '*': self.star.append(base)
                else: self.imports[a.asname or a.name] = ('from', base, a.name)
        elif isinstance(n, (ast.If, ast.Try)):
            for b in getattr(n, 'body', []): self._scan(b)

    def resolve_from(self, module, level):
        if level == 0: return module
        parts = self.modname.split('.')
        if not self.is_pkg: parts = parts[:-1]
        if level > 1: parts = parts[:-(level - 1)]
        return '.'.join(parts + ([module] if module else []))

    def segment(self, node):
        return ast.get_source_segment(self.src, node) or ''


_modules = {}


def module_path(modname):
    p = os.path.join(REPO, *modname.split('.'))
    if os.path.isdir(p) and os.path.exists(os.path.join(p, '__init__.py')): return os.path.join(p, '__init__.py')
    if os.path.exists(p + '.py'): return p + '.py'
    return None


def load_module(modname):
    if modname not in _modules:
        p = module_path(modname)
        if p is None: return None
        _modules[modname] = Module(modname, p, open(p).read())
    return _modules[modname]


def is_repo_module(modname):
    return modname is not None and modname.split('.')[0] == 'exactpack' and module_path(modname) is not None


def find_method(cls_key, name, after=None):
    """MRO lookup by ast.  Returns FuncVal or None.  `after`: start after this class (super())."""
    ct = class_table()['classes']
    mro = ct[cls_key]['mro'] if cls_key in ct else [cls_key]
    if after is not None:
        mro = mro[mro.index(after) + 1:] if after in mro else []
    for k in mro:
        modname, cname = k.split(':')
        m = load_module(modname)
        if m is None: continue
        cd = m.classes.get(cname.split('.')[0])
        if cd is None: continue
        for n in cd.body:
            if isinstance(n, ast.FunctionDef) and n.name == name:
                return FuncVal(n, m, None, name=cname + '.' + name, cls_key=k)
    return None


def class_attr(cls_key, name):
    ct = class_table()['classes']
    for k in ct[cls_key]['mro']:
        if k in ct and name in ct[k]['attrs']:
            return True, decode(ct[k]['attrs'][name])
    return False, None


def func_ref(ref):
    """'exactpack/solvers/noh/noh1.py::Noh._run' or '...utils.py::shock' -> FuncVal"""
    path, qual = ref.split('::')
    modname = path[:-3].replace('/', '.')
    if modname.endswith('.__init__'): modname = modname[:-9]
    m = load_module(modname)
    if m is None: raise Unsupported('no module ' + modname)
    parts = qual.split('.')
    if len(parts) == 1:
        if parts[0] not in m.funcs: raise Unsupported('no function ' + ref)
        return FuncVal(m.funcs[parts[0]], m, None, name=parts[0])
    fv = find_method(modname + ':' + parts[0], parts[1])
    if fv is None: raise Unsupported('no method ' + ref)
    return fv


def source_hash(fv):
    seg = fv.module.segment(fv.node)
    return hashlib.sha256(seg.encode()).hexdigest()[:16]
