"""ring-mod-laws back end (DESIGN.md 1.5): decides  e == 0  for expressions built from
+,*,/, powers with symbolic exponents, sqrt, exp, log, sin, cos and opaque atoms.

Method: every non-integer power is rewritten over *positive irreducible atoms* (factorisation
of the base; positivity from sympy assumptions or an SMT validity query under the
hypotheses), exponents are put in canonical rational-function form and split into an integer
part, a rational fractional part (algebraic root symbol with relation R^q = base) and a
symbolic remainder (opaque positive symbol); exp arguments are split additively; the result
is a rational function in ordinary symbols whose numerator is expanded, reduced modulo the
root relations and sin^2+cos^2=1, and compared with the zero polynomial.  sympy is used as the
polynomial-arithmetic engine (together / expand / factor_list / cancel / div) and is part of
the trusted base.  Incompleteness only ever yields `None` (undecided)."""
import itertools, random, time
import sympy as sp
from . import smt

STATS = {'zero_tests': 0, 'time': 0.0}


class Undecided(Exception): pass


class NeedSplit(Exception):
    def __init__(self, f): self.f = f


class GP(sp.Function):
    """generalised power  base**exponent  of a positive base, kept opaque for sympy's polynomial arithmetic"""
    nargs = 2
    is_positive = True
    is_real = True
    is_commutative = True

    @classmethod
    def eval(cls, b, x):
        return None


class Normalizer:
    def __init__(self, hyps=(), smt_timeout=2000):
        self.hyps = list(hyps); self.smt_timeout = smt_timeout; self.split_ok = False
        self.atoms = {}      # canonical polynomial -> atom symbol
        self.defs = {}       # atom symbol -> polynomial (raw symbols, function symbols, GP atoms)
        self.back = {}       # generated symbol -> meaning in original terms
        self.fsyms = {}      # canonical function expr -> symbol
        self.expinfo = {}    # exp atom -> argument
        self.trig = {}       # canonical arg -> (S, C)
        self.signcache = {}
        self.n = itertools.count()
        self.laws = set()
        self.parity = {}

    # ---------------------------------------------------------------- helpers
    def new(self, prefix, meaning, **assume):
        s = sp.Symbol('%s%d_' % (prefix, next(self.n)), **assume)
        self.back[s] = meaning
        return s

    def orig(self, e):
        """expression in generated symbols -> original terms"""
        for _ in range(30):
            e2 = e.replace(lambda x: isinstance(x, GP), lambda x: sp.Pow(x.args[0], x.args[1]))
            syms = [s for s in e2.free_symbols if s in self.back]
            if not syms and e2 == e: return e2
            e = e2.xreplace({s: self.back[s] for s in syms})
        return e

    def sign(self, f):
        """+1 / -1 / 0 (unknown) under the hypotheses.  A factor that is non-negative for structural reasons (sum of squares)
        counts as positive: identities are proved on the open dense set where no radicand / denominator vanishes."""
        if f.is_positive: return 1
        if f.is_negative: return -1
        if f in self.signcache: return self.signcache[f]
        o = self.orig(f)
        r = 0
        if o.is_positive or (o.is_nonnegative and not o.is_zero): r = 1
        elif o.is_negative or (o.is_nonpositive and not o.is_zero): r = -1
        else:
            for hy, to in (([], 300), (self.hyps, self.smt_timeout)):
                ok, _ = smt.valid(hy, o > 0, to)
                if ok: r = 1; break
                ok, _ = smt.valid(hy, o < 0, to)
                if ok: r = -1; break
                if not self.hyps: break
        self.signcache[f] = r
        return r

    def nonneg(self, f):
        if f.is_nonnegative: return True
        o = self.orig(f)
        if o.is_nonnegative: return True
        ok, _ = smt.valid(self.hyps, o >= 0, self.smt_timeout)
        return bool(ok)

    def atom(self, f):
        """positive polynomial (not a symbol) -> atom symbol"""
        f = sp.expand(f)
        if f not in self.atoms:
            a = self.new('A', f, positive=True)
            self.atoms[f] = a; self.defs[a] = f
        return self.atoms[f]

    def merge_gp(self, b):
        """merge the power atoms of one base inside every monomial of numerator and denominator"""
        if not b.has(GP): return b
        n, d = sp.fraction(sp.together(b))
        def m(e):
            tot = sp.Integer(0)
            for term in sp.Add.make_args(sp.expand(e)):
                c, mono = self.canon_mono(term); tot += c * mono
            return tot
        return m(n) / m(d)

    def _factor_all(self, b):
        """rational expression -> (rational content, [(factor, multiplicity, gp_key or None)])"""
        b = self.merge_gp(b)
        gps = sorted(b.atoms(GP), key=sp.default_sort_key)
        tmp = {g: sp.Dummy('g%d' % i, positive=True) for i, g in enumerate(gps)}
        inv = {v: k for k, v in tmp.items()}
        bb = b.xreplace(tmp)
        n, d = sp.fraction(sp.together(bb))
        coeff = sp.Integer(1); out = []
        for part, sgn in ((n, 1), (d, -1)):
            c, fl = sp.factor_list(sp.expand(part))
            if c == 0: raise Undecided('zero base')
            if not c.is_Rational: raise Undecided('non-rational content')
            coeff = coeff * c ** sgn
            for f, m in fl:
                if f in inv:
                    g = inv[f]; out.append((None, sgn * m, (g.args[0], g.args[1])))
                else:
                    out.append((f.xreplace(inv), sgn * m, None))
        return coeff, out

    def factors(self, b):
        """b (normalised rational expression) -> (positive rational coeff, [((base, x0), multiplier)], sign)
        bases are positive raw symbols, atom symbols, or bases of flattened GP atoms.
        raises Undecided when a factor's sign is unknown"""
        coeff, fl = self._factor_all(b)
        out = {}; sign = 1
        if coeff < 0: sign = -1; coeff = -coeff
        for f, m, gk in fl:
            if gk is not None:
                out[gk] = out.get(gk, 0) + m; continue
            s = self.sign(f)
            if s == 0:
                o = self.orig(f)
                if self.split_ok and not o.has(GP) and all(isinstance(a, (sp.Symbol, sp.Number, sp.Add, sp.Mul, sp.Pow)) for a in sp.preorder_traversal(o)):
                    raise NeedSplit(o)
                raise Undecided('sign of factor %s unknown' % o)
            if s < 0:
                f = -f
                if m % 2: sign = -sign
            base = f if f.is_Symbol else self.atom(f)
            key = (base, sp.Integer(1))
            out[key] = out.get(key, 0) + m
        return coeff, list(out.items()), sign

    def assume_positive(self, expr):
        """declared fact  expr > 0  (a contract precondition): fixes the sign of its one factor of unknown sign"""
        nb = self.norm(expr)
        if not hasattr(self, 'posfacts'): self.posfacts = []
        self.posfacts.append(nb)
        coeff, fl = self._factor_all(nb)
        sign = 1 if coeff > 0 else -1
        unknown = []
        for f, m, gk in fl:
            if gk is not None: continue
            s = self.sign(f)
            if s == 0: unknown.append((f, m))
            elif s < 0 and m % 2: sign = -sign
        odd = [(f, m) for f, m in unknown if m % 2]
        if len(odd) == 1 and len(unknown) == 1:
            f, m = odd[0]
            self.signcache[f] = sign
            self.signcache[sp.expand(-f)] = -sign
            return True
        return False

    def gp(self, base, x):
        if x == 0: return sp.Integer(1)
        if base in self.expinfo:
            return self.nexp(self.expinfo[base] * x)
        x = sp.cancel(sp.together(x))
        if x.is_Integer and base.is_Symbol and base not in self.defs: return base ** x
        return GP(base, x)

    def numpow(self, c, x):
        """positive rational c to the power x"""
        r = sp.Integer(1)
        for part, sgn in ((sp.Integer(c.p), 1), (sp.Integer(c.q), -1)):
            for p, e in sp.factorint(part).items():
                r = r * self.gp(sp.Integer(p), sgn * e * x)
        return r

    def fsym(self, e, **assume):
        if e not in self.fsyms:
            self.fsyms[e] = self.new('F', e, real=True, **assume)
        return self.fsyms[e]

    def cargs(self, a):
        """canonical form of a function argument (in original symbols)"""
        try:
            return sp.factor_terms(sp.cancel(sp.together(a)))
        except Exception:
            return a

    # ---------------------------------------------------------------- normalisation
    def norm(self, e):
        if e.is_Symbol or e.is_Rational: return e
        if e.is_Float: return sp.Rational(str(e))
        if e.is_Add: return sp.Add(*[self.norm(a) for a in e.args])
        if e.is_Mul: return sp.Mul(*[self.norm(a) for a in e.args])
        if e.is_Pow:
            b, x = e.args
            if b == sp.E: return self.nexp(x)
            if b == -1 and x.is_integer and not x.is_number:
                # (-1)^(integer expression): product of parity atoms Z_s (Z_s^2 = 1), one per integer symbol with odd coefficient
                r = sp.Integer(1); ok = True
                for tm in sp.Add.make_args(sp.expand(x)):
                    c_, m_ = tm.as_coeff_Mul()
                    if m_ == 1 and c_.is_Integer: r = r * (-1) ** (int(c_) % 2); continue
                    if not (c_.is_Integer and m_.is_integer): ok = False; break
                    if int(c_) % 2:
                        if m_ not in self.parity: self.parity[m_] = self.new('Z', sp.Pow(-1, m_), real=True)
                        r = r * self.parity[m_]
                if ok:
                    self.laws.add('((-1)^n)^2=1 for integer n'); return r
            if x.is_Integer and isinstance(b, sp.Abs) and int(x) % 2 == 0: return self.norm(b.args[0]) ** x
            if x.is_Integer: return self.norm(b) ** x
            nb = self.norm(b)
            if nb.is_Rational and nb > 0: return self.numpow(nb, x)
            try:
                coeff, fl, sign = self.factors(nb)
                if sign < 0: raise Undecided('negative base')
                self.laws.add('(xy)^e=x^e y^e, (x^a)^b=x^(ab) for x,y>0')
                r = self.numpow(coeff, x) if coeff != 1 else sp.Integer(1)
                for (base, x0), m in fl: r = r * self.gp(base, x0 * m * x)
                return r
            except Undecided:
                xc = sp.cancel(x)
                # a base declared positive as a whole (contract precondition) whose factors have no individual sign: b > 0 => b^x > 0
                pos = False
                for A_ in getattr(self, 'posfacts', ()):
                    try:
                        r_ = sp.cancel(sp.together(nb / A_))
                        if r_.is_Rational and r_ > 0: pos = True; break
                    except Exception: pass
                return self.fsym(sp.Pow(self.orig(sp.factor(nb)), xc), **({'positive': True} if pos else {}))
        if isinstance(e, sp.exp): return self.nexp(e.args[0])
        if isinstance(e, sp.log): return self.nlog(e.args[0])
        if isinstance(e, (sp.sin, sp.cos)): return self.ntrig(e)
        if isinstance(e, sp.tan):
            a = e.args[0]; return self.ntrig(sp.sin(a)) / self.ntrig(sp.cos(a))
        if isinstance(e, sp.cot):
            a = e.args[0]; return self.ntrig(sp.cos(a)) / self.ntrig(sp.sin(a))
        if isinstance(e, sp.sinh):
            E = self.nexp(e.args[0]); return (E - 1 / E) / 2
        if isinstance(e, sp.cosh):
            E = self.nexp(e.args[0]); return (E + 1 / E) / 2
        if isinstance(e, sp.tanh):
            E = self.nexp(2 * e.args[0]); return (E - 1) / (E + 1)
        if isinstance(e, sp.Abs):
            a = e.args[0]; na = self.norm(a)
            s = self.sign(na)
            if s > 0 or self.nonneg(na): return na
            if s < 0 or self.nonneg(-na): return -na
            return self.fsym(sp.Abs(self.cargs(a)), nonnegative=True)
        if e.is_number:
            if e in (sp.pi,): return self.fsym(e, positive=True)
            return self.fsym(e)
        if isinstance(e, sp.Piecewise): raise Undecided('piecewise')
        if e.args:
            if len(e.args) == 1 and isinstance(e, (sp.acos, sp.asin, sp.atan, sp.acot, sp.erf, sp.erfc)):
                # canonical argument through the normaliser itself (radicals inside the argument are normalised too)
                try:
                    terms = self.canon_arg(e.args[0])
                    carg = sp.Add(*[c * m for c, m in terms])
                    key = (e.func.__name__, carg)
                    if key not in self.fsyms:
                        self.fsyms[key] = self.new('F', e.func(self.orig(carg)), real=True)
                    return self.fsyms[key]
                except (Undecided, NeedSplit):
                    pass
            try:
                ce = e.func(*[self.cargs(a) if isinstance(a, sp.Expr) else a for a in e.args])
            except Exception:
                ce = e
            return self.fsym(ce)
        raise Undecided('cannot normalise %r' % (e,))

    def canon_mono(self, m):
        """monomial in symbols and power atoms -> canonical product (power atoms of one base merged)"""
        coeff = sp.Integer(1); gp = {}; rest = sp.Integer(1)
        for f in sp.Mul.make_args(m):
            b, k = f.as_base_exp()
            if isinstance(b, GP) and k.is_Integer: gp[b.args[0]] = gp.get(b.args[0], 0) + k * b.args[1]
            elif f.is_Rational: coeff = coeff * f
            else: rest = rest * f
        for b in sorted(gp, key=sp.default_sort_key):
            x = sp.cancel(sp.together(gp[b]))
            if x == 0: continue
            rest = rest * (b ** x if (x.is_Integer and b.is_Symbol and b not in self.defs) else GP(b, x))
        return coeff, rest

    def canon_arg(self, arg):
        """function argument -> list of (rational coefficient, canonical monomial / canonical denominator)"""
        N = self.norm(arg)
        gps = sorted(N.atoms(GP), key=sp.default_sort_key)
        tmp = {g: sp.Dummy('q%d' % i, positive=True) for i, g in enumerate(gps)}
        n, d = sp.fraction(sp.cancel(sp.together(N.xreplace(tmp))))
        cont, d = sp.expand(d).as_content_primitive()
        if d.could_extract_minus_sign(): d = -d; cont = -cont
        inv = {v: k for k, v in tmp.items()}
        n = sp.expand(n / cont); d = sp.expand(d)
        out = {}
        for term in sp.Add.make_args(n):
            if term == 0: continue
            tn, td = sp.fraction(sp.cancel(term / d))          # each term reduced on its own
            c1, td = sp.expand(td).as_content_primitive()
            if td.could_extract_minus_sign(): td = -td; c1 = -c1
            c, m = self.canon_mono(sp.expand(tn).xreplace(inv))
            td = td.xreplace(inv)
            if not td.is_Add:
                c2, m2 = self.canon_mono(m / td); c = c * c2; m = m2
            else:
                m = m / td
            c = c / c1
            out[m] = out.get(m, 0) + c
        return [(c, m) for m, c in sorted(out.items(), key=lambda kv: sp.default_sort_key(kv[0])) if c != 0]

    def nexp(self, arg):
        self.laws.add('exp(a+b)=exp(a)exp(b)')
        r = sp.Integer(1)
        for c, m in self.canon_arg(arg):
            r = r * GP(self.expatom(m), c)
        return r

    def expatom(self, m):
        key = ('exp', m)
        if key not in self.fsyms:
            self.fsyms[key] = self.new('E', sp.exp(m), positive=True)
            self.expinfo[self.fsyms[key]] = m
        return self.fsyms[key]

    def nlog(self, arg):
        na = self.norm(arg)
        try:
            coeff, fl, sign = self.factors(na)
            if sign < 0: raise Undecided('log of negative')
            self.laws.add('log(xy)=log x+log y for x,y>0')
            r = sp.Integer(0)
            if coeff != 1:
                for part, sgn in ((sp.Integer(coeff.p), 1), (sp.Integer(coeff.q), -1)):
                    for p, e_ in sp.factorint(part).items():
                        r = r + sgn * e_ * self.fsym(sp.log(sp.Integer(p)), positive=True)
            for (base, x0), m in fl:
                if base in self.expinfo: r = r + m * x0 * self.norm(self.expinfo[base])
                else: r = r + m * x0 * self.fsym(sp.log(self.orig(base)))
            return r
        except Undecided:
            return self.fsym(sp.log(self.cargs(arg)))

    def ntrig(self, e):
        terms = self.canon_arg(e.args[0])
        if not terms: return sp.Integer(0) if isinstance(e, sp.sin) else sp.Integer(1)
        neg = terms[0][0] < 0
        if neg: terms = [(-c, m) for c, m in terms]
        a = sp.Add(*[c * m for c, m in terms])
        if a not in self.trig:
            S = self.new('S', sp.sin(self.orig(a)), real=True); C = self.new('C', sp.cos(self.orig(a)), real=True)
            self.trig[a] = (S, C)
        S, C = self.trig[a]
        if isinstance(e, sp.sin): return -S if neg else S
        return C

    # ---------------------------------------------------------------- zero test
    def split_exp(self, x):
        """canonical exponent -> (rational constant part, symbolic remainder)"""
        if x.is_Rational: return x, sp.Integer(0)
        n, d = sp.fraction(x)
        gens = sorted(d.free_symbols | n.free_symbols, key=lambda s: s.name)
        if d.free_symbols:
            (q,), r = sp.reduced(n, [d], *gens, order='lex')   # normal form w.r.t. the single divisor: unique, hence additive
        else:
            q = sp.expand(n / d)
        c0 = q.as_coeff_Add()[0]
        if not c0.is_Rational: c0 = sp.Integer(0)
        return c0, sp.cancel(x - c0)

    def subst_defs(self, e):
        for _ in range(20):
            syms = [s for s in e.free_symbols if s in self.defs]
            if not syms: return e
            e = e.xreplace({s: self.defs[s] for s in syms})
        return e

    def is_zero(self, e):
        N = self.norm(e)
        return self.zero_poly(N)

    def zero_poly(self, N, depth=0):
        if depth > 6: raise Undecided('nested atom definitions too deep')
        n, d = sp.fraction(sp.together(N))
        n = sp.expand(n)
        for _ in range(6):
            # nested fractions: keep clearing denominators until the numerator is a polynomial in its atoms
            if not any(isinstance(q, sp.Pow) and q.exp.is_Integer and q.exp < 0 and not q.base.is_number for q in n.atoms(sp.Pow)): break
            n = sp.expand(sp.fraction(sp.together(n))[0])
        if n == 0: return True, n
        # atoms whose definition mentions power atoms ("deep" atoms) hide relations between groups:
        # unfold their integer powers (outside GP bases), and level the integer part of their GP exponents per class
        for _ in range(8):
            gps = list(n.atoms(GP)); tmp = {g: sp.Dummy('h%d' % i, positive=True) for i, g in enumerate(gps)}
            m = n.xreplace(tmp)
            deep = [a for a in m.free_symbols if a in self.defs and self.defs[a].has(GP)]
            if deep:
                m = m.xreplace({a: self.defs[a] for a in deep}).xreplace({v: k for k, v in tmp.items()})
                n = sp.expand(sp.fraction(sp.together(m))[0])
                if n == 0: return True, n
                continue
            deepb = {g.args[0] for g in gps if g.args[0] in self.defs and self.defs[g.args[0]].has(GP)}
            if not deepb: break
            terms = []
            for term in sp.Add.make_args(n):
                rest = sp.Integer(1); ex = {}
                for f in sp.Mul.make_args(term):
                    b, k = f.as_base_exp()
                    if isinstance(b, GP) and k.is_Integer and b.args[0] in deepb:
                        ex[b.args[0]] = ex.get(b.args[0], 0) + k * b.args[1]
                    else: rest = rest * f
                info = {}
                for A, x in ex.items():
                    x = sp.cancel(sp.together(x))
                    if x == 0: continue
                    c0, rep = self.split_exp(x)
                    fl = sp.floor(c0); info[A] = (rep, c0 - fl, int(fl))
                terms.append((rest, info))
            mins = {}
            for rest, info in terms:
                for A, (rep, fr, fl) in info.items():
                    key = (A, rep, fr); mins[key] = min(mins.get(key, fl), fl)
            changed = False; new = sp.Integer(0)
            for rest, info in terms:
                tt = rest
                for A, (rep, fr, fl) in info.items():
                    m0 = mins[(A, rep, fr)]
                    if fl > m0: changed = True
                    tt = tt * GP(A, sp.cancel(rep + fr + m0)) * self.defs[A] ** (fl - m0)
                new += tt
            if not changed: break
            n = sp.expand(sp.fraction(sp.together(new))[0])
            if n == 0: return True, n
        # ---- split every term into polynomial coefficient and total exponent per base
        groups = {}
        for term in sp.Add.make_args(n):
            coeff = sp.Integer(1); exps = {}
            for f in sp.Mul.make_args(term):
                b, k = f.as_base_exp()
                if isinstance(b, GP) and k.is_Integer:
                    exps[b.args[0]] = exps.get(b.args[0], 0) + k * b.args[1]
                elif f.has(GP):
                    raise Undecided('power atom in unexpected position')
                else:
                    coeff = coeff * f
            key = []; offs = {}
            for base, x in exps.items():
                x = sp.cancel(sp.together(x))
                if x == 0: continue
                c0, rep = self.split_exp(x)
                if rep != 0: key.append((base, rep))
                offs[base] = c0
            key = frozenset(key)
            groups.setdefault(key, []).append((coeff, offs))
        residual = sp.Integer(0); all_zero = True
        for key, members in groups.items():
            bases = set()
            for _, offs in members: bases |= set(offs)
            mins = {b: min(offs.get(b, sp.Integer(0)) for _, offs in members) for b in bases}
            total = sp.Integer(0); rootrel = {}
            for coeff, offs in members:
                tterm = coeff
                for b in bases:
                    dlt = offs.get(b, sp.Integer(0)) - mins[b]
                    if dlt == 0: continue
                    if dlt.q == 1:
                        tterm = tterm * b ** int(dlt)
                    else:
                        D = sp.ilcm(*[(o.get(b, sp.Integer(0)) - mins[b]).q for _, o in members])
                        if b not in rootrel:
                            rootrel[b] = (sp.Dummy('R_%s' % str(b)[:12], positive=True), D)
                            self.laws.add('root^q=base')
                        R, D = rootrel[b]
                        tterm = tterm * R ** int(dlt * D)
                total += tterm
            total = self.subst_defs(total)
            if total.has(GP):
                # atom definitions mention power atoms: normalise again one level down
                relmap = {}
                z, res = self.zero_rel(total, rootrel, depth)
            else:
                z, res = self.zero_rel(total, rootrel, depth)
            if not z:
                # residuals of different monomial groups must never be added together (they multiply independent power monomials)
                all_zero = False
                residual += sp.Symbol('GROUP%d_' % len(groups), positive=True) ** (1 + abs(hash(key)) % 97) * res if False else sp.Abs(res)
        return all_zero, (sp.Integer(0) if all_zero else residual)

    def zero_rel(self, total, rootrel, depth):
        """zero test of a rational expression modulo root relations and sin^2+cos^2=1"""
        if total.has(GP):
            if rootrel: raise Undecided('roots over nested power atoms')
            return self.zero_poly(total, depth + 1)
        n = sp.expand(sp.fraction(sp.together(total))[0])
        for _ in range(10):
            changed = False
            for b, (R, D) in rootrel.items():
                if R in n.free_symbols:
                    p = sp.Poly(n, R)
                    if p.degree() >= D:
                        bb = self.subst_defs(b) if isinstance(b, sp.Basic) else b
                        new = sp.Integer(0)
                        for (i,), c in p.terms(): new += c * R ** (i % D) * bb ** (i // D)
                        n = sp.expand(new); changed = True
            for m_, Z in self.parity.items():
                if Z in n.free_symbols:
                    p = sp.Poly(n, Z)
                    if p.degree() >= 2:
                        new = sp.Integer(0)
                        for (i,), c in p.terms(): new += c * Z ** (i % 2)
                        n = sp.expand(new); changed = True
            for a, (S, C) in self.trig.items():
                if C in n.free_symbols:
                    p = sp.Poly(n, C)
                    if p.degree() >= 2:
                        new = sp.Integer(0)
                        for (i,), c in p.terms(): new += c * C ** (i % 2) * (1 - S ** 2) ** (i // 2)
                        n = sp.expand(new); changed = True
                        self.laws.add('sin^2+cos^2=1')
            if not changed: break
        return n == 0, n


def is_zero(e, hyps=(), smt_timeout=2000, positive=(), max_splits=16):
    """True: proved identically zero (wherever defined).  None: not proved (the caller runs
    the counterexample search to tell a refutation from a tool limit).
    When the sign of a power-base factor is not determined by the hypotheses the proof is split
    into the cases factor>0 / factor<0 (infeasible cases are discarded by SMT)."""
    t0 = time.time(); STATS['zero_tests'] += 1
    try:
        if e == 0: return True, {'laws': []}
        laws = set(); budget = [max_splits]; last = [None]

        def go(h, depth):
            nz = Normalizer(h, smt_timeout); nz.split_ok = depth < 6 and budget[0] > 0
            try:
                for pe in positive: nz.assume_positive(pe)
                z, n = nz.is_zero(e)
                laws.update(nz.laws); last[0] = nz
                return (True, None) if z else (False, n)
            except NeedSplit as ns:
                budget[0] -= 1
                laws.add('case split on the sign of ' + str(ns.f)[:80])
                for cond in (ns.f > 0, ns.f < 0):
                    if cond in (sp.true, sp.false): 
                        if cond is sp.false: continue
                    r, _ = smt.check(list(h) + [cond], smt_timeout)
                    if r == 'unsat': continue
                    ok, n = go(list(h) + [cond], depth + 1)
                    if not ok: return False, n
                return True, None
        z, n = go(list(hyps), 0)
        return (True if z else None), {'laws': sorted(laws), 'residual': n, 'nz': last[0]}
    except Undecided as u:
        return None, {'laws': [], 'reason': str(u)}
    finally:
        STATS['time'] += time.time() - t0


# ---------------------------------------------------------------------- numeric side: sampling and refutation
def concretize(expr):
    """replace applications of uninterpreted functions by fixed concrete smooth functions (numeric guard / counterexample search only)"""
    from sympy.core.function import AppliedUndef
    if not expr.atoms(AppliedUndef): return expr
    def conc(f):
        name = f.func.__name__; h = sum(ord(c) * (i + 3) for i, c in enumerate(name)) % 7 + 2
        a = f.args
        return sum((i + h) * x ** 2 / 7 + (h - i) * x / 3 for i, x in enumerate(a)) + sp.Mul(*a) / h + sp.Rational(h, 5)
    fs = {}
    for f in expr.atoms(AppliedUndef): fs[f.func] = None
    e = expr
    for F in fs:
        e = e.replace(lambda x, F=F: isinstance(x, AppliedUndef) and x.func == F, conc)
    return e.doit()



def numeric(e, point, prec=40):
    """numeric value at a point (no exact substitution: rational**rational would be simplified exactly, slowly)"""
    e = sp.sympify(e)
    if not e.free_symbols: return sp.N(e, prec)
    return e.evalf(prec, subs={k: v for k, v in point.items() if k in e.free_symbols})


def eval_cond(c, pt):
    """truth value of a sympy boolean at a numeric point"""
    if c is True or c is sp.true: return True
    if c is False or c is sp.false: return False
    if isinstance(c, sp.And): return all(eval_cond(a, pt) for a in c.args)
    if isinstance(c, sp.Or): return any(eval_cond(a, pt) for a in c.args)
    if isinstance(c, sp.Not): return not eval_cond(c.args[0], pt)
    if isinstance(c, sp.Symbol): return bool(pt[c])
    if c.is_Relational:
        d = numeric(c.lhs - c.rhs, pt, 30)
        if not d.is_number: raise ValueError('non-numeric condition')
        if not d.is_real: d = sp.re(d)
        op = c.rel_op
        if op in ('==', '!='):
            # equality at 30 digits: zero up to evaluation noise
            # zero up to evaluation noise: relative to the size of the terms that are added (a single product is exact up to rounding: never 'zero' unless 0)
            terms_ = sp.Add.make_args(sp.expand(c.lhs - c.rhs) if len(str(c)) < 600 else (c.lhs - c.rhs))
            sc_ = sum(abs(numeric(t_, pt, 30)) for t_ in terms_) if len(terms_) > 1 else sp.Integer(0)
            z = bool(d == 0) or bool(abs(d) <= sp.Float('1e-22') * sc_)
            return z if op == '==' else not z
        # evalf returns an *approximate* zero (e.g. 0.e-165, tiny but signed) for exact cancellations: values below the evaluation noise of the
        # added terms count as zero (strict relations false, non-strict true)
        terms_ = sp.Add.make_args(c.lhs - c.rhs)
        sc_ = sum(abs(numeric(t_, pt, 30)) for t_ in terms_) if len(terms_) > 1 else sp.Integer(0)
        if bool(abs(d) <= sp.Float('1e-22') * sc_): return op in ('<=', '>=')
        return bool({'<': d < 0, '<=': d <= 0, '>': d > 0, '>=': d >= 0}[op])
    raise ValueError('cannot evaluate %r' % (c,))


def _fast_cond(c, syms):
    """compile a sympy boolean to a float predicate (None when it cannot be compiled); used only to pre-filter samples"""
    import math
    if c is True or c is sp.true: return lambda v: True
    if c is False or c is sp.false: return lambda v: False
    if isinstance(c, (sp.And, sp.Or)):
        fs = [_fast_cond(a, syms) for a in c.args]
        if any(f is None for f in fs): return None
        return (lambda v: all(f(v) for f in fs)) if isinstance(c, sp.And) else (lambda v: any(f(v) for f in fs))
    if isinstance(c, sp.Not):
        f = _fast_cond(c.args[0], syms)
        return None if f is None else (lambda v: not f(v))
    if isinstance(c, sp.Basic) and c.is_Relational:
        try:
            g = sp.lambdify(syms, c.lhs - c.rhs, modules=['math'])
        except Exception:
            return None
        op = c.rel_op
        def f(v):
            try:
                d = g(*v)
                if isinstance(d, complex): return False
                if d != d: return False
            except (ValueError, ZeroDivisionError, OverflowError, TypeError):
                return False
            m = 1e-9
            return {'<': d < m, '<=': d <= m, '>': d > -m, '>=': d >= -m, '==': abs(d) <= 1e-7, '!=': True}[op]
        return f
    return None


def _bounds_plan(symbols, hyps):
    """hypotheses of the form  s >= e / s > e / s <= e / s < e  with s a bare symbol not occurring in e:
    sample the other symbols first and place s on the right side of its bound (raises the acceptance rate of rejection sampling)"""
    plan = {}
    for h in hyps:
        if not (isinstance(h, sp.Basic) and h.is_Relational) or h.rel_op in ('==', '!='): continue
        for a, b, flip in ((h.lhs, h.rhs, False), (h.rhs, h.lhs, True)):
            if a.is_Symbol and a in symbols and a not in b.free_symbols and a not in plan and not b.free_symbols & set(plan):
                op = h.rel_op
                if flip: op = {'<': '>', '<=': '>=', '>': '<', '>=': '<='}[op]
                if b.free_symbols:      # constant bounds are handled well enough by the default ranges
                    plan[a] = (op, b)
                break
    return plan


def sample_points(symbols, hyps, n, seed=0, witness=None, tries=4000, ranges=None):
    """seeded random admissible points: rejection sampling against the hypotheses"""
    rnd = random.Random(seed)
    pts = []
    if witness: pts.append(dict(witness))
    hyps = [concretize(h) if isinstance(h, sp.Basic) and not isinstance(h, sp.Symbol) and h.atoms(sp.core.function.AppliedUndef) else h for h in hyps]
    symbols = sorted(symbols, key=lambda s: s.name)
    plan = _bounds_plan(set(symbols), hyps)
    fast = [_fast_cond(h, symbols) for h in hyps]
    k = 0; t_end = time.time() + (30 if tries <= 4000 else 90)
    # unusual magnitudes written in the hypotheses (tolerances, cut-offs such as 1e-4 or 1e6): some samples are placed around them
    consts = set()
    for h_ in hyps:
        if isinstance(h_, sp.Basic):
            for a_ in h_.atoms(sp.Number):
                try:
                    av = abs(float(a_))
                    if av != 0 and (av < 1e-2 or av > 1e2) and av < 1e30 and av > 1e-30: consts.add(sp.Rational('%.6g' % av))
                except Exception: pass
    consts = sorted(consts)[:8]
    while len(pts) < n and k < tries and time.time() < t_end:
        k += 1
        pt = {}
        for s in symbols:
            if s in plan and k % 4: continue
            if consts and k % 3 == 1 and not s.is_integer and not (ranges and s in ranges) and rnd.random() < 0.4:
                c_ = consts[rnd.randrange(len(consts))] * rnd.choice([sp.Rational(3, 10), sp.Rational(9, 10), sp.Rational(11, 10), 3])
                pt[s] = -c_ if s.is_negative else c_
                continue
            if ranges and s in ranges:
                lo, hi = ranges[s]; v = sp.Rational(rnd.randint(int(lo * 1000), int(hi * 1000)), 1000)
            elif s.is_integer:
                v = sp.Integer(rnd.randint(1 if s.is_positive else (0 if s.is_nonnegative else -3), 4))
            elif s.is_positive: v = sp.Rational(rnd.randint(50, 4000), 1000)
            elif s.is_negative: v = -sp.Rational(rnd.randint(50, 4000), 1000)
            elif s.is_nonnegative: v = sp.Rational(rnd.randint(0, 4000), 1000)
            else: v = sp.Rational(rnd.randint(-4000, 4000), 1000)
            pt[s] = v
        ok = True
        for s, (op, b) in plan.items():
            if s in pt: continue
            try:
                bv = numeric(b, pt, 20)
                if not bv.is_real: ok = False; break
                bq = sp.Rational(int(sp.floor(bv * 1000)), 1000)
                slack = sp.Rational(rnd.randint(1, 3000), 1000)
                v = bq + slack + sp.Rational(1, 1000) if op in ('>', '>=') else bq - slack
                if op in ('<', '<=') and (s.is_positive or s.is_nonnegative) and bv > 0 and (v <= 0 or k % 2):
                    v = sp.Rational('%.4g' % (float(bv) * rnd.randint(50, 950) / 1000.0))      # positive symbol under a (possibly small) positive bound: multiplicative placement, 4 significant digits
                if s.is_positive and v <= 0: ok = False; break
                if s.is_negative and v >= 0: ok = False; break
                if s.is_nonnegative and v < 0: ok = False; break
                if s.is_nonpositive and v > 0: ok = False; break
                pt[s] = v
            except Exception:
                ok = False; break
        if not ok: continue
        if any(s_ not in pt for s_ in symbols): continue
        fv = [float(pt[s_]) for s_ in symbols]
        if any(f is not None and not f(fv) for f in fast): continue
        for h in hyps:
            try:
                if not eval_cond(h, pt): ok = False; break
            except Exception:
                ok = False; break
        if ok: pts.append(pt)
    return pts


def _margins(goal):
    """goal -> list of expressions m_i such that the goal is false where some m_i < 0 (relational goals and conjunctions of them)"""
    if isinstance(goal, sp.And):
        out = []
        for a in goal.args:
            m = _margins(a)
            if m is None: return None
            out += m
        return out
    if isinstance(goal, sp.Basic) and goal.is_Relational:
        op = goal.rel_op
        if op in ('>', '>='): return [goal.lhs - goal.rhs]
        if op in ('<', '<='): return [goal.rhs - goal.lhs]
    return None


def descend_search(symbols, hyps, goal, seed=0, ranges=None, starts=6, steps=600, time_cap=25.0):
    """directed counterexample search: from admissible sample points, descend the goal's margin while staying inside the hypotheses
    (float arithmetic); a point with negative margin is returned only after exact re-evaluation of hypotheses and goal.
    Finds violations confined to thin regions that rejection sampling misses.  Returns a point dict or None."""
    import math
    ms = _margins(goal)
    if not ms: return None
    if any(isinstance(h, sp.Basic) and h.is_Relational and h.rel_op == '==' for h in hyps): return None
    symbols = sorted(symbols, key=lambda s_: s_.name)
    if any(s_.is_integer for s_ in symbols): return None
    fast = [_fast_cond(h, symbols) for h in hyps]
    if any(f is None for f in fast): return None
    t_end = time.time() + time_cap
    pts = sample_points(set(symbols), list(hyps), starts, seed=seed, ranges=ranges, tries=2000)
    if not pts: return None
    rnd = random.Random(seed + 17)
    for m in ms:
        try: g = sp.lambdify(symbols, m, modules=['math'])
        except Exception: continue
        def val(v):
            try:
                d = g(*v)
                if isinstance(d, complex) or d != d: return None
                return float(d)
            except (ValueError, ZeroDivisionError, OverflowError, TypeError):
                return None
        for pt in pts:
            v = [float(pt[s_]) for s_ in symbols]; cur = val(v)
            if cur is None: continue
            step = 0.2
            for it in range(steps):
                if time.time() > t_end: return None
                w = list(v)
                for i, s_ in enumerate(symbols):
                    if rnd.random() < 0.5: continue
                    d_ = rnd.gauss(0, step)
                    w[i] = v[i] * math.exp(d_) if (s_.is_positive or s_.is_negative) else v[i] + d_ * max(1.0, abs(v[i]))
                    if ranges and s_ in ranges: w[i] = min(max(w[i], ranges[s_][0]), ranges[s_][1])
                if not all(f(w) for f in fast): step = max(step * 0.9, 1e-4); continue
                nv = val(w)
                if nv is None or nv >= cur: step = max(step * 0.95, 1e-4); continue
                v, cur = w, nv; step = min(step * 1.3, 0.5)
                if cur < 0:
                    # push a little further inside the violating region, then confirm exactly on a rational point
                    cand = {s_: sp.Rational(repr(round(x_, 6))) if abs(x_) > 1e-3 else sp.Rational(repr(float('%.6g' % x_))) for s_, x_ in zip(symbols, v)}
                    try:
                        if all(eval_cond(h, cand) for h in hyps) and not eval_cond(goal, cand): return cand
                    except Exception: pass
    return None


def refute(e, points, prec=40, tol=1e-18):
    """first admissible point where e is numerically non-zero (relative to the size of its terms).
    evaluation: mpmath at `prec` digits through lambdify (exact rational inputs)"""
    import mpmath
    terms = list(sp.Add.make_args(e))
    syms = sorted(e.free_symbols, key=lambda s: s.name)
    try:
        f = sp.lambdify(syms, terms, modules=['mpmath'])
    except Exception:
        f = None
    for pt in points:
        try:
            if any(s not in pt for s in syms): continue
            if f is not None:
                with mpmath.workdps(prec):
                    vals = f(*[mpmath.mpf(int(sp.Rational(pt[s]).p)) / mpmath.mpf(int(sp.Rational(pt[s]).q)) for s in syms])
                    vals = [mpmath.mpmathify(x) for x in vals]
                    if any(isinstance(x, mpmath.mpc) and abs(x.imag) > 0 for x in vals): continue
                    vals = [x.real if isinstance(x, mpmath.mpc) else x for x in vals]
                    if not all(mpmath.isfinite(x) for x in vals): continue
                    v = mpmath.fsum(vals); scale = mpmath.fsum([abs(x) for x in vals]) if len(vals) > 1 else max(abs(v), 1)
                    if scale == 0: scale = mpmath.mpf(1)
                    if abs(v) > tol * max(scale, mpmath.mpf('1e-30')):
                        return pt, sp.Float(str(v), 15)
                continue
            v = numeric(e, pt, prec)
            if v.has(sp.nan) or v.has(sp.zoo) or v.has(sp.oo) or not v.is_number: continue
            if not v.is_real:
                if abs(sp.im(v)) > 0: continue
            scale = sum(abs(numeric(t, pt, 20)) for t in terms) if len(terms) > 1 else max(abs(v), 1)
            if scale == 0 or not scale.is_number: scale = sp.Integer(1)
            if abs(v) > tol * max(scale, sp.Float(1e-30)):
                return pt, v
        except Exception:
            continue
    return None, None


def binomial_sign(e, hyps=(), smt_timeout=3000):
    """sign analysis of an expression whose normal form has exactly two power-monomial terms  c*(M1 - M2)*positive:
    if M1/M2 == (b1/b2)^d  with d of known sign, then  sign(e) = sign(c) * sign(d) * sign(b1 - b2).
    Returns (c_sign * d_sign, b1, b2) or None.  Used to derive sign lemmas for rarefaction wave-curve terms (monotonicity of real powers, A3)."""
    try:
        nz = Normalizer(hyps, smt_timeout)
        N = nz.norm(sp.sympify(e))
        n, d = sp.fraction(sp.together(N))
        if nz.sign(nz.merge_gp(d)) == 0:
            # denominator: product of positive atoms expected
            cf, fl, sg = nz.factors(d)
            dsign = sg
        else:
            dsign = nz.sign(nz.merge_gp(d))
        terms = sp.Add.make_args(sp.expand(n))
        if len(terms) != 2: return None
        monos = [nz.canon_mono(t_) for t_ in terms]
        (c1, m1), (c2, m2) = monos
        if not (c1.is_Rational and c2.is_Rational and c1 == -c2): 
            # allow positive symbolic cofactors common to both terms
            return None
        def exps(m):
            out = {}
            for f in sp.Mul.make_args(m):
                b, k = f.as_base_exp()
                if isinstance(b, GP) and k.is_Integer: out[b.args[0]] = out.get(b.args[0], 0) + k * b.args[1]
                elif f.is_Symbol or (f.is_Pow and f.base.is_Symbol and f.exp.is_Integer):
                    out[f.as_base_exp()[0]] = out.get(f.as_base_exp()[0], 0) + f.as_base_exp()[1]
                elif f == 1: pass
                else: return None
            return out
        e1, e2 = exps(m1), exps(m2)
        if e1 is None or e2 is None: return None
        diff = {}
        for b in set(e1) | set(e2):
            dd = sp.cancel(sp.together(e1.get(b, 0) - e2.get(b, 0)))
            if dd != 0: diff[b] = dd
        if len(diff) != 2: return None
        (b1, d1), (b2, d2) = list(diff.items())
        if sp.cancel(d1 + d2) != 0: return None
        if b1 in nz.defs or b2 in nz.defs: return None
        ok, _ = smt.valid(hyps, d1 > 0, smt_timeout)
        if ok: s_ = 1
        else:
            ok, _ = smt.valid(hyps, d1 < 0, smt_timeout)
            if not ok: return None
            s_ = -1
        cs = 1 if c1 > 0 else -1
        return cs * s_ * dsign, b1, b2
    except (Undecided, NeedSplit):
        return None
