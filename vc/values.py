"""Value domain of the symbolic executor.

Scalars are sympy expressions (exact rationals for every numeric literal), booleans are Python
bools or sympy Booleans, containers are Python containers.  numpy arrays over the request
points are represented by their generic element (assumption A2, DESIGN.md 1.2)."""
import sympy as sp
from fractions import Fraction


class Unsupported(Exception):
    """The function left the supported Python subset: an *extraction failure* (never a verdict)."""


class RaiseSignal(Exception):
    def __init__(self, name, msg=None):
        Exception.__init__(self, name); self.name = name; self.msg = msg


class ReturnSignal(Exception):
    def __init__(self, value): self.value = value


class BreakSignal(Exception): pass
class ContinueSignal(Exception): pass


def num(v):
    """Exact image of a Python number.  Floats: the shortest rational that round-trips
    (5.0/3.0 -> 5/3), else the exact decimal literal."""
    if isinstance(v, bool): return v
    if isinstance(v, int): return sp.Integer(v)
    if isinstance(v, float):
        if v != v: return sp.nan
        if v in (float('inf'), float('-inf')): return sp.oo if v > 0 else -sp.oo
        fr = Fraction(v).limit_denominator(10 ** 6)
        if float(fr) == v: return sp.Rational(fr.numerator, fr.denominator)
        return sp.Rational(repr(v))
    if isinstance(v, complex):
        return num(v.real) + sp.I * num(v.imag)
    return v


def lit(src_float):
    """Numeric literal from source text value (float): exact decimal reading."""
    if isinstance(src_float, float):
        import math
        if src_float == math.e: return sp.E       # the float nearest e / pi is read as e / pi (part of A1)
        if src_float == math.pi: return sp.pi
        if src_float == int(src_float) and abs(src_float) < 1e15: return sp.Integer(int(src_float))
        return sp.Rational(repr(src_float))
    return num(src_float)


class Marker:
    def __init__(self, name): self.name = name
    def __repr__(self): return '<%s>' % self.name


UNSET = Marker('unset')          # np.empty element
GENIDX = Marker('generic-index')  # index of the generic element in a map loop
SHAPE = Marker('shape')
NLEN = sp.Symbol('N_points', positive=True, integer=True)


class Arr:
    """numpy array over the request index, by its generic element."""
    def __init__(self, elem, origin=None, grid=False):
        self.elem = elem; self.origin = origin   # origin: name of the input it aliases (frame check)
        self.grid = grid                         # internal evaluation grid abstracted by its generic node
    def __repr__(self): return 'Arr(%r)' % (self.elem,)


class Vec:
    """small fixed-length numeric vector (np.array([...]) / tuple used as a vector)."""
    def __init__(self, items): self.items = list(items)
    def __len__(self): return len(self.items)
    def __iter__(self): return iter(self.items)
    def __getitem__(self, i): return self.items[i]
    def __repr__(self): return 'Vec(%r)' % (self.items,)
    def __eq__(self, o): return isinstance(o, Vec) and self.items == o.items
    def __hash__(self): return hash(tuple(self.items))


class GList(list):
    """Python list appended to inside a map loop: one generic element."""
    generic = False


class Obj:
    def __init__(self, cls_key, attrs=None):
        self.cls_key = cls_key; self.attrs = attrs if attrs is not None else {}
    def __repr__(self): return 'Obj(%s)' % self.cls_key


class FuncVal:
    def __init__(self, node, module, closure=None, name=None, cls_key=None):
        self.node = node; self.module = module; self.closure = closure; self.cls_key = cls_key
        self.name = name or getattr(node, 'name', '<lambda>')
    def __repr__(self): return 'FuncVal(%s)' % self.name


class BoundMethod:
    def __init__(self, obj, func): self.obj = obj; self.func = func


class LibRef:
    """reference into an external library by dotted name (numpy.sqrt, scipy.optimize.bisect...)"""
    def __init__(self, name): self.name = name
    def __repr__(self): return 'LibRef(%s)' % self.name


class ClassRef:
    def __init__(self, cls_key): self.cls_key = cls_key
    def __repr__(self): return 'ClassRef(%s)' % self.cls_key


class ModRef:
    """a module of the repository"""
    def __init__(self, modname): self.modname = modname


class BuiltinMethod:
    def __init__(self, recv, name): self.recv = recv; self.name = name


class Opaque:
    """result of an external call that the contract layer left abstract"""
    def __init__(self, tag, payload=None): self.tag = tag; self.payload = payload
    def __repr__(self): return 'Opaque(%s)' % self.tag


class Solution:
    """what `ExactSolution(data, names=..., jumps=...)` was called with"""
    def __init__(self, data, names, jumps, lineno=None):
        self.data = data; self.names = names; self.jumps = jumps; self.lineno = lineno
    def field(self, name):
        i = list(self.names).index(name)
        v = self.data[i]
        return v.elem if isinstance(v, Arr) else v
    def fields(self):
        return {n: (v.elem if isinstance(v, Arr) else v) for n, v in zip(self.names, self.data)}


def is_sym(v):
    return isinstance(v, sp.Basic)


def is_concrete_number(v):
    return isinstance(v, (int, float)) or (isinstance(v, sp.Basic) and v.is_number and not v.has(sp.nan))


class AbstractObj:
    """object known only through its contract: attribute name -> value / python callable(interp, args, kw)"""
    def __init__(self, tag, members): self.tag = tag; self.members = members
    def __repr__(self): return 'AbstractObj(%s)' % self.tag


class SymRange:
    """range(start, stop) with a symbolic bound: a series / mode loop executed once on a generic index"""
    def __init__(self, start, stop): self.start = start; self.stop = stop


class Fam:
    """array indexed by a mode number: generic element as an expression of the index symbol (plus explicitly stored concrete entries)"""
    def __init__(self, default):
        self.default = default; self.elem = None; self.idx = None; self.special = {}
    def __repr__(self): return 'Fam(%r @ %r)' % (self.elem, self.idx)
