"""Obligations, verdicts, units of work (DESIGN.md 1.6).

verdicts:  discharged(back end) | refuted(counterexample, to be replayed natively) | open(reason)
           | error(engine fault) | bounded-pass / bounded-fail (run-time contract checks, never counted as proved)"""
import time, json, os, traceback, hashlib, signal, contextlib
import sympy as sp
from . import alg, smt
from .values import Unsupported

SEED = int(os.environ.get('VERIF_SEED', '0') or 0)


def jval(v):
    if isinstance(v, (bool, int, str)) or v is None: return v
    if isinstance(v, float): return v
    if isinstance(v, sp.Basic):
        if v.is_Integer: return int(v)
        if v.is_number:
            try: return float(v)
            except Exception: return str(v)
        return str(v)
    if isinstance(v, dict): return {str(k): jval(x) for k, x in v.items()}
    if isinstance(v, (list, tuple)): return [jval(x) for x in v]
    return str(v)


class Budget(Exception): pass


@contextlib.contextmanager
def time_limit(seconds):
    """soft per-obligation budget inside a worker (the pool adds the hard kill)"""
    def h(sig, frm): raise Budget()
    old = signal.signal(signal.SIGALRM, h); signal.alarm(int(seconds))
    try: yield
    finally:
        signal.alarm(0); signal.signal(signal.SIGALRM, old)


class Obl(dict):
    """one obligation result (a plain dict so that it crosses process boundaries as JSON)"""
    def __init__(self, name, status, backend='', time_s=0.0, **kw):
        dict.__init__(self, name=name, status=status, backend=backend, time_s=round(time_s, 4))
        self.update(kw)


concretize = alg.concretize


def short(e, n=300):
    s = str(e)
    return s if len(s) <= n else s[:n] + '...[%d chars]' % len(s)


def prove_zero(name, expr, hyps=(), witness=None, nsamples=None, replay=None, goal_text=None, extra_syms=(), ranges=None, tol=1e-18, positive=()):
    """Equality obligation  hyps => expr == 0.
    ring-mod-laws first; on failure the counterexample search decides refuted vs open.
    A 'proved' verdict is cross-checked numerically at admissible points (engine guard)."""
    t0 = time.time()
    tier = os.environ.get('VERIF_TIER', 'quick')
    if nsamples is None: nsamples = 60 if tier == 'quick' else 400
    try:
        expr = sp.sympify(expr)
        if expr.has(sp.nan) or expr.has(sp.zoo):
            return Obl(name, 'refuted', 'definedness', time.time() - t0, goal=goal_text or short(expr), detail='expression is undefined (nan/zoo)', cex=None, replay=replay)
        try:
            with time_limit(240 if tier == 'quick' else 900):
                z, info = alg.is_zero(expr, hyps, positive=positive)
        except Budget:
            z, info = None, {'reason': 'normaliser budget exceeded'}
        hyps = list(hyps) + [p > 0 for p in positive]
        syms = set(expr.free_symbols) | set(extra_syms)
        for h in hyps:
            if isinstance(h, sp.Basic): syms |= h.free_symbols
        cexpr = concretize(expr)
        if z:
            pts = alg.sample_points(syms, hyps, 3, seed=SEED + 17, witness=witness, ranges=ranges)
            bad, val = alg.refute(cexpr, pts, tol=1e-12)
            if bad is not None:
                return Obl(name, 'error', 'ring', time.time() - t0, detail='normaliser proved 0 but value %s at %s' % (val, jval(bad)))
            return Obl(name, 'discharged', 'ring-mod-laws(sympy)', time.time() - t0, goal=goal_text or (short(expr, 160) + ' == 0'),
                       laws=info.get('laws', []), guard_points=len(pts))
        pts = alg.sample_points(syms, hyps, nsamples, seed=SEED, witness=witness, ranges=ranges)
        bad, val = alg.refute(cexpr, pts, tol=tol)
        if bad is not None:
            return Obl(name, 'refuted', 'exact-evaluation', time.time() - t0, goal=goal_text or (short(expr, 160) + ' == 0'),
                       cex=jval(bad), value=str(sp.N(val, 8)), replay=replay, cex_raw={str(k): str(v) for k, v in bad.items()})
        return Obl(name, 'open', 'ring', time.time() - t0, goal=goal_text or short(expr, 160), detail=info.get('reason') or 'normal form not zero',
                   searched=len(pts))
    except Unsupported as u:
        return Obl(name, 'open', 'extraction', time.time() - t0, detail='extraction: ' + str(u))
    except Exception as ex:
        return Obl(name, 'error', 'engine', time.time() - t0, detail=traceback.format_exc()[-1500:])


def prove_valid(name, hyps, goal, witness=None, nsamples=None, replay=None, timeout_ms=None, goal_text=None, ranges=None):
    """Inequality / boolean obligation  hyps => goal   (z3; numeric refutation when z3 gives no model)."""
    t0 = time.time()
    tier = os.environ.get('VERIF_TIER', 'quick')
    if timeout_ms is None: timeout_ms = 60000 if tier == 'quick' else 180000
    if nsamples is None: nsamples = 100 if tier == 'quick' else 1000
    try:
        if goal is True or goal is sp.true:
            return Obl(name, 'discharged', 'sympy-assumptions', time.time() - t0, goal=goal_text or 'True')
        # sign goals on power-law expressions: sign analysis of the normaliser (factor signs from the hypotheses)
        if isinstance(goal, sp.Basic) and goal.is_Relational and goal.rhs == 0 and goal.rel_op in ('!=', '>', '<', '>=', '<='):
            try:
                nz_ = alg.Normalizer(list(hyps), 1500)
                for h_ in hyps:
                    if isinstance(h_, sp.Basic) and h_.is_Relational and h_.rel_op == '>' and h_.rhs == 0 and not h_.lhs.is_Symbol and h_.lhs.atoms(sp.Pow):
                        try: nz_.assume_positive(h_.lhs)
                        except Exception: pass
                N_ = nz_.norm(goal.lhs)
                cf_, fl_, sg_ = nz_.factors(N_)
                if cf_ != 0:
                    sgn_ = sg_ if cf_ > 0 else -sg_
                    if (goal.rel_op == '!=') or (goal.rel_op in ('>', '>=') and sgn_ > 0) or (goal.rel_op in ('<', '<=') and sgn_ < 0):
                        return Obl(name, 'discharged', 'ring-sign-analysis', time.time() - t0, goal=goal_text or short(goal, 200), laws=sorted(nz_.laws))
            except (alg.Undecided, alg.NeedSplit, Exception):
                pass
        ok, model = smt.valid(hyps, goal, timeout_ms)
        abstracted = smt.LAST['abstracted']
        if ok:
            return Obl(name, 'discharged', 'z3', time.time() - t0, goal=goal_text or short(goal, 200))
        syms = set()
        for h in list(hyps) + [goal]:
            if isinstance(h, sp.Basic): syms |= h.free_symbols
        # counterexample search over the reals: admissible points where the goal is false (exact / 30-digit evaluation)
        pts = alg.sample_points(syms, list(hyps) + [sp.Not(goal)], 1, seed=SEED, witness=None, ranges=ranges, tries=40 * nsamples)
        if pts:
            pt = pts[0]
            return Obl(name, 'refuted', 'exact-evaluation', time.time() - t0, goal=goal_text or short(goal, 200), cex=jval(pt), replay=replay,
                       cex_raw={str(k): str(v) for k, v in pt.items()})
        # directed search: descend the goal's margin inside the hypotheses (violations confined to thin regions)
        try: pt = alg.descend_search(syms, list(hyps), goal, seed=SEED, ranges=ranges, time_cap=25.0 if tier == 'quick' else 120.0)
        except Exception: pt = None
        if pt:
            return Obl(name, 'refuted', 'exact-evaluation(descent)', time.time() - t0, goal=goal_text or short(goal, 200), cex=jval(pt), replay=replay,
                       cex_raw={str(k): str(v) for k, v in pt.items()})
        if model is not None:      # confirmed by exact re-evaluation below (abstracted atoms are recomputed), otherwise discarded
            full = {s_: model.get(s_, sp.Integer(0)) for s_ in syms}
            try:
                genuine = all(alg.eval_cond(h, full) for h in hyps) and not alg.eval_cond(goal, full)
            except Exception:
                genuine = False
            if genuine:
                return Obl(name, 'refuted', 'z3-model', time.time() - t0, goal=goal_text or short(goal, 200), cex=jval(full), replay=replay,
                           cex_raw={str(k): str(v) for k, v in full.items()})
        return Obl(name, 'open', 'z3', time.time() - t0, goal=goal_text or short(goal, 200),
                   detail=('z3 model is not confirmed over the reals (abstracted transcendental atoms / algebraic model)' if model is not None else 'unknown/timeout') +
                   ' and no counterexample in %d sampled points' % (40 * nsamples))
    except Unsupported as u:
        return Obl(name, 'open', 'extraction', time.time() - t0, detail='extraction: ' + str(u))
    except Exception:
        return Obl(name, 'error', 'engine', time.time() - t0, detail=traceback.format_exc()[-1500:])


def structural(name, ok, detail='', replay=None, backend='ast-structural', goal=None, cex=None):
    return Obl(name, 'discharged' if ok else 'refuted', backend, 0.0, detail=detail, replay=replay, goal=goal or name, cex=cex)
