"""Library layer of the symbolic executor: operators, numpy/math/builtins on the value domain.
Element-wise meaning of numpy (assumption A2); ideal elementary functions (A3)."""
import ast, operator
import sympy as sp
from .values import *

BUILTINS = {'len', 'range', 'enumerate', 'zip', 'abs', 'min', 'max', 'sum', 'float', 'int', 'str', 'bool', 'list',
            'tuple', 'dict', 'set', 'isinstance', 'hasattr', 'getattr', 'setattr', 'print', 'pow', 'round', 'sorted',
            'reversed', 'any', 'all', 'map', 'type', 'super', 'complex', 'object', 'eval', 'exec', 'compile',
            'ValueError', 'TypeError', 'KeyError', 'RuntimeError', 'Exception', 'AssertionError', 'ZeroDivisionError',
            'NotImplementedError', 'IndexError', 'AttributeError', 'ArithmeticError', 'OverflowError', 'Warning',
            'UserWarning', 'RuntimeWarning', 'DeprecationWarning', 'frozenset', 'divmod', 'callable', 'iter', 'next',
            'open', 'repr', 'id', 'filter', 'vars', 'dir', 'NotImplemented', 'slice', 'issubclass'}

CONSTANTS = {'pi': sp.pi, 'e': sp.E, 'inf': sp.oo, 'Inf': sp.oo, 'infty': sp.oo, 'nan': sp.nan, 'NaN': sp.nan, 'NAN': sp.nan,
             'newaxis': None, 'euler_gamma': sp.EulerGamma, 'tau': 2 * sp.pi}
LIBMODS = ('numpy', 'math', 'cmath', 'scipy', 'np')


def canon(name):
    p = name.split('.')
    if p[0] in ('numpy', 'np', 'math', 'cmath'): return '.'.join(p[1:]) if len(p) > 1 else p[0]
    if p[0] == 'builtins': return '.'.join(p[1:])
    return name


def libref(name):
    c = canon(name)
    if name.split('.')[0] in ('numpy', 'np', 'math', 'cmath') and c in CONSTANTS: return CONSTANTS[c]
    return LibRef(name)


def lib_has(base, name):
    return base in ('numpy', 'math', 'cmath', 'pylab', 'scipy', 'scipy.optimize', 'scipy.integrate', 'scipy.special')


def mapv(f, *vs):
    """apply f element-wise through Arr / Vec"""
    if any(isinstance(v, Arr) for v in vs):
        return Arr(mapv(f, *[v.elem if isinstance(v, Arr) else v for v in vs]))
    vecs = [v for v in vs if isinstance(v, (Vec,))]
    if vecs:
        n = len(vecs[0])
        def comp(v, i):
            if isinstance(v, Vec):
                if len(v) != n:
                    if len(v) == 1: return v[0]
                    raise RaiseSignal('ValueError', 'shape mismatch')
                return v[i]
            if isinstance(v, (list, tuple)):
                if len(v) != n: raise RaiseSignal('ValueError', 'shape mismatch')
                return v[i]
            return v
        return Vec([mapv(f, *[comp(v, i) for v in vs]) for i in range(n)])
    return f(*vs)


def and_all(cs):
    out = []
    for c in cs:
        if isinstance(c, Arr): c = c.elem
        if c is True or c is sp.true: continue
        if c is False or c is sp.false: return False
        out.append(c)
    if not out: return True
    return out[0] if len(out) == 1 else sp.And(*out)


def or_all(cs):
    out = []
    for c in cs:
        if isinstance(c, Arr): c = c.elem
        if c is False or c is sp.false: continue
        if c is True or c is sp.true: return True
        out.append(c)
    if not out: return False
    return out[0] if len(out) == 1 else sp.Or(*out)


def S(v):
    """scalar to sympy"""
    if isinstance(v, bool): return sp.Integer(int(v))
    if isinstance(v, (int, float)): return num(v)
    if isinstance(v, sp.Basic): return v
    if v is UNSET: raise Unsupported('use of an uninitialised np.empty element')
    raise Unsupported('arithmetic on %r' % (v,))


def isnum(v):
    return isinstance(v, (int, float, sp.Basic)) and not isinstance(v, bool) or isinstance(v, bool)


_PYOPS = {ast.Add: operator.add, ast.Sub: operator.sub, ast.Mult: operator.mul, ast.Mod: operator.mod,
          ast.BitAnd: operator.and_, ast.BitOr: operator.or_, ast.BitXor: operator.xor}


def binop(I, op, a, b):
    if isinstance(a, Arr) or isinstance(b, Arr):
        ae = a.elem if isinstance(a, Arr) else a
        be = b.elem if isinstance(b, Arr) else b
        return Arr(binop(I, op, ae, be))
    if isinstance(a, Vec) or isinstance(b, Vec):
        if isinstance(a, (Vec, list, tuple)) and isinstance(b, (Vec, list, tuple)) or isnum(a) or isnum(b):
            return mapv(lambda x, y: binop(I, op, x, y), a if not isinstance(a, (list, tuple)) else Vec(a),
                        b if not isinstance(b, (list, tuple)) else Vec(b))
    if isinstance(a, str) or isinstance(b, str):
        if op is ast.Add and isinstance(a, str) and isinstance(b, str): return a + b
        if op is ast.Mod and isinstance(a, str): return '<str>'
        if op is ast.Mult: return '<str>'
        raise RaiseSignal('TypeError', 'str op')
    if isinstance(a, (list, tuple, GList)) or isinstance(b, (list, tuple, GList)):
        if op is ast.Add and type(a) is type(b): return a + b
        if op is ast.Mult:
            if isinstance(a, (list, tuple)) and isnum(b): return a * int(b)
            if isinstance(b, (list, tuple)) and isnum(a): return b * int(a)
        raise Unsupported('sequence operator')
    if isinstance(a, (set, frozenset)) or isinstance(b, (set, frozenset)) or type(a).__name__ == 'dict_keys' or type(b).__name__ == 'dict_keys':
        f = {ast.Sub: operator.sub, ast.BitAnd: operator.and_, ast.BitOr: operator.or_, ast.BitXor: operator.xor}.get(op)
        if f: return f(set(a), set(b))
    if isinstance(a, bool) and isinstance(b, bool) and op in (ast.BitAnd, ast.BitOr, ast.BitXor):
        return _PYOPS[op](a, b)
    if (isinstance(a, sp.Basic) and (a.is_Boolean or a.is_Relational)) or (isinstance(b, sp.Basic) and (b.is_Boolean or b.is_Relational)):
        if op is ast.BitAnd: return and_all([a, b])
        if op is ast.BitOr: return or_all([a, b])
        if op is ast.Mult: return and_all([a, b])
    a = S(a); b = S(b)
    ln = I.run.lineno
    if op is ast.Add: return a + b
    if op is ast.Sub: return a - b
    if op is ast.Mult: return a * b
    if op is ast.Div:
        if b.is_number:
            if b == 0:
                I.run.defined.append(('nonzero', b, ln))
                if a.is_number and a == 0: return sp.nan
                return sp.zoo if not a.is_number else (sp.oo * sp.sign(a))
        else:
            I.run.defined.append(('nonzero', b, ln))
        return a / b
    if op is ast.Pow: return power(I, a, b)
    if op is ast.FloorDiv:
        if a.is_number and b.is_number: return sp.floor(a / b)
        return sp.floor(a / b)
    if op is ast.Mod:
        if a.is_number and b.is_number: return sp.Mod(a, b)
        return sp.Mod(a, b)
    if op is ast.MatMult: raise Unsupported('matmul')
    raise Unsupported('operator ' + op.__name__)


def power(I, a, b):
    a = S(a); b = S(b)
    ln = I.run.lineno
    if b.is_Integer:
        if b < 0 and not (a.is_number and a != 0): I.run.defined.append(('nonzero', a, ln))
        if b < 0 and a.is_number and a == 0: I.run.defined.append(('nonzero', a, ln)); return sp.zoo
        return a ** b
    if a.is_number and b.is_number:
        if a.is_real and a < 0 and not b.is_Integer:
            I.run.defined.append(('nonneg', a, ln)); return sp.nan
        return a ** b
    if a.is_positive: return a ** b
    I.run.defined.append(('pow', (a, b), ln))
    return a ** b


_REL = {ast.Lt: sp.Lt, ast.LtE: sp.Le, ast.Gt: sp.Gt, ast.GtE: sp.Ge}
_PYREL = {ast.Lt: operator.lt, ast.LtE: operator.le, ast.Gt: operator.gt, ast.GtE: operator.ge, ast.Eq: operator.eq, ast.NotEq: operator.ne}


def sbool(r):
    if r is sp.true: return True
    if r is sp.false: return False
    return r


def compare(I, op, a, b):
    if op is ast.Is: return a is b or (a is None and b is None) or (isinstance(a, bool) and isinstance(b, bool) and a == b)
    if op is ast.IsNot: return not compare(I, ast.Is, a, b)
    if op in (ast.In, ast.NotIn):
        r = contains(I, b, a)
        return r if op is ast.In else I.not_(r)
    if isinstance(a, Arr) or isinstance(b, Arr):
        ae = a.elem if isinstance(a, Arr) else a
        be = b.elem if isinstance(b, Arr) else b
        return Arr(compare(I, op, ae, be))
    if isinstance(a, Vec) or isinstance(b, Vec):
        if op in (ast.Eq, ast.NotEq) and isinstance(a, Vec) and isinstance(b, Vec) and False:
            pass
        return mapv(lambda x, y: compare(I, op, x, y), a, b)
    na = isinstance(a, (int, float, sp.Basic)); nb = isinstance(b, (int, float, sp.Basic))
    if na and nb:
        a = S(a); b = S(b)
        if a.has(sp.nan) or b.has(sp.nan): return op is ast.NotEq
        if op is ast.Eq:
            if a == b: return True
            if a.is_number and b.is_number: return bool(sp.simplify(a - b) == 0) if not (a.is_Rational and b.is_Rational) else False
            if a.has(sp.I) != b.has(sp.I) and (a.is_real or b.is_real): return False
            return sbool(sp.Eq(a, b))
        if op is ast.NotEq:
            r = compare(I, ast.Eq, a, b)
            return I.not_(r)
        if a.has(sp.I) or b.has(sp.I): raise RaiseSignal('TypeError', 'ordering complex')
        return sbool(_REL[op](a, b))
    if op in (ast.Eq, ast.NotEq):
        if a is UNSET or b is UNSET: raise Unsupported('comparison of uninitialised element')
        try: r = (a == b)
        except Exception: r = False
        if not isinstance(r, bool): r = bool(r)
        return r if op is ast.Eq else not r
    if isinstance(a, (str, list, tuple)) and type(a) is type(b): return _PYREL[op](a, b)
    if isinstance(a, (set, frozenset)) or type(a).__name__ == 'dict_keys':
        return _PYREL[op](set(a), set(b))
    raise Unsupported('comparison %s of %r and %r' % (op.__name__, a, b))


def contains(I, cont, x):
    if isinstance(cont, dict): return x in cont
    if isinstance(cont, str): return x in cont
    if isinstance(cont, (list, tuple, set, frozenset, Vec)) or type(cont).__name__ in ('dict_keys', 'dict_values'):
        items = list(cont)
        return or_all([compare(I, ast.Eq, x, y) for y in items])
    if isinstance(cont, range):
        return or_all([compare(I, ast.Eq, x, sp.Integer(y)) for y in cont])
    raise Unsupported('membership in %r' % (cont,))


def subscript(I, base, key):
    if isinstance(base, Arr):
        if key is GENIDX: return base.elem
        if isinstance(key, slice) and key == slice(None, None, None): return base
        if isinstance(key, slice) and getattr(base, 'grid', False): return base
        if isinstance(key, tuple):
            if len(key) == 2 and (key[0] is GENIDX or (isinstance(key[0], slice) and key[0] == slice(None, None, None))):
                e = base.elem
                if not isinstance(e, Vec): raise Unsupported('2-d index of a 1-d array')
                v = subscript(I, e, key[1])
                return v if key[0] is GENIDX else Arr(v, origin=(base.origin, key[1]) if base.origin else None)
        if isinstance(key, (int, sp.Integer)):
            # one particular element of the request array: a quantity that depends on the batch
            k = int(key)
            tag = 'first' if k == 0 else ('last' if k == -1 else 'at%d' % k)
            I.run.dropped.append('batch-dependent read %s[%d] line %s' % (base.origin, k, I.run.lineno))
            if isinstance(base.elem, Vec):
                return Vec([sp.Symbol('%s_%s_%d' % (base.origin or 'arr', tag, j), real=True) for j in range(len(base.elem))])
            return sp.Symbol('%s_%s' % (base.origin or 'arr', tag), real=True)
        raise Unsupported('array index %r' % (key,))
    if isinstance(base, (list, tuple, GList, str)):
        if isinstance(key, slice): return base[key]
        if key is GENIDX and isinstance(base, GList): return base[0]
        return base[I._int(key)]
    if isinstance(base, dict):
        if key not in base: raise RaiseSignal('KeyError', key)
        return base[key]
    if isinstance(base, Vec):
        if isinstance(key, slice): return Vec(base.items[key])
        if isinstance(key, tuple):
            if len(key) == 2:
                if isinstance(key[0], slice):
                    rows = base.items[key[0]]
                    return Vec([subscript(I, r, key[1]) for r in rows])
                return subscript(I, base.items[I._int(key[0])], key[1])
            raise Unsupported('vector index %r' % (key,))
        if isinstance(key, (list, Vec)):
            return Vec([base.items[I._int(k)] for k in key])
        try: return base.items[I._int(key)]
        except IndexError: raise RaiseSignal('IndexError')
    if isinstance(base, Solution):
        return base.field(key)
    if isinstance(base, Fam):
        if isinstance(key, sp.Basic) and key.is_number:
            if int(key) in base.special: return base.special[int(key)]
            if base.elem is None: return base.default
            return base.elem.subs(base.idx, key) if isinstance(base.elem, sp.Basic) else base.elem
        if isinstance(key, sp.Basic):
            if base.special: raise Unsupported('mode array with explicitly stored entries read at a symbolic index')
            if base.elem is None: return base.default
            return base.elem.subs(base.idx, key) if isinstance(base.elem, sp.Basic) and base.idx is not None and key != base.idx else base.elem
        raise Unsupported('mode array index %r' % (key,))
    raise Unsupported('subscript of %r' % (type(base).__name__,))


def getattr_builtin(I, o, attr):
    if isinstance(o, Arr):
        if attr == 'shape': return (NLEN,) if not isinstance(o.elem, Vec) else (NLEN, sp.Integer(len(o.elem)))
        if attr == 'size': return NLEN
        if attr == 'ndim': return sp.Integer(2 if isinstance(o.elem, Vec) else 1)
        if attr == 'T': raise Unsupported('transpose of request array')
        return BuiltinMethod(o, attr)
    if isinstance(o, Vec):
        if attr == 'shape':
            return (sp.Integer(len(o)),) + ((sp.Integer(len(o[0])),) if len(o) and isinstance(o[0], Vec) else ())
        if attr == 'size': return sp.Integer(len(o))
        if attr == 'ndim': return sp.Integer(2 if len(o) and isinstance(o[0], Vec) else 1)
        return BuiltinMethod(o, attr)
    if isinstance(o, Fam):
        if attr in ('shape', 'size'): raise Unsupported('shape of a mode array')
        return BuiltinMethod(o, attr)
    if isinstance(o, (dict, list, str, set, tuple, GList, frozenset)): return BuiltinMethod(o, attr)
    if isinstance(o, sp.Basic):
        if attr == 'real': return sp.re(o) if o.has(sp.I) else o
        if attr == 'imag': return sp.im(o) if o.has(sp.I) else sp.Integer(0)
        if attr == 'shape': return ()
        if attr == 'size': return sp.Integer(1)
        return BuiltinMethod(o, attr)
    if isinstance(o, Solution):
        if attr == 'jumps': return o.jumps
        if attr in o.names: return Arr(o.field(attr))
        if attr == 'dtype': return Opaque('dtype', o)
    if isinstance(o, Opaque):
        if o.tag == 'dtype' and attr == 'names': return tuple(o.payload.names)
        return BuiltinMethod(o, attr)
    raise Unsupported('attribute %s of %r' % (attr, type(o).__name__))


def is_shape_like(v):
    if v is SHAPE or v is NLEN: return True
    if isinstance(v, Arr): return True
    if isinstance(v, tuple) and v and any(x is NLEN for x in v): return True
    return False


def fill(shape, value):
    if isinstance(shape, Arr):
        e = shape.elem
        return Arr(Vec([value] * len(e)) if isinstance(e, Vec) else value)
    if isinstance(shape, tuple) and len(shape) == 2 and shape[0] is NLEN:
        return Arr(Vec([value] * int(shape[1])))
    if is_shape_like(shape): return Arr(value)
    if isinstance(shape, (tuple, list)):
        dims = [int(x) for x in shape]
        def mk(d): return Vec([mk(d[1:]) for _ in range(d[0])]) if d else value
        return mk(dims)
    if isinstance(shape, Vec): return mapv(lambda x: value, shape)
    if isinstance(shape, (int, sp.Integer)): return Vec([value] * int(shape))
    if isinstance(shape, sp.Basic) and shape.is_number: return Vec([value] * int(shape))
    if isinstance(shape, sp.Basic) and shape.is_Symbol and shape.is_integer: return Fam(value)    # one entry per mode
    if isinstance(shape, sp.Basic): return value      # *_like of a scalar
    raise Unsupported('array shape %r' % (shape,))


def tovec(v):
    if isinstance(v, (list, tuple)):
        return Vec([tovec(x) for x in v])
    return v


def vec_items(v):
    if isinstance(v, Vec): return v.items
    if isinstance(v, (list, tuple)): return list(v)
    raise Unsupported('expected a vector, got %r' % (v,))


def dot(I, a, b):
    if isinstance(a, Arr) or isinstance(b, Arr):
        return Arr(dot(I, a.elem if isinstance(a, Arr) else a, b.elem if isinstance(b, Arr) else b))
    if isnum(a) or isnum(b): return binop(I, ast.Mult, a, b)
    A = vec_items(a); B = vec_items(b)
    if A and isinstance(A[0], Vec):   # matrix . vector / matrix
        if B and isinstance(B[0], Vec):
            cols = list(zip(*[r.items for r in B]))
            return Vec([Vec([sum((S(x) * S(y) for x, y in zip(r.items, c)), sp.Integer(0)) for c in cols]) for r in A])
        return Vec([sum((S(x) * S(y) for x, y in zip(r.items, B)), sp.Integer(0)) for r in A])
    if len(A) != len(B): raise RaiseSignal('ValueError', 'dot shape')
    return sum((S(x) * S(y) for x, y in zip(A, B)), sp.Integer(0))


def fsqrt(I, x):
    x = S(x)
    if not (x.is_nonnegative or x.is_number): I.run.defined.append(('nonneg', x, I.run.lineno))
    if x.is_number and x.is_real and x < 0:
        I.run.defined.append(('nonneg', x, I.run.lineno)); return sp.nan
    return sp.sqrt(x)


def flog(I, x, base=None):
    x = S(x)
    if not x.is_positive: I.run.defined.append(('pos', x, I.run.lineno))
    r = sp.log(x)
    return r if base is None else r / sp.log(S(base))


def _num_if_const(x):
    if x.free_symbols and len(str(x)) < 400:
        try:
            c = sp.cancel(x)
            if c.is_number: return c
        except Exception: pass
    return x


def facos(I, x):
    x = _num_if_const(S(x)); I.run.defined.append(('unit', x, I.run.lineno)); return sp.acos(x)


def fasin(I, x):
    x = S(x); I.run.defined.append(('unit', x, I.run.lineno)); return sp.asin(x)


UNARY = {
    'sqrt': fsqrt, 'exp': lambda I, x: sp.exp(S(x)), 'log': flog, 'sin': lambda I, x: sp.sin(S(x)),
    'cos': lambda I, x: sp.cos(S(x)), 'tan': lambda I, x: sp.tan(S(x)), 'arcsin': fasin, 'asin': fasin,
    'arccos': facos, 'acos': facos, 'arctan': lambda I, x: sp.atan(S(x)), 'atan': lambda I, x: sp.atan(S(x)),
    'sinh': lambda I, x: sp.sinh(S(x)), 'cosh': lambda I, x: sp.cosh(S(x)), 'tanh': lambda I, x: sp.tanh(S(x)),
    'fabs': lambda I, x: sp.Abs(S(x)), 'abs': lambda I, x: sp.Abs(S(x)), 'absolute': lambda I, x: sp.Abs(S(x)),
    'floor': lambda I, x: sp.floor(S(x)), 'ceil': lambda I, x: sp.ceiling(S(x)), 'sign': lambda I, x: sp.sign(S(x)),
    'square': lambda I, x: S(x) ** 2, 'log10': lambda I, x: flog(I, x, 10), 'log2': lambda I, x: flog(I, x, 2),
    'radians': lambda I, x: S(x) * sp.pi / 180, 'degrees': lambda I, x: S(x) * 180 / sp.pi, 'deg2rad': lambda I, x: S(x) * sp.pi / 180,
    'rad2deg': lambda I, x: S(x) * 180 / sp.pi,
    'float': lambda I, x: S(x), 'float64': lambda I, x: S(x), 'double': lambda I, x: S(x), 'real': lambda I, x: S(x),
    'cbrt': lambda I, x: sp.cbrt(S(x)), 'expm1': lambda I, x: sp.exp(S(x)) - 1, 'log1p': lambda I, x: flog(I, S(x) + 1),
    'isnan': lambda I, x: bool(S(x).has(sp.nan)), 'isfinite': lambda I, x: not (S(x).has(sp.nan) or S(x).has(sp.oo) or S(x).has(sp.zoo)),
    'isinf': lambda I, x: bool(S(x).has(sp.oo) or S(x).has(sp.zoo)),
    'conj': lambda I, x: sp.conjugate(S(x)), 'conjugate': lambda I, x: sp.conjugate(S(x)),
    'erf': lambda I, x: sp.erf(S(x)), 'erfc': lambda I, x: sp.erfc(S(x)),
}

DROPPED_CALLS = {'print', 'warnings.warn', 'warn', 'seterr', 'seterrcall', 'warnings.simplefilter', 'warnings.filterwarnings',
                 'set_printoptions', 'sys.stdout.write', 'sys.stdout.flush', 'logging.warning', 'logging.info'}
EXC_NAMES = {'ValueError', 'TypeError', 'KeyError', 'RuntimeError', 'Exception', 'AssertionError', 'ZeroDivisionError',
             'NotImplementedError', 'IndexError', 'AttributeError', 'ArithmeticError', 'OverflowError', 'Warning', 'UserWarning',
             'RuntimeWarning', 'DeprecationWarning'}


def minmax(I, vals, ismax):
    vals = list(vals)
    acc = vals[0]
    for v in vals[1:]:
        acc = minmax2(I, acc, v, ismax)
    return acc


def minmax2(I, a, b, ismax):
    if isinstance(a, Arr) or isinstance(b, Arr):
        return Arr(minmax2(I, a.elem if isinstance(a, Arr) else a, b.elem if isinstance(b, Arr) else b, ismax))
    if isinstance(a, Vec) or isinstance(b, Vec):
        return mapv(lambda x, y: minmax2(I, x, y, ismax), a, b)
    a = S(a); b = S(b)
    if a == b: return a
    c = sbool(sp.Ge(a, b))
    d = I.run.decide(c)
    return (a if d else b) if ismax else (b if d else a)


def call_lib(I, name, args, kw, node=None):
    c = canon(name)
    run = I.run
    if c in DROPPED_CALLS or name in DROPPED_CALLS:
        run.dropped.append('%s(...) line %s' % (c, run.lineno)); return None
    if c in EXC_NAMES: return Opaque('exception:' + c)
    if c in UNARY and len(args) >= 1 and name.split('.')[0] in ('numpy', 'np', 'math', 'cmath', 'builtins', 'scipy'):
        if c == 'log' and len(args) == 2: return mapv(lambda x: flog(I, x, args[1]), args[0])
        if c in ('float', 'abs') and isinstance(args[0], str):
            try: return num(float(args[0]))
            except ValueError: raise RaiseSignal('ValueError')
        return mapv(lambda x: UNARY[c](I, x), args[0])
    if c in ('power', 'pow', 'float_power'):
        return mapv(lambda x, y: power(I, x, y), args[0], args[1])
    if c in ('arctan2', 'atan2'): return mapv(lambda y, x: sp.atan2(S(y), S(x)), args[0], args[1])
    if c == 'hypot': return mapv(lambda x, y: sp.sqrt(S(x) ** 2 + S(y) ** 2), args[0], args[1])
    if c in ('ones', 'zeros', 'empty', 'full', 'ones_like', 'zeros_like', 'empty_like', 'full_like'):
        shape = args[0] if args else kw.get('shape')
        if c.startswith('full'): val = S(args[1] if len(args) > 1 else kw['fill_value'])
        else: val = {'o': sp.Integer(1), 'z': sp.Integer(0), 'e': UNSET}[c[0]]
        return fill(shape, val)
    if c in ('array', 'asarray', 'asfarray', 'copy', 'atleast_1d', 'ascontiguousarray', 'ravel', 'squeeze'):
        v = args[0]
        if isinstance(v, Arr): return Arr(v.elem, v.origin if c in ('asarray', 'atleast_1d') else None)
        if isinstance(v, GList): return Arr(v[0]) if v.generic else tovec(list(v))
        if isinstance(v, Vec): return Vec(list(v.items)) if c == 'copy' or c == 'array' else v
        return tovec(v)
    if c == 'where':
        if len(args) != 3: raise Unsupported('np.where with one argument')
        cond = args[0]
        isarr = any(isinstance(x, Arr) for x in args)
        ce = cond.elem if isinstance(cond, Arr) else cond
        d = run.decide(I.truth(ce))
        r = args[1] if d else args[2]
        re_ = r.elem if isinstance(r, Arr) else r
        return Arr(re_) if isarr else re_
    if c in ('greater', 'greater_equal', 'less', 'less_equal', 'equal', 'not_equal'):
        op = {'greater': ast.Gt, 'greater_equal': ast.GtE, 'less': ast.Lt, 'less_equal': ast.LtE, 'equal': ast.Eq, 'not_equal': ast.NotEq}[c]
        return compare(I, op, args[0], args[1])
    if c in ('maximum', 'fmax'): return minmax2(I, args[0], args[1], True)
    if c in ('minimum', 'fmin'): return minmax2(I, args[0], args[1], False)
    if c in ('max', 'min', 'amax', 'amin', 'nanmax', 'nanmin'):
        ismax = 'max' in c
        if len(args) == 1:
            v = args[0]
            if isinstance(v, Arr):
                run.dropped.append('batch-dependent %s(%s) line %s' % (c, v.origin, run.lineno))
                return sp.Symbol('%s_%s' % ('max' if ismax else 'min', v.origin or 'arr'), real=True)
            return minmax(I, vec_items(v) if not isinstance(v, dict) else list(v), ismax)
        if kw.get('key') is not None: raise Unsupported('max with key')
        return minmax(I, args, ismax)
    if c == 'sum':
        v = args[0]
        if isinstance(v, Arr): raise Unsupported('sum over the request array')
        items = vec_items(v)
        acc = S(args[1]) if len(args) > 1 else sp.Integer(0)
        for x in items: acc = binop(I, ast.Add, acc, x)
        return acc
    if c == 'fsum': return sum((S(x) for x in vec_items(args[0])), sp.Integer(0))
    if c == 'prod':
        r = sp.Integer(1)
        for x in vec_items(args[0]): r = r * S(x)
        return r
    if c in ('dot', 'inner', 'vdot'): return dot(I, args[0], args[1])
    if c == 'cross':
        a, b = vec_items(args[0]), vec_items(args[1])
        if len(a) == 2: return S(a[0]) * S(b[1]) - S(a[1]) * S(b[0])
        return Vec([a[1] * b[2] - a[2] * b[1], a[2] * b[0] - a[0] * b[2], a[0] * b[1] - a[1] * b[0]])
    if c == 'linalg.norm':
        v = args[0]
        f = lambda e: sp.sqrt(sum((S(x) ** 2 for x in vec_items(e)), sp.Integer(0))) if isinstance(e, (Vec, list, tuple)) else sp.Abs(S(e))
        if isinstance(v, Arr):
            if kw.get('axis') is not None or len(args) > 1: return Arr(f(v.elem))
            raise Unsupported('norm over the request array')
        return f(v)
    if c in ('linalg.det', 'linalg.inv', 'linalg.solve'):
        M = sp.Matrix([[S(x) for x in vec_items(r)] for r in vec_items(args[0])])
        if c == 'linalg.det': return M.det()
        if c == 'linalg.inv':
            Mi = M.inv(); return Vec([Vec([Mi[i, j] for j in range(Mi.cols)]) for i in range(Mi.rows)])
        b = sp.Matrix([S(x) for x in vec_items(args[1])]); x = M.LUsolve(b); return Vec(list(x))
    if c in ('logical_and', 'logical_or'):
        f = and_all if c == 'logical_and' else or_all
        isarr = any(isinstance(x, Arr) for x in args)
        r = f([I.truth(x) for x in args])
        return Arr(r) if isarr else r
    if c == 'logical_not':
        v = args[0]
        return Arr(I.not_(I.truth(v))) if isinstance(v, Arr) else I.not_(I.truth(v))
    if c == 'isclose':
        a, b = S(args[0]), S(args[1])
        rtol = S(kw.get('rtol', args[2] if len(args) > 2 else num(1e-5))); atol = S(kw.get('atol', args[3] if len(args) > 3 else num(1e-8)))
        if a == b: return True
        return sbool(sp.Le(sp.Abs(a - b), atol + rtol * sp.Abs(b)))
    if c in ('any', 'all'):
        v = args[0]
        if isinstance(v, Arr): return I.truth(v.elem)   # generic element stands for every element
        items = [I.truth(x) for x in I.iterate(v)]
        return (or_all if c == 'any' else and_all)(items)
    if c == 'len':
        v = args[0]
        if isinstance(v, Arr): return NLEN
        if isinstance(v, GList) and v.generic: return NLEN
        if isinstance(v, (list, tuple, dict, str, set, Vec, frozenset)) or type(v).__name__ == 'dict_keys': return sp.Integer(len(v))
        if isinstance(v, sp.Basic): raise RaiseSignal('TypeError', 'len() of a scalar')
        raise Unsupported('len of %r' % (v,))
    if c == 'range':
        from .sx import GenIter
        if len(args) == 1 and args[0] is NLEN: return GenIter(GENIDX)
        if any(isinstance(a, sp.Basic) and not a.is_number for a in args):
            a_ = [S(q) for q in args]
            if len(a_) == 1: return SymRange(sp.Integer(0), a_[0])
            if len(a_) == 2: return SymRange(a_[0], a_[1])
            raise Unsupported('symbolic range with a step')
        return range(*[I._int(a) for a in args])
    if c == 'arange':
        if len(args) == 1 and args[0] is NLEN: raise Unsupported('arange over request length')
        vals = [S(a) for a in args]
        if all(v.is_Integer for v in vals): return Vec([sp.Integer(i) for i in range(*[int(v) for v in vals])])
        start, stop = (sp.Integer(0), vals[0]) if len(vals) == 1 else vals[:2]
        step = vals[2] if len(vals) > 2 else sp.Integer(1)
        n = int(sp.ceiling((stop - start) / step)); return Vec([start + i * step for i in range(n)])
    if c == 'linspace':
        a, b = S(args[0]), S(args[1]); n = I._int(args[2] if len(args) > 2 else kw.get('num', 50))
        if n > 64: raise Unsupported('linspace grid of %d points' % n)
        return Vec([a + (b - a) * sp.Rational(i, n - 1) for i in range(n)])
    if c == 'enumerate':
        from .sx import GenIter
        v = args[0]
        if isinstance(v, Arr): return GenIter((GENIDX, v.elem))
        if isinstance(v, GenIter): return GenIter((GENIDX, v.item))
        start = int(args[1]) if len(args) > 1 else int(kw.get('start', 0))
        return [(sp.Integer(i + start), x) for i, x in enumerate(I.iterate(v))]
    if c == 'zip':
        from .sx import GenIter
        if any(isinstance(a, (Arr, GenIter)) for a in args):
            return GenIter(tuple(a.elem if isinstance(a, Arr) else a.item for a in args))
        return list(zip(*[I.iterate(a) for a in args]))
    if c in ('list', 'tuple', 'set', 'frozenset', 'sorted', 'reversed'):
        if not args: return {'list': [], 'tuple': (), 'set': set(), 'frozenset': frozenset()}[c]
        v = args[0]
        if isinstance(v, Arr): return v
        items = I.iterate(v)
        if c == 'sorted':
            if kw.get('key') is not None: raise Unsupported('sorted with key')
            try: return sorted(items, reverse=bool(kw.get('reverse', False)))
            except TypeError: raise Unsupported('sorted on symbolic items')
        if c == 'reversed': return list(reversed(items))
        return {'list': list, 'tuple': tuple, 'set': set, 'frozenset': frozenset}[c](items)
    if c == 'dict':
        d = {}
        if args:
            a = args[0]
            d.update(a if isinstance(a, dict) else {k: v for k, v in I.iterate(a)})
        d.update(kw); return d
    if c == 'int':
        v = S(args[0]) if not isinstance(args[0], str) else num(int(args[0]))
        if v.is_number: return sp.Integer(int(v))
        raise Unsupported('int() of a symbolic value')
    if c in ('str', 'repr'):
        v = args[0]
        if isinstance(v, str): return v
        if isinstance(v, sp.Basic) and v.is_number:
            if v == sp.I: return '1j'
            if v.is_Integer: return str(int(v))
            if v.is_Rational: return repr(float(v))
        if isinstance(v, bool) or v is None: return str(v)
        return '<str>'
    if c == 'compile':
        if not isinstance(args[0], str) or '<str>' in args[0]: raise Unsupported('compile of a non-constant string')
        return Opaque('code', args[0])
    if c in ('exec', 'eval'):
        from .sx import Env
        src = args[0].payload if isinstance(args[0], Opaque) and args[0].tag == 'code' else args[0]
        if not isinstance(src, str) or '<str>' in src: raise Unsupported('%s of a non-constant string' % c)
        if c == 'eval':
            try:
                tree_ = ast.parse(src, mode='eval')
            except SyntaxError:
                raise RaiseSignal('SyntaxError')
        glb = args[1] if len(args) > 1 and args[1] is not None else None
        env = Env(I.cur_module, None, None)
        if isinstance(glb, dict): env.locals = glb
        elif getattr(I, 'cur_env', None) is not None: env = I.cur_env
        if c == 'eval':
            try:
                return I.eval(tree_.body, env)
            except Unsupported as u:
                if 'unresolved name' in str(u): raise RaiseSignal('NameError', str(u))
                raise
        I.block(ast.parse(src).body, env); return None
    if c == 'bool':
        return I.truth(args[0])
    if c == 'complex': return S(args[0]) + sp.I * S(args[1] if len(args) > 1 else 0)
    if c == 'round':
        v = S(args[0])
        if v.is_number: return num(round(float(v), int(args[1]) if len(args) > 1 else 0)) if len(args) > 1 else sp.Integer(round(v))
        raise Unsupported('round of symbolic')
    if c == 'isinstance': return isinstance_(I, args[0], args[1])
    if c == 'hasattr':
        try: I.getattr(args[0], args[1]); return True
        except RaiseSignal: return False
    if c == 'getattr':
        try: return I.getattr(args[0], args[1])
        except RaiseSignal:
            if len(args) > 2: return args[2]
            raise
    if c == 'setattr':
        args[0].attrs[args[1]] = args[2]; return None
    if c == 'callable':
        from .sx import Callable
        return isinstance(args[0], (FuncVal, BoundMethod, LibRef, ClassRef, Callable))
    if c == 'type':
        v = args[0]
        if isinstance(v, Obj): return ClassRef(v.cls_key)
        return Opaque('type')
    if c == 'object_init': return None
    if c == 'map':
        return [I.apply(args[0], list(xs), {}) for xs in zip(*[I.iterate(a) for a in args[1:]])]
    if c == 'divmod':
        a, b = S(args[0]), S(args[1]); return (sp.floor(a / b), sp.Mod(a, b))
    if c in ('append', 'concatenate', 'hstack'):
        if c == 'append': parts = [args[0], args[1]]
        else: parts = list(args[0])
        if any(isinstance(p, Arr) for p in parts): raise Unsupported('concatenate with the request array')
        out = []
        for p in parts: out.extend(vec_items(p) if isinstance(p, (Vec, list, tuple)) else [p])
        return Vec(out)
    if c == 'delete':
        items = list(vec_items(args[0])); del items[I._int(args[1])]; return Vec(items)
    if c == 'sort':
        v = args[0]
        if isinstance(v, Arr): raise Unsupported('sort of the request array')
        try: return Vec(sorted(vec_items(v)))
        except TypeError: raise Unsupported('sort of symbolic vector')
    if c == 'transpose':
        rows = [vec_items(r) for r in vec_items(args[0])]
        return Vec([Vec(list(col)) for col in zip(*rows)])
    if c == 'identity' or c == 'eye':
        n = I._int(args[0]); return Vec([Vec([sp.Integer(int(i == j)) for j in range(n)]) for i in range(n)])
    if c == 'errstate': return Opaque('errstate')
    if c == 'vectorize': return args[0]
    if c == 'open': return Opaque('file')
    if c == 'slice': return slice(*[None if a is None else I._int(a) for a in args])
    raise Unsupported('external call %s (line %s)' % (name, run.lineno))


def isinstance_(I, v, T):
    if isinstance(T, tuple): return any(isinstance_(I, v, t) for t in T)
    if isinstance(T, ClassRef):
        if isinstance(v, Obj):
            from . import repo as R
            ct = R.class_table()['classes']
            return T.cls_key in (ct[v.cls_key]['mro'] if v.cls_key in ct else [v.cls_key])
        return False
    if not isinstance(T, LibRef): raise Unsupported('isinstance with %r' % (T,))
    c = canon(T.name)
    if isinstance(v, Arr): return c in ('ndarray',)
    if isinstance(v, Vec): return c in ('ndarray',)
    if c == 'complex': return isinstance(v, sp.Basic) and v.has(sp.I)
    if c in ('float', 'float64', 'floating', 'numbers.Real', 'numbers.Number', 'Number', 'Real'):
        return isinstance(v, sp.Basic) and not v.has(sp.I) and not (v.is_Integer and c in ('float', 'float64', 'floating')) or \
            (isinstance(v, sp.Basic) and v.is_Integer and c not in ('float', 'float64', 'floating'))
    if c in ('int', 'integer', 'int64', 'numbers.Integral'):
        return isinstance(v, sp.Basic) and bool(v.is_Integer)
    if c == 'str': return isinstance(v, str)
    if c == 'list': return isinstance(v, list)
    if c == 'tuple': return isinstance(v, tuple)
    if c == 'dict': return isinstance(v, dict)
    if c == 'bool': return isinstance(v, bool)
    if c == 'ndarray': return False
    raise Unsupported('isinstance check against ' + T.name)


def call_builtin_method(I, f, args, kw):
    o, m = f.recv, f.name
    if isinstance(o, dict):
        if m == 'keys': return o.keys()
        if m == 'values': return list(o.values())
        if m == 'items': return list(o.items())
        if m == 'get': return o.get(args[0], args[1] if len(args) > 1 else None)
        if m == 'update':
            for a in args: o.update(a)
            o.update(kw); return None
        if m == 'pop':
            if args[0] in o: return o.pop(args[0])
            if len(args) > 1: return args[1]
            raise RaiseSignal('KeyError')
        if m == 'copy': return dict(o)
        if m == 'setdefault': return o.setdefault(args[0], args[1] if len(args) > 1 else None)
    if isinstance(o, (list, GList)):
        if m == 'append':
            if I.loop_generic and isinstance(o, GList): o.generic = True; o[:] = [args[0]]; return None
            if I.loop_generic and not isinstance(o, GList):
                raise Unsupported('append to a plain list inside a map loop')
            o.append(args[0]); return None
        if m == 'extend': o.extend(I.iterate(args[0])); return None
        if m == 'reverse': o.reverse(); return None
        if m == 'insert': o.insert(I._int(args[0]), args[1]); return None
        if m == 'index': return sp.Integer(o.index(args[0]))
        if m == 'pop': return o.pop(*[I._int(a) for a in args])
        if m == 'copy': return list(o)
        if m == 'count': return sp.Integer(o.count(args[0]))
        if m == 'sort':
            try: o.sort()
            except TypeError: raise Unsupported('sort of symbolic list')
            return None
    if isinstance(o, tuple):
        if m == 'index': return sp.Integer(o.index(args[0]))
        if m == 'count': return sp.Integer(o.count(args[0]))
    if isinstance(o, str):
        if m in ('format', 'join', 'lower', 'upper', 'strip', 'replace', 'title', 'rstrip', 'lstrip', 'capitalize'):
            try:
                if all(isinstance(a, str) for a in args) and not kw and m != 'format': return getattr(o, m)(*args)
                if m == 'join' and all(isinstance(x, str) for x in args[0]): return o.join(args[0])
            except Exception: pass
            return '<str>'
        if m in ('startswith', 'endswith', 'split', 'find', 'isdigit', 'isalpha'): return getattr(o, m)(*args)
    if isinstance(o, (set, frozenset)):
        if m == 'add': o.add(args[0]); return None
        if m in ('union', 'intersection', 'difference', 'issubset', 'issuperset'): return getattr(o, m)(*[set(a) for a in args])
    if isinstance(o, Arr):
        if m in ('copy', 'flatten', 'ravel', 'astype', 'squeeze', 'view'): return Arr(o.elem)
        if m == 'fill': o.elem = S(args[0]); return None
        if m in ('any', 'all'): return I.truth(o.elem)
        if m in ('max', 'min'):
            I.run.dropped.append('batch-dependent %s.%s() line %s' % (o.origin, m, I.run.lineno))
            return sp.Symbol('%s_%s' % (m, o.origin or 'arr'), real=True)
        if m == 'tolist': return o
        if m == 'sort':
            if getattr(o, 'grid', False): return None
            raise Unsupported('in-place sort of a request-sized array')
        if m == 'reshape': return Arr(o.elem)
    if isinstance(o, Vec):
        if m in ('copy', 'flatten', 'ravel', 'astype', 'squeeze'): return Vec(list(o.items))
        if m == 'tolist': return list(o.items)
        if m == 'dot': return dot(I, o, args[0])
        if m in ('max', 'min'): return minmax(I, o.items, m == 'max')
        if m == 'sum': return sum((S(x) for x in o.items), sp.Integer(0))
        if m == 'transpose': return call_lib(I, 'numpy.transpose', [o], {})
        if m == 'fill':
            for i in range(len(o.items)): o.items[i] = S(args[0])
            return None
        if m in ('any', 'all'):
            return (or_all if m == 'any' else and_all)([I.truth(x) for x in o.items])
    if isinstance(o, sp.Basic):
        if m == 'conjugate': return sp.conjugate(o)
        if m in ('copy', 'item', 'astype', 'squeeze', 'flatten'): return o
        if m in ('any', 'all'): return I.truth(o)
        if m == 'is_integer': return bool(o.is_Integer) if o.is_number else sbool(sp.Eq(o, sp.floor(o)))
        if m in ('max', 'min', 'sum'): return o
    if isinstance(o, Opaque):
        if o.tag in ('file', 'errstate'): return None
    raise Unsupported('method %s of %s' % (m, type(o).__name__))
