"""Check driver: runs the units of a property in a killable process pool, triages verdicts
(known findings, native replay), writes evidence, prints VIOLATION lines, sets the exit code.

exit 0: no violation;  1: violation not listed in known_findings.json;  3: engine error."""
import os, sys, json, time, fnmatch, importlib, multiprocessing as mp, tempfile, traceback, subprocess, glob
from . import repo as R, native

VERIF = os.path.dirname(os.path.dirname(os.path.abspath(__file__)))
NPROC = int(os.environ.get('VERIF_JOBS', '0') or 0) or min(16, os.cpu_count() or 4)

GLOBAL_ASSUMPTIONS = [
    "A1 real arithmetic: float64/Python float arithmetic is treated as exact arithmetic over the reals (rounding, overflow, tolerance-sized effects are outside every proof)",
    "A2 point-wise numpy: arrays over the request points are represented by their generic element; shape/dtype/broadcasting are dropped by the extraction",
    "A3 ideal elementary functions: sqrt/exp/log/sin/cos/pow with their textbook algebraic laws and derivatives (laws used are listed per obligation)",
    "A4 Python subset: parameters are numbers, attribute lookup follows the class MRO, no monkey-patching; print/warn/message strings are dropped",
    "the symbolic executor (vc/sx.py, vc/lib.py), the normaliser (vc/alg.py) and the sympy->z3 encoder (vc/smt.py) are trusted; guarded on every run by translation validation against the real functions and by numeric cross-checks of every 'proved zero' verdict",
]
TRUSTED_BASE = ["sympy 1.14 polynomial arithmetic (together/expand/factor_list/cancel/div/diff)", "z3 5.1.0 (NRA)", "vc/sx.py symbolic executor over ast of /repo sources",
                "vc/alg.py ring-mod-laws normaliser", "CPython ast module", "class table dumped from the real package by vc/introspect.py"]


def _worker(conn, modname, unit_name, kwargs, env):
    try:
        os.environ.update(env)
        sys.setrecursionlimit(20000)
        mod = importlib.import_module(modname)
        t0 = time.time()
        res = mod.run_unit(unit_name, **kwargs)
        res['wall_s'] = time.time() - t0
        from . import smt, alg
        res['solver_time'] = {'z3_s': round(smt.STATS['time'], 3), 'z3_queries': smt.STATS['queries'], 'ring_s': round(alg.STATS['time'], 3), 'ring_tests': alg.STATS['zero_tests']}
        conn.send(res)
    except BaseException:
        try: conn.send({'crash': traceback.format_exc()[-3000:]})
        except Exception: pass
    finally:
        conn.close()


def run_units(modname, units, timeout_s):
    """units: list of (unit_name, kwargs).  Returns {unit_name: result dict}"""
    ctx = mp.get_context('fork')
    pending = list(units); running = []; results = {}
    env = {k: os.environ[k] for k in ('VERIF_CLASS_TABLE', 'VERIF_TIER', 'VERIF_SEED') if k in os.environ}
    while pending or running:
        while pending and len(running) < NPROC:
            name, kw = pending.pop(0)
            a, b = ctx.Pipe(duplex=False)
            p = ctx.Process(target=_worker, args=(b, modname, name, kw, env), daemon=True)
            p.start(); b.close()
            running.append((name, p, a, time.time()))
        still = []
        for name, p, conn, t0 in running:
            done = False
            if conn.poll(0.02):
                try: results[name] = conn.recv()
                except EOFError: results[name] = {'crash': 'worker died without result'}
                done = True
            elif not p.is_alive():
                if conn.poll(0.1):
                    try: results[name] = conn.recv()
                    except EOFError: results[name] = {'crash': 'worker died'}
                else: results[name] = {'crash': 'worker exited with code %s' % p.exitcode}
                done = True
            elif time.time() - t0 > timeout_s:
                p.kill(); results[name] = {'timeout': timeout_s}; done = True
            if done:
                p.join(1); conn.close()
            else:
                still.append((name, p, conn, t0))
        running = still
        time.sleep(0.01)
    return results


def load_known():
    p = os.path.join(VERIF, 'known_findings.json')
    if not os.path.exists(p): return []
    return json.load(open(p)).get('findings', [])


def match_known(known, pid, name):
    for k in known:
        if k['property'] == pid and fnmatch.fnmatchcase(name, k['match']): return k
    return None


def replay_path(pid, name):
    safe = ''.join(c if c.isalnum() or c in '._-=' else '_' for c in name)[:150]
    d = os.path.join(VERIF, 'replay', pid); os.makedirs(d, exist_ok=True)
    return os.path.join(d, safe + '.json')


def main(argv=None):
    import argparse
    ap = argparse.ArgumentParser()
    ap.add_argument('property'); ap.add_argument('--tier', default=os.environ.get('VERIF_TIER', 'quick'))
    ap.add_argument('--replay'); ap.add_argument('--only', default=None, help='fnmatch pattern on unit names')
    ap.add_argument('--no-evidence', action='store_true'); ap.add_argument('--list', action='store_true')
    a = ap.parse_args(argv)
    if a.replay: return do_replay(a.replay)
    pid = a.property; tier = a.tier
    os.environ['VERIF_TIER'] = tier
    seed = int(os.environ.get('VERIF_SEED', '0') or 0); os.environ['VERIF_SEED'] = str(seed)
    t0 = time.time()
    sys.path.insert(0, VERIF)
    tmpd = tempfile.mkdtemp(prefix='verif_')
    os.environ['VERIF_CLASS_TABLE'] = os.path.join(tmpd, 'class_table.json')
    try:
        try:
            R.class_table()
        except Exception as e:
            print('ENGINE-ERROR property=%s class-table: %s' % (pid, str(e)[-800:])); return 3
        modname = 'props.' + pid.lower()
        mod = importlib.import_module(modname)
        units = mod.units(tier)
        if a.only:
            units = [u for u in units if fnmatch.fnmatchcase(u[0], a.only)]; os.environ['VERIF_ONLY'] = '1'
        if a.list:
            for u in units: print(u[0])
            return 0
        timeout_s = getattr(mod, 'UNIT_TIMEOUT', {}).get(tier, 1800 if tier == 'quick' else 5400)
        results = run_units(modname, units, timeout_s)
        return report(pid, tier, seed, mod, units, results, t0, write=not a.no_evidence and not a.only)
    finally:
        import shutil; shutil.rmtree(tmpd, ignore_errors=True)


def report(pid, tier, seed, mod, units, results, t0, write=True):
    known = load_known()
    obls = []; functions = {}; assumptions = list(GLOBAL_ASSUMPTIONS); bounded = []; engine_errors = []; opens = []
    solver = {'z3_s': 0.0, 'z3_queries': 0, 'ring_s': 0.0, 'ring_tests': 0}
    tv = {'functions': 0, 'points': 0, 'mismatches': 0}
    vac = {'witness_checks': 0, 'must_fail_probes': 0, 'must_fail_caught': 0}
    for uname, _ in units:
        r = results.get(uname, {'crash': 'no result'})
        if 'crash' in r:
            engine_errors.append('unit %s crashed: %s' % (uname, r['crash'][-600:])); continue
        if 'timeout' in r:
            opens.append({'name': uname + '/*', 'detail': 'unit timed out after %ss (tool limit, no verdict)' % r['timeout']}); continue
        for o in r.get('obligations', []):
            o['unit'] = uname; obls.append(o)
        for f in r.get('functions', []): functions[f['ref']] = f
        for s in r.get('assumptions', []):
            if s not in assumptions: assumptions.append(s)
        bounded.extend(r.get('bounded', []))
        for k in solver: solver[k] += r.get('solver_time', {}).get(k, 0)
        for k in tv: tv[k] += r.get('tv', {}).get(k, 0)
        for k in vac: vac[k] += r.get('vacuity', {}).get(k, 0)
        for e in r.get('engine_errors', []): engine_errors.append('%s: %s' % (uname, e))
    violations = []; known_hits = []; discharged = []
    for o in obls:
        st = o['status']
        if st == 'discharged': discharged.append(o)
        elif st == 'open': opens.append(o)
        elif st == 'error': engine_errors.append('%s: %s' % (o['name'], o.get('detail', '')))
        elif st == 'refuted':
            k = match_known(known, pid, o['name'])
            if k: known_hits.append((k, o))
            else: violations.append(o)
    for b in bounded:
        if b.get('status') == 'fail':
            k = match_known(known, pid, b['name'])
            if k: known_hits.append((k, b))
            else: violations.append(dict(b, status='refuted', backend='bounded run-time contract check'))
    # ---- registered-obligation guard (a check must not silently prove less than it claims)
    base_p = os.path.join(VERIF, 'baseline', 'obligations.json')
    registered = json.load(open(base_p)).get(pid, []) if os.path.exists(base_p) else None
    names = {o['name'] for o in obls} | {b['name'] for b in bounded}
    missing = []
    if registered is not None and not os.environ.get('VERIF_ONLY'):
        open_units = {o['name'].split('/*')[0] for o in opens if o['name'].endswith('/*')}
        openfuncs = [o for o in opens if o.get('backend') == 'extraction']
        for n in registered:
            if n not in names and not any(n.startswith(u) for u in open_units):
                missing.append(n)
        # obligations of a function whose extraction failed are accounted for by the extraction-open entry
        if missing and openfuncs:
            pref = [o['name'].rsplit('/', 1)[0] for o in openfuncs]
            missing = [n for n in missing if not any(n.startswith(p) for p in pref)]
        if missing:
            # strict on the sources the obligations were registered for; after a change of a function under contract the set of paths (and hence
            # of obligation names) may legitimately differ: the missing ones are then undecided (printed), not an engine error
            reg_h = json.load(open(base_p)).get('_hashes', {}).get(pid, {})
            changed = sorted(f['ref'] for f in functions.values() if f['ref'] in reg_h and reg_h[f['ref']] != f.get('sha256_16'))
            if reg_h and changed:
                for n in missing[:20]:
                    opens.append({'name': n, 'status': 'open', 'backend': 'registered-set', 'detail': 'registered obligation not generated after a source change of %s' % ', '.join(changed[:3])})
            else:
                engine_errors.append('%d registered obligations were not generated, e.g. %s' % (len(missing), missing[:3]))
    if not obls and not bounded:
        engine_errors.append('zero obligations generated')
    # ---- replay of violations on the real code
    lines = []
    shown = set()
    for k, o in known_hits:
        key = (k['match'])
        if key in shown: continue
        shown.add(key)
        lines.append('KNOWN-FINDING: property=%s %s' % (pid, k['what']))
    for o in violations:
        path = replay_path(pid, o['name'])
        rec = {'property': pid, 'obligation': o['name'], 'verdict': 'refuted', 'back_end': o.get('backend'), 'goal': o.get('goal'),
               'counterexample': o.get('cex'), 'value': o.get('value'), 'detail': o.get('detail'), 'verifier_output': {k: v for k, v in o.items() if k not in ('replay',)}}
        suffix = ''
        script = o.get('replay')
        if script:
            rec['script'] = script
            try:
                nr = native.run_script(script)
                rec['native'] = nr
                if not (nr.get('result') or {}).get('reproduced'): suffix = ' no-failing-input-found'
            except Exception as e:
                rec['native'] = {'error': str(e)}; suffix = ' no-failing-input-found'
        else:
            suffix = ' no-failing-input-found'
        rec['reproduced_on_real_code'] = (suffix == '')
        with open(path, 'w') as f: json.dump(rec, f, indent=1, default=str)
        lines.append('VIOLATION property=%s replay=%s%s' % (pid, path, suffix))
    if os.environ.get('VERIF_DEBUG'):
        for n_, r_ in sorted(results.items(), key=lambda kv: -(kv[1].get('wall_s') or 0))[:8]: print('UNIT-TIME %.1fs %s' % (r_.get('wall_s') or -1, n_))
        for o in sorted(obls, key=lambda o: -o.get('time_s', 0))[:25]: print('TIME %.1fs %s %s' % (o.get('time_s', 0), o['name'], o['status']))
    for o in opens:
        print('OPEN obligation=%s (%s)' % (o['name'], str(o.get('detail', ''))[:160]))
    for e in engine_errors:
        print('ENGINE-ERROR property=%s %s' % (pid, e[:1200]))
    for l in lines: print(l)
    wall = time.time() - t0
    n_known = len({o['name'] for _, o in known_hits})
    n_obl = len([o for o in obls]) - len([1 for _, o in known_hits if o in obls])
    print('%s tier=%s: %d obligations, %d discharged, %d open, %d violations, %d known-finding hits, %d bounded checks, %d engine errors, %.1fs' %
          (pid, tier, n_obl, len(discharged), len(opens), len(violations), n_known, len(bounded), len(engine_errors), wall))
    if write:
        by_backend = {}
        for o in discharged: by_backend[o.get('backend', '?')] = by_backend.get(o.get('backend', '?'), 0) + 1
        samples = []
        for o in discharged[:: max(1, len(discharged) // 6)][:6]:
            samples.append({'obligation': o['name'], 'goal': o.get('goal'), 'back_end': o.get('backend'), 'time_s': o.get('time_s'), 'laws': o.get('laws')})
        for o in violations[:3]:
            samples.append({'obligation': o['name'], 'verdict': 'refuted', 'counterexample': o.get('cex')})
        ev = {'property_id': pid, 'tier': tier, 'seed': seed, 'level': getattr(mod, 'LEVEL', 'proof'),
              'coverage': {
                  'obligations': max(n_obl, 0), 'discharged': len(discharged),
                  'checker_cmd': 'python3-vt /verif/check.py %s --tier %s' % (pid, tier),
                  'trusted_base': TRUSTED_BASE + getattr(mod, 'TRUSTED', []),
                  'by_back_end': by_backend, 'solver_time': solver,
                  'open': [{'name': o['name'], 'detail': str(o.get('detail', ''))[:300]} for o in opens],
                  'known_findings': [{'match': k['match'], 'what': k['what'], 'obligation': o['name']} for k, o in known_hits],
                  'bounded': [{k: v for k, v in b.items() if k != 'replay'} for b in bounded],
                  'functions_under_contract': sorted(functions.values(), key=lambda f: f['ref']),
                  'translation_validation': tv, 'vacuity': dict(vac, obligations_generated=len(obls), registered=len(registered) if registered is not None else None),
                  'samples': samples,
                  'obligation_names': sorted(o['name'] for o in obls),
                  'explanation': getattr(mod, 'EXPLANATION', ''),
                  'evaluations': len(obls) + sum(b.get('evaluations', 0) for b in bounded),
                  'distinct_nontrivial': len({o['name'] for o in obls}),
                  'rule': 'one case per generated proof obligation (distinct by structural name); bounded run-time contract checks counted separately under coverage.bounded',
              },
              'assumptions': assumptions + getattr(mod, 'ASSUMPTIONS', []),
              'wall_s': round(wall, 2), 'violations': len(violations)}
        os.makedirs(os.path.join(VERIF, 'evidence'), exist_ok=True)
        with open(os.path.join(VERIF, 'evidence', pid + '.json'), 'w') as f: json.dump(ev, f, indent=1, default=str)
    if engine_errors: return 3
    if violations: return 1
    return 0


def do_replay(path):
    rec = json.load(open(path))
    print('obligation:', rec.get('obligation')); print('goal:', rec.get('goal')); print('counterexample:', rec.get('counterexample'))
    if not rec.get('script'):
        print('no native script: verifier output follows'); print(json.dumps(rec.get('verifier_output'), indent=1)[:3000]); return 1
    nr = native.run_script(rec['script'])
    print(json.dumps(nr.get('result'), indent=1));
    if nr.get('result') is None: print(nr.get('stdout_tail')); print(nr.get('stderr_tail'))
    return 1 if (nr.get('result') or {}).get('reproduced') else 0
