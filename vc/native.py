"""Calls into the real package under the repository's interpreter (subprocess, never imported here)."""
import os, json, subprocess, sys
import sympy as sp
from . import repo as R

HERE = os.path.dirname(os.path.abspath(__file__))


def _env():
    env = dict(os.environ); env['PYTHONPATH'] = R.REPO; env.pop('PYTHONHOME', None)
    env['OMP_NUM_THREADS'] = '1'; env['OPENBLAS_NUM_THREADS'] = '1'
    return env


def pyval(v):
    if isinstance(v, sp.Basic):
        if v.is_Integer: return int(v)
        return float(v)
    if isinstance(v, tuple): return {'__tuple__': [pyval(x) for x in v]}
    if isinstance(v, list): return [pyval(x) for x in v]
    if isinstance(v, dict): return {k: pyval(x) for k, x in v.items()}
    return v


def batch(requests, timeout=600):
    """requests: list of {cls, params, points, t}; returns list of result dicts"""
    if not requests: return []
    r = subprocess.run([R.VENV_PY, os.path.join(HERE, 'native_runner.py')], input=json.dumps(requests), capture_output=True,
                       text=True, env=_env(), timeout=timeout, cwd=R.REPO)
    if r.returncode != 0:
        raise RuntimeError('native runner failed: ' + r.stderr[-1500:])
    return json.loads(r.stdout)


def run_script(script, timeout=900):
    """execute a replay script under the repository's interpreter; its last stdout line is a JSON result"""
    r = subprocess.run([R.VENV_PY, '-c', script], capture_output=True, text=True, env=_env(), timeout=timeout, cwd=R.REPO)
    lines = [l for l in r.stdout.strip().splitlines() if l.strip()]
    res = None
    if lines:
        try: res = json.loads(lines[-1])
        except Exception: res = None
    return {'returncode': r.returncode, 'result': res, 'stdout_tail': r.stdout[-1500:], 'stderr_tail': r.stderr[-1500:]}
