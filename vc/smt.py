"""sympy -> z3 (non-linear real arithmetic).  sqrt / rational powers are encoded algebraically
(s >= 0, s^q = base); other transcendental sub-terms become fresh reals shared between equal
occurrences (congruence only) with the sign facts that are sound for them.
All calls carry a soft timeout; hard kill is provided by the obligation pool (vc/pool.py)."""
import time
import sympy as sp
import z3

STATS = {'queries': 0, 'time': 0.0, 'unknown': 0}
LAST = {'abstracted': False}


class Enc:
    def __init__(self):
        self.vars = {}; self.side = []; self.opaque = {}; self.n = 0; self.abstracted = False; self.powers = []

    def var(self, s):
        if s not in self.vars:
            if s.is_integer:
                v = z3.Int(s.name); self.vars[s] = z3.ToReal(v)
            else:
                v = z3.Real(s.name); self.vars[s] = v
            z = self.vars[s]
            if s.is_positive: self.side.append(z > 0)
            elif s.is_nonnegative: self.side.append(z >= 0)
            if s.is_negative: self.side.append(z < 0)
            elif s.is_nonpositive: self.side.append(z <= 0)
        return self.vars[s]

    def fresh(self, key, pos=False, nonneg=False):
        if not (isinstance(key, tuple) and key and key[0] == 'root'): self.abstracted = True
        if key not in self.opaque:
            v = z3.Real('op%d' % len(self.opaque)); self.opaque[key] = v
            if pos: self.side.append(v > 0)
            if nonneg: self.side.append(v >= 0)
            if isinstance(key, sp.Basic):
                if key.is_positive: self.side.append(v > 0)
                elif key.is_nonnegative: self.side.append(v >= 0)
                if key.is_negative: self.side.append(v < 0)
        return self.opaque[key]

    def ipow(self, zb, n):
        r = z3.RealVal(1)
        for _ in range(abs(n)): r = r * zb
        return r if n >= 0 else 1 / r

    def t(self, e):
        if e.is_Symbol: return self.var(e)
        if e.is_Integer: return z3.RealVal(int(e))
        if e.is_Rational: return z3.RealVal('%d/%d' % (e.p, e.q))
        if e.is_Float: return self.t(sp.Rational(str(e)))
        if e is sp.pi:
            v = self.fresh(e); self.side += [v > z3.RealVal('314159265/100000000'), v < z3.RealVal('314159266/100000000')]; return v
        if e is sp.E:
            v = self.fresh(e); self.side += [v > z3.RealVal('271828182/100000000'), v < z3.RealVal('271828183/100000000')]; return v
        if e.is_Add:
            r = self.t(e.args[0])
            for a in e.args[1:]: r = r + self.t(a)
            return r
        if e.is_Mul:
            r = self.t(e.args[0])
            for a in e.args[1:]: r = r * self.t(a)
            return r
        if e.is_Pow:
            b, x = e.args
            if x.is_Integer: return self.ipow(self.t(b), int(x))
            if x.is_Rational and x.q <= 6 and b != sp.E:
                key = ('root', b, x.q)
                if key not in self.opaque:
                    s = self.fresh(key, nonneg=True)
                    self.side.append(self.ipow(s, x.q) == self.t(b))
                return self.ipow(self.opaque[key], x.p)
            v = self.fresh(e, pos=bool(b.is_positive or b == sp.E))
            if b.is_positive and ('pw', e) not in self.opaque:
                self.opaque[('pw', e)] = True; self.powers.append((b, x, v))
            return v
        if isinstance(e, sp.Abs):
            z = self.t(e.args[0]); return z3.If(z >= 0, z, -z)
        if isinstance(e, sp.Max):
            r = self.t(e.args[0])
            for a in e.args[1:]:
                z = self.t(a); r = z3.If(r >= z, r, z)
            return r
        if isinstance(e, sp.Min):
            r = self.t(e.args[0])
            for a in e.args[1:]:
                z = self.t(a); r = z3.If(r <= z, r, z)
            return r
        if isinstance(e, sp.sign):
            z = self.t(e.args[0]); return z3.If(z > 0, z3.RealVal(1), z3.If(z < 0, z3.RealVal(-1), z3.RealVal(0)))
        if isinstance(e, sp.Piecewise):
            r = None
            for val, cond in reversed(e.args):
                r = self.t(val) if r is None else z3.If(self.b(cond), self.t(val), r)
            return r
        if isinstance(e, sp.exp):
            v = self.fresh(e, pos=True); k = ('bnd', e)
            if k not in self.opaque:
                self.opaque[k] = True; a = self.t(e.args[0])
                self.side += [(v >= 1) == (a >= 0), (v > 1) == (a > 0), v >= 1 + a]
            return v
        if isinstance(e, sp.log):
            v = self.fresh(e); k = ('bnd', e)
            if k not in self.opaque:
                self.opaque[k] = True; a = self.t(e.args[0])
                self.side += [z3.Implies(a > 0, z3.And((v >= 0) == (a >= 1), (v > 0) == (a > 1), v <= a - 1))]
            return v
        if isinstance(e, (sp.cosh,)): return self.fresh(e, pos=True)
        if isinstance(e, (sp.sin, sp.cos)):
            v = self.fresh(e)
            if ('bnd', e) not in self.opaque:
                self.opaque[('bnd', e)] = True; self.side += [v <= 1, v >= -1]
            return v
        if isinstance(e, (sp.acos, sp.asin, sp.atan)):
            v = self.fresh(e); k = ('bnd', e)
            if k not in self.opaque:
                self.opaque[k] = True; pi = self.t(sp.pi)
                if isinstance(e, sp.acos): self.side += [v >= 0, v <= pi]
                elif isinstance(e, sp.asin): self.side += [2 * v >= -pi, 2 * v <= pi]
                else: self.side += [2 * v > -pi, 2 * v < pi]
            return v
        if e.is_number and e.is_real:
            # irrational constant: enclose
            lo = sp.Rational(str(sp.N(e, 30))) - sp.Rational(1, 10 ** 25); hi = lo + sp.Rational(2, 10 ** 25)
            v = self.fresh(e); k = ('bnd', e)
            if k not in self.opaque:
                self.opaque[k] = True; self.side += [v > self.t(lo), v < self.t(hi)]
            return v
        return self.fresh(e)

    def b(self, c):
        if c is True or c is sp.true: return z3.BoolVal(True)
        if c is False or c is sp.false: return z3.BoolVal(False)
        if isinstance(c, sp.And): return z3.And(*[self.b(a) for a in c.args])
        if isinstance(c, sp.Or): return z3.Or(*[self.b(a) for a in c.args])
        if isinstance(c, sp.Not): return z3.Not(self.b(c.args[0]))
        if isinstance(c, sp.Symbol):
            if c not in self.vars: self.vars[c] = z3.Bool(c.name)
            return self.vars[c]
        if c.is_Relational:
            l, r = self.t(c.lhs), self.t(c.rhs)
            op = c.rel_op
            return {'<': l < r, '<=': l <= r, '>': l > r, '>=': l >= r, '==': l == r, '!=': l != r}[op]
        if isinstance(c, sp.Implies): return z3.Implies(self.b(c.args[0]), self.b(c.args[1]))
        if isinstance(c, sp.Equivalent):
            zs = [self.b(a) for a in c.args]
            return z3.And(*[zs[0] == z for z in zs[1:]])
        if isinstance(c, sp.Xor):
            zs = [self.b(a) for a in c.args]; r = zs[0]
            for z in zs[1:]: r = z3.Xor(r, z)
            return r
        if isinstance(c, sp.ITE): return z3.If(self.b(c.args[0]), self.b(c.args[1]), self.b(c.args[2]))
        raise ValueError('cannot encode boolean %r' % (c,))


def power_facts(enc):
    """monotonicity of real powers of positive bases (A3): sound side facts for the opaque power atoms"""
    ents = []
    for b, x, v in list(enc.powers):
        ents.append((b, x, v)); ents.append((b, -x, 1 / v))
    facts = []
    done = set()
    for b, x, v in ents:
        zb = enc.t(b); zx = enc.t(x)
        facts += [z3.Implies(z3.And(zx >= 0, zb >= 1), v >= 1), z3.Implies(z3.And(zx >= 0, zb <= 1), v <= 1), z3.Implies(z3.And(zx > 0, zb > 1), v > 1), z3.Implies(z3.And(zx > 0, zb < 1), v < 1)]
    for i in range(len(ents)):
        for j in range(len(ents)):
            if i == j: continue
            b1, x1, v1 = ents[i]; b2, x2, v2 = ents[j]
            if x1 == x2 and b1 != b2 and (i, j) not in done:
                done.add((i, j))
                zb1 = enc.t(b1); zb2 = enc.t(b2); zx = enc.t(x1)
                facts += [z3.Implies(z3.And(zx >= 0, zb1 <= zb2), v1 <= v2), z3.Implies(z3.And(zx > 0, zb1 < zb2), v1 < v2)]
    return facts


def _solver(timeout_ms):
    s = z3.Solver(); s.set('timeout', int(timeout_ms)); return s


def check(conds, timeout_ms=3000):
    """sat / unsat / unknown of a conjunction of sympy booleans; returns (result, model dict or None)"""
    enc = Enc()
    try:
        zs = [enc.b(c) for c in conds]
    except ValueError:
        return 'unknown', None
    s = _solver(timeout_ms)
    for z in zs: s.add(z)
    if enc.powers and len(enc.powers) <= 12:
        for z in power_facts(enc): s.add(z)
    for z in enc.side: s.add(z)
    t0 = time.time(); r = s.check(); STATS['time'] += time.time() - t0; STATS['queries'] += 1
    LAST['abstracted'] = enc.abstracted
    if r == z3.sat:
        m = s.model(); out = {}
        for sym, zv in enc.vars.items():
            try:
                val = m.eval(zv, model_completion=True)
                out[sym] = _val(val)
            except Exception: pass
        return 'sat', out
    if r == z3.unsat: return 'unsat', None
    STATS['unknown'] += 1
    return 'unknown', None


def _val(v):
    if z3.is_rational_value(v): return sp.Rational(v.numerator_as_long(), v.denominator_as_long())
    if z3.is_int_value(v): return sp.Integer(v.as_long())
    if z3.is_algebraic_value(v): return sp.Rational(str(v.approx(20).as_fraction()))
    if z3.is_true(v): return True
    if z3.is_false(v): return False
    try: return sp.Rational(str(v.as_fraction()))
    except Exception: return None


_feas_cache = {}


def feasible(conds, timeout_ms=1500):
    """False only when the conjunction is proved unsatisfiable"""
    key = tuple(sp.srepr(c) if isinstance(c, sp.Basic) else repr(c) for c in conds)
    if key not in _feas_cache:
        r, _ = check(conds, timeout_ms)
        _feas_cache[key] = (r != 'unsat')
    return _feas_cache[key]


def valid(hyps, goal, timeout_ms=10000):
    """hyps => goal ?   returns (True, None) | (False, model) | (None, None)"""
    r, m = check(list(hyps) + [sp.Not(goal)], timeout_ms)
    if r == 'unsat': return True, None
    if r == 'sat': return False, m
    return None, None
