"""Runs under the repository's own interpreter (/venv/bin/python, PYTHONPATH=<repo>).
stdin: JSON list of requests; stdout: JSON list of results.
request: {"cls": "module:Class", "params": {...}, "points": [...], "t": float, "method": optional}"""
import sys, json, importlib, io, contextlib, warnings, math
warnings.simplefilter('ignore')
import numpy as np


def conv(v):
    if isinstance(v, dict) and '__tuple__' in v: return tuple(conv(x) for x in v['__tuple__'])
    if isinstance(v, list): return [conv(x) for x in v]
    return v


def out(v):
    if isinstance(v, (np.floating, float)):
        v = float(v)
        return v if math.isfinite(v) else repr(v)
    if isinstance(v, (np.integer, int)): return int(v)
    if isinstance(v, (np.bool_, bool)): return bool(v)
    if isinstance(v, (bytes, np.bytes_)): return v.decode()
    if isinstance(v, str): return v
    if isinstance(v, np.ndarray): return [out(x) for x in v.tolist()]
    if isinstance(v, (list, tuple)): return [out(x) for x in v]
    return repr(v)


def main():
    reqs = json.load(sys.stdin); res = []
    for q in reqs:
        try:
            with contextlib.redirect_stdout(io.StringIO()):
                mod, cname = q['cls'].split(':')
                C = getattr(importlib.import_module(mod), cname)
                s = C(**{k: conv(v) for k, v in q.get('params', {}).items()})
                pts = np.array(conv(q['points']), dtype=float)
                sol = s(pts, q['t'])
            names = list(sol.dtype.names)
            res.append({'ok': True, 'names': names, 'fields': {n: out(sol[n]) for n in names}})
        except BaseException as e:
            res.append({'ok': False, 'exc': type(e).__name__, 'msg': str(e)[:300]})
    json.dump(res, sys.stdout)
main()
