"""Path-enumerating symbolic executor over the real repository source (ast, re-read every run).

One *run* follows one path; symbolic branch points consult a decision prefix and register the
untaken alternative (re-execution from the start for each path: functions under contract are
small).  See DESIGN.md 1.2 (A1-A4) for the semantics assumed."""
import ast, operator, itertools
import sympy as sp
from .values import *
from . import repo as R
from . import lib as L


class Run:
    """state of one path"""
    def __init__(self, prefix, hyps=(), feas=None):
        self.prefix = list(prefix); self.i = 0
        self.pc = []                 # sympy booleans decided on this path
        self.hyps = list(hyps)       # contract `requires`
        self.alts = []               # decision prefixes still to explore
        self.decisions = []
        self.defined = []            # definedness side conditions met: (kind, expr, lineno)
        self.dropped = []            # statements dropped by the extraction
        self.gstore = {}             # module globals written
        self.gwrites = []; self.greads = []
        self.fresh = itertools.count()
        self.feas = feas
        self.calls = []              # external calls met (name, args)
        self.lineno = None

    def decide(self, cond):
        if cond is True or cond is sp.true: return True
        if cond is False or cond is sp.false: return False
        if isinstance(cond, bool): return cond
        if not isinstance(cond, sp.Basic):
            raise Unsupported('branch on non-boolean %r' % (cond,))
        for c in self.pc:
            if c == cond: return True
            if c == sp.Not(cond) or sp.Not(c) == cond: return False
        if self.i < len(self.prefix):
            d = self.prefix[self.i]
        else:
            ft = fe = True
            if self.feas is not None:
                ft = self.feas(self.hyps + self.pc + [cond])
                fe = self.feas(self.hyps + self.pc + [sp.Not(cond)])
            if ft and fe:
                d = True; self.alts.append(self.decisions + [False])
            elif ft: d = True
            elif fe: d = False
            else: raise InfeasiblePath()
            if not (ft and fe):
                # forced: not a decision point (keeps prefixes stable only within this run,
                # which is enough: alternatives are recorded with the decisions made so far)
                self.pc.append(cond if d else sp.Not(cond))
                self.forced = getattr(self, 'forced', 0) + 1
                self.decisions.append(d); self.i += 1
                return d
        self.decisions.append(d); self.i += 1
        self.pc.append(cond if d else sp.Not(cond))
        return d


class InfeasiblePath(Exception): pass


class Path:
    def __init__(self, run, outcome, value=None, exc=None):
        self.pc = list(run.pc); self.outcome = outcome; self.value = value; self.exc = exc
        self.defined = list(run.defined); self.dropped = list(run.dropped)
        self.gstore = dict(run.gstore); self.calls = list(run.calls); self.run = run
    def __repr__(self): return 'Path(%s, pc=%s)' % (self.outcome, self.pc)


def explore(thunk, hyps=(), feas=None, max_paths=400, accept_unsupported=False):
    """thunk(run) -> value.  Returns list of Path."""
    work = [[]]; out = []
    while work:
        prefix = work.pop()
        run = Run(prefix, hyps, feas)
        try:
            v = thunk(run)
            out.append(Path(run, 'return', value=v))
        except RaiseSignal as r:
            out.append(Path(run, 'raise', exc=r.name, value=r.msg))
        except InfeasiblePath:
            pass
        except Unsupported as u:
            if not accept_unsupported: raise
            out.append(Path(run, 'unsupported', exc=str(u)))
        work.extend(run.alts)
        if len(out) + len(work) > max_paths:
            raise Unsupported('path explosion (> %d paths)' % max_paths)
    return out


class Env:
    def __init__(self, module, closure=None, func=None):
        self.locals = {}; self.module = module; self.closure = closure; self.func = func
        self.globals_decl = set()


class Interp:
    def __init__(self, run, externals=None, opaque_funcs=None, transparent_only=None):
        self.run = run
        self.externals = externals or {}
        self.opaque_funcs = opaque_funcs or {}    # FuncVal.name / qualified -> handler(interp, args, kwargs)
        self.depth = 0
        self.loop_generic = 0

    # ------------------------------------------------------------------ names
    def lookup(self, name, env):
        if name in env.locals and name not in env.globals_decl:
            if env.locals[name] is UNBOUND: raise RaiseSignal('UnboundLocalError', name)
            v = env.locals[name]
            if isinstance(v, Carried): raise Unsupported('loop-carried dependence on %s' % name)
            return v
        c = env.closure
        while c is not None:
            if name in c.locals:
                v = c.locals[name]
                if isinstance(v, Carried): raise Unsupported('loop-carried dependence on %s' % name)
                return v
            c = c.closure
        return self.module_name(env.module, name)

    def module_name(self, m, name, seen=()):
        key = (m.modname, name)
        if key in self.run.gstore:
            self.run.greads.append(key); return self.run.gstore[key]
        if name in m.funcs: return FuncVal(m.funcs[name], m, None, name=name)
        if name in m.classes: return ClassRef(m.modname + ':' + name)
        if name in m.assigns:
            self.run.greads.append(key)
            return self.eval(m.assigns[name], Env(m))
        if name in m.imports:
            imp = m.imports[name]
            if imp[0] == 'mod':
                if R.is_repo_module(imp[1]): return ModRef(imp[1])
                return L.libref(imp[1])
            _, base, attr = imp
            if R.is_repo_module(base):
                sub = base + '.' + attr
                if R.is_repo_module(sub) and attr not in self._names_of(R.load_module(base)): return ModRef(sub)
                return self.module_name(R.load_module(base), attr)
            return L.libref((base + '.' + attr) if base else attr)
        for base in m.star:
            if R.is_repo_module(base):
                bm = R.load_module(base)
                if (base, name) not in seen and self._has(bm, name):
                    return self.module_name(bm, name, seen + ((base, name),))
            else:
                if L.lib_has(base, name): return L.libref(base + '.' + name)
        if name in L.BUILTINS: return LibRef('builtins.' + name)
        raise Unsupported('unresolved name %s in %s' % (name, m.modname))

    def _names_of(self, m):
        return set(m.funcs) | set(m.classes) | set(m.assigns) | set(m.imports)

    def _has(self, m, name):
        if name in self._names_of(m): return True
        for base in m.star:
            if R.is_repo_module(base):
                if self._has(R.load_module(base), name): return True
            elif L.lib_has(base, name): return True
        return False

    def store(self, name, v, env):
        if name in env.globals_decl:
            key = (env.module.modname, name)
            self.run.gstore[key] = v; self.run.gwrites.append(key)
        else:
            env.locals[name] = v

    # ------------------------------------------------------------------ statements
    def block(self, stmts, env):
        for s in stmts: self.stmt(s, env)

    def stmt(self, n, env):
        self.run.lineno = getattr(n, 'lineno', None)
        t = type(n)
        if t is ast.Expr:
            if isinstance(n.value, ast.Constant): return
            self.eval(n.value, env); return
        if t is ast.Assign:
            v = self.eval(n.value, env)
            for tg in n.targets: self.assign(tg, v, env)
            return
        if t is ast.AugAssign and isinstance(n.target, ast.Name) and isinstance(env.locals.get(n.target.id), Carried) and getattr(self, 'symloops', None) \
                and isinstance(n.op, (ast.Add, ast.Sub)):
            car = env.locals[n.target.id]
            term = self.eval(n.value, env)
            if isinstance(n.op, ast.Sub): term = L.mapv(lambda q: -q, term)
            k = len(getattr(self.run, 'sums', []))
            te = term.elem if isinstance(term, Arr) else term
            sym = sp.Symbol('SUM%d_' % k, real=True)
            if not hasattr(self.run, 'sums'): self.run.sums = []
            self.run.sums.append({'symbol': sym, 'term': te, 'loops': list(self.symloops), 'var': n.target.id, 'pc_len': len(self.run.pc), 'line': n.lineno})
            isarr = isinstance(car.prev, Arr) or isinstance(term, Arr)
            prev = car.prev.elem if isinstance(car.prev, Arr) else car.prev
            new = L.S(prev) + sym
            env.locals[n.target.id] = Arr(new) if isarr else new
            return
        if t is ast.AugAssign:
            cur = self.eval(n.target, env)
            v = self.binop(n.op, cur, self.eval(n.value, env))
            self.assign(n.target, v, env); return
        if t is ast.AnnAssign:
            if n.value is not None: self.assign(n.target, self.eval(n.value, env), env)
            return
        if t is ast.If:
            if not n.orelse and all(self._droppable(b) for b in n.body):
                self.run.dropped.append('message-only if line %s' % n.lineno); return
            c = self.truth(self.eval(n.test, env))
            self.block(n.body if self.run.decide(c) else n.orelse, env); return
        if t is ast.For: return self.for_(n, env)
        if t is ast.While: return self.while_(n, env)
        if t is ast.Return:
            raise ReturnSignal(self.eval(n.value, env) if n.value is not None else None)
        if t is ast.Raise:
            if n.exc is None: raise RaiseSignal('reraise')
            e = n.exc
            name = None
            if isinstance(e, ast.Call): name = getattr(e.func, 'id', getattr(e.func, 'attr', '?'))
            elif isinstance(e, ast.Name): name = e.id
            raise RaiseSignal(name or '?', self._msg(e))
        if t is ast.Pass: return
        if t is ast.Assert:
            c = self.truth(self.eval(n.test, env))
            if not self.run.decide(c): raise RaiseSignal('AssertionError')
            return
        if t is ast.Global:
            env.globals_decl.update(n.names); return
        if t is ast.FunctionDef:
            env.locals[n.name] = FuncVal(n, env.module, env, name=n.name); return
        if t in (ast.Import, ast.ImportFrom):
            tmp = R.Module.__new__(R.Module)
            tmp.modname = env.module.modname; tmp.is_pkg = env.module.is_pkg
            tmp.funcs = {}; tmp.classes = {}; tmp.assigns = {}; tmp.imports = {}; tmp.star = []
            tmp._scan(n)
            for k in tmp.imports:
                m2 = R.Module.__new__(R.Module); m2.__dict__.update(tmp.__dict__)
                env.locals[k] = self.module_name(tmp, k)
            return
        if t is ast.Try:
            try:
                self.block(n.body, env)
            except RaiseSignal as r:
                for h in n.handlers:
                    names = []
                    if h.type is None: names = None
                    elif isinstance(h.type, ast.Tuple): names = [getattr(x, 'id', getattr(x, 'attr', '')) for x in h.type.elts]
                    else: names = [getattr(h.type, 'id', getattr(h.type, 'attr', ''))]
                    if names is None or r.name in names or 'Exception' in names or 'BaseException' in names:
                        if h.name: env.locals[h.name] = Opaque('exception:' + r.name)
                        self.block(h.body, env); break
                else:
                    self.block(n.finalbody, env); raise
            else:
                self.block(n.orelse, env)
            self.block(n.finalbody, env); return
        if t is ast.With:
            self.run.dropped.append('with-context line %s' % n.lineno)
            self.block(n.body, env); return
        if t is ast.Break: raise BreakSignal()
        if t is ast.Continue: raise ContinueSignal()
        if t is ast.Delete: return
        raise Unsupported('statement %s line %s' % (t.__name__, getattr(n, 'lineno', '?')))

    def _msg(self, e):
        return None

    def _droppable(self, b):
        if isinstance(b, ast.Pass): return True
        if isinstance(b, ast.Expr) and isinstance(b.value, ast.Constant): return True
        if isinstance(b, ast.Expr) and isinstance(b.value, ast.Call):
            f = b.value.func
            nm = f.id if isinstance(f, ast.Name) else (f.attr if isinstance(f, ast.Attribute) else None)
            return nm in ('print', 'warn')
        return False

    def assign(self, t, v, env):
        if isinstance(t, ast.Name): self.store(t.id, v, env); return
        if isinstance(t, (ast.Tuple, ast.List)):
            vs = list(v.items) if isinstance(v, Vec) else list(v)
            if len(vs) != len(t.elts): raise RaiseSignal('ValueError', 'unpack')
            for a, b in zip(t.elts, vs): self.assign(a, b, env)
            return
        if isinstance(t, ast.Attribute):
            o = self.eval(t.value, env)
            if isinstance(o, Obj): o.attrs[t.attr] = v; return
            if isinstance(o, Solution) and t.attr in o.names:
                o.data[list(o.names).index(t.attr)] = v; return
            if isinstance(o, ModRef):
                key = (o.modname, t.attr); self.run.gstore[key] = v; self.run.gwrites.append(key); return
            raise Unsupported('attribute store on %r' % (o,))
        if isinstance(t, ast.Subscript):
            base = self.eval(t.value, env); key = self.eval_slice(t.slice, env)
            if isinstance(base, Arr):
                if key is GENIDX or (isinstance(key, slice) and key == slice(None, None, None)) or \
                        (isinstance(key, sp.Basic) and self.loop_generic and key.has(IDXSYM)):
                    base.elem = v.elem if isinstance(v, Arr) else v; return
                if isinstance(key, tuple) and key and (key[0] is GENIDX):
                    # arr[i, j] = v on an array of vectors
                    if isinstance(base.elem, Vec): base.elem.items[int(key[1])] = v; return
                raise Unsupported('array store with index %r' % (key,))
            if isinstance(base, Fam):
                if isinstance(key, sp.Basic) and key.is_number: base.special[int(key)] = v; return
                if isinstance(key, sp.Basic) and key.is_Symbol and key.name.startswith('n_idx'):
                    base.elem = v; base.idx = key; return
                raise Unsupported('mode array store at index %r' % (key,))
            if isinstance(base, dict): base[key] = v; return
            if isinstance(base, list):
                if isinstance(key, slice): base[key] = list(v)
                else: base[int(key)] = v
                return
            if isinstance(base, Vec):
                if isinstance(key, tuple):
                    tgt = base
                    for k in key[:-1]: tgt = tgt.items[int(k)]
                    tgt.items[int(key[-1])] = v; return
                if isinstance(key, slice):
                    idx = range(len(base.items))[key]
                    vs = list(v.items) if isinstance(v, Vec) else [v] * len(idx)
                    for i, x in zip(idx, vs): base.items[i] = x
                    return
                base.items[int(key)] = v; return
            raise Unsupported('subscript store on %r' % (type(base).__name__,))
        if isinstance(t, ast.Starred): raise Unsupported('starred target')
        raise Unsupported('assignment target ' + type(t).__name__)

    def for_(self, n, env):
        it = self.eval(n.iter, env)
        if isinstance(it, Arr): it = GenIter(it.elem)
        if isinstance(it, GList) and it.generic: it = GenIter(it[0])
        if isinstance(it, SymRange): return self.for_sym(n, it, env)
        items = self.iterate(it)
        if items is GENERIC:
            # map loop over the request points: execute the body once on the generic element
            gen = it
            assigned = {x.id for s in n.body for x in ast.walk(s) if isinstance(x, ast.Name) and isinstance(x.ctx, ast.Store)}
            tnames = {x.id for x in ast.walk(n.target) if isinstance(x, ast.Name)}
            saved = {}
            for a in assigned - tnames:
                if a in env.locals and not isinstance(env.locals[a], (Arr, GList)):
                    saved[a] = env.locals[a]; env.locals[a] = Carried(a, env.locals[a])
            self.assign(n.target, gen.item, env)
            self.loop_generic += 1
            try:
                try: self.block(n.body, env)
                except ContinueSignal: pass
                except BreakSignal: raise Unsupported('break in a map loop')
            finally:
                self.loop_generic -= 1
            for a, v in saved.items():
                if isinstance(env.locals.get(a), Carried): env.locals[a] = v
            if n.orelse: self.block(n.orelse, env)
            return
        broke = False
        for x in items:
            self.assign(n.target, x, env)
            try: self.block(n.body, env)
            except ContinueSignal: continue
            except BreakSignal: broke = True; break
        if not broke and n.orelse: self.block(n.orelse, env)

    def for_sym(self, n, it, env):
        """series / mode loop  for k in range(<symbolic>): executed once on a generic integer index (sum-loop schema):
        accumulators  a += term  (a defined before the loop, term not reading a) become  a + SUM_j  with the term recorded"""
        depth = getattr(self, 'symdepth', 0)
        idx = sp.Symbol('n_idx%d' % depth, integer=True, nonnegative=True)
        if not isinstance(n.target, ast.Name): raise Unsupported('series loop with a non-name target')
        if n.orelse: raise Unsupported('series loop with else')
        for c in (sp.Ge(idx, it.start), sp.Lt(idx, it.stop)):
            if c not in (sp.true, True) and c not in self.run.pc: self.run.pc.append(c)
        assigned = {x.id for s_ in n.body for x in ast.walk(s_) if isinstance(x, ast.Name) and isinstance(x.ctx, ast.Store)}
        saved = {}
        for a in assigned - {n.target.id}:
            if a in env.locals and not isinstance(env.locals[a], (GList, Carried)) and env.locals[a] is not UNBOUND:
                saved[a] = env.locals[a]; env.locals[a] = Carried(a, env.locals[a])
        env.locals[n.target.id] = idx
        self.symdepth = depth + 1; self.symloops = getattr(self, 'symloops', []) + [(idx, it)]
        try:
            try: self.block(n.body, env)
            except ContinueSignal: pass
            except BreakSignal: raise Unsupported('break in a series loop')
        finally:
            self.symdepth = depth; self.symloops = self.symloops[:-1]
        for a, v in saved.items():
            if isinstance(env.locals.get(a), Carried): env.locals[a] = v

    def while_(self, n, env):
        k = 0
        while True:
            c = self.truth(self.eval(n.test, env))
            if not self.run.decide(c): break
            try: self.block(n.body, env)
            except ContinueSignal: pass
            except BreakSignal: return
            k += 1
            if k > 200: raise Unsupported('while loop not bounded by concrete data (line %s)' % n.lineno)
        if n.orelse: self.block(n.orelse, env)

    def iterate(self, it):
        """python iteration: list of items, or GENERIC for iteration over the request index"""
        if isinstance(it, GenIter): return GENERIC
        if isinstance(it, Arr): raise Unsupported('direct iteration over array handled by GenIter')
        if isinstance(it, (list, tuple, GList)): return list(it)
        if isinstance(it, Vec): return list(it.items)
        if isinstance(it, dict): return list(it.keys())
        if isinstance(it, range): return [sp.Integer(i) for i in it]
        if isinstance(it, str): return list(it)
        if isinstance(it, (set, frozenset)): return sorted(it, key=repr)
        if hasattr(it, '__iter__') and not isinstance(it, sp.Basic): return list(it)
        raise Unsupported('iteration over %r' % (it,))

    # ------------------------------------------------------------------ expressions
    def truth(self, v):
        if isinstance(v, Arr): v = v.elem
        if isinstance(v, (bool,)): return v
        if v is None: return False
        if isinstance(v, sp.Basic):
            if isinstance(v, sp.logic.boolalg.Boolean) or v.is_Boolean or v.is_Relational: return v
            if v.is_number: return bool(v != 0)
            return sp.Ne(v, 0)
        if isinstance(v, (str, list, tuple, dict, set, GList)): return len(v) > 0
        if isinstance(v, (int, float)): return v != 0
        if isinstance(v, Vec): raise Unsupported('truth value of a vector')
        if isinstance(v, Opaque):
            return sp.Symbol('B_%s_%d' % (v.tag, next(self.run.fresh)))
        return True

    def eval(self, n, env):
        t = type(n)
        if t is ast.Constant:
            v = n.value
            if isinstance(v, bool) or v is None or isinstance(v, (str, bytes)): return v
            if isinstance(v, (int, float, complex)): return lit(v) if not isinstance(v, complex) else num(v)
            if v is Ellipsis: return Ellipsis
            raise Unsupported('constant %r' % (v,))
        if t is ast.Name: return self.lookup(n.id, env)
        if t is ast.BinOp: return self.binop(n.op, self.eval(n.left, env), self.eval(n.right, env))
        if t is ast.UnaryOp:
            v = self.eval(n.operand, env)
            if isinstance(n.op, ast.Not): return self.not_(self.truth(v))
            if isinstance(n.op, ast.USub): return L.mapv(lambda x: -x, v)
            if isinstance(n.op, ast.UAdd): return v
            raise Unsupported('unary op')
        if t is ast.BoolOp:
            isand = isinstance(n.op, ast.And)
            acc = []
            last = None
            for sub in n.values:
                v = self.eval(sub, env); last = v
                tv = self.truth(v)
                if tv is True or tv is sp.true:
                    if not isand: return v
                    continue
                if tv is False or tv is sp.false:
                    if isand: return v
                    continue
                acc.append(tv)
            if not acc: return last
            return sp.And(*acc) if isand else sp.Or(*acc)
        if t is ast.Compare:
            left = self.eval(n.left, env); res = []
            for op, c in zip(n.ops, n.comparators):
                right = self.eval(c, env)
                res.append(self.compare(op, left, right)); left = right
            if len(res) == 1: return res[0]
            return L.and_all(res)
        if t is ast.Call: return self.call(n, env)
        if t is ast.Attribute: return self.getattr(self.eval(n.value, env), n.attr, env)
        if t is ast.Subscript:
            return self.subscript(self.eval(n.value, env), self.eval_slice(n.slice, env))
        if t is ast.Tuple: return tuple(self._elts(n.elts, env))
        if t is ast.List: return list(self._elts(n.elts, env))
        if t is ast.Set: return set(self._elts(n.elts, env))
        if t is ast.Dict:
            d = {}
            for k, v in zip(n.keys, n.values):
                if k is None: d.update(self.eval(v, env))
                else: d[self.eval(k, env)] = self.eval(v, env)
            return d
        if t is ast.IfExp:
            c = self.truth(self.eval(n.test, env))
            return self.eval(n.body if self.run.decide(c) else n.orelse, env)
        if t is ast.Lambda: return FuncVal(n, env.module, env, name='<lambda>')
        if t is ast.JoinedStr: return '<str>'
        if t in (ast.ListComp, ast.GeneratorExp, ast.SetComp):
            out = []
            self._comp(n.generators, 0, env, lambda e: out.append(self.eval(n.elt, e)))
            return out if t is not ast.SetComp else set(out)
        if t is ast.DictComp:
            out = {}
            def put(e): out[self.eval(n.key, e)] = self.eval(n.value, e)
            self._comp(n.generators, 0, env, put)
            return out
        if t is ast.Slice: return self.eval_slice(n, env)
        if t is ast.Starred: raise Unsupported('starred expression')
        raise Unsupported('expression ' + t.__name__)

    def _elts(self, elts, env):
        out = []
        for e in elts:
            if isinstance(e, ast.Starred): out.extend(self.iterate(self.eval(e.value, env)))
            else: out.append(self.eval(e, env))
        return out

    def _comp(self, gens, i, env, emit):
        if i == len(gens): emit(env); return
        g = gens[i]
        it = self.eval(g.iter, env)
        items = self.iterate(it)
        if items is GENERIC: raise Unsupported('comprehension over the request points')
        for x in items:
            e2 = Env(env.module, env, env.func)
            self.assign(g.target, x, e2)
            ok = True
            for c in g.ifs:
                if not self.run.decide(self.truth(self.eval(c, e2))): ok = False; break
            if ok: self._comp(gens, i + 1, e2, emit)

    def eval_slice(self, s, env):
        if isinstance(s, ast.Slice):
            f = lambda x: None if x is None else self._int(self.eval(x, env))
            return slice(f(s.lower), f(s.upper), f(s.step))
        if isinstance(s, ast.Tuple): return tuple(self.eval_slice(e, env) for e in s.elts)
        return self.eval(s, env)

    def _int(self, v):
        if isinstance(v, sp.Basic) and v.is_Integer: return int(v)
        if isinstance(v, int): return v
        if isinstance(v, sp.Basic) and v.is_number and v == int(v): return int(v)
        raise Unsupported('non-concrete integer %r' % (v,))

    def not_(self, c):
        if isinstance(c, bool): return not c
        return sp.Not(c)

    def binop(self, op, a, b):
        return L.binop(self, type(op), a, b)

    def compare(self, op, a, b):
        return L.compare(self, type(op), a, b)

    def subscript(self, base, key):
        return L.subscript(self, base, key)

    def getattr(self, o, attr, env=None):
        if isinstance(o, Obj):
            if attr in o.attrs: return o.attrs[attr]
            if attr == '__dict__': return o.attrs
            if attr == '__class__': return ClassRef(o.cls_key)
            ok, v = R.class_attr(o.cls_key, attr) if o.cls_key in R.class_table()['classes'] else (False, None)
            if ok: return v
            fv = R.find_method(o.cls_key, attr)
            if fv is not None:
                return fv if self._is_static(fv) else BoundMethod(o, fv)
            raise RaiseSignal('AttributeError', attr)
        if isinstance(o, AbstractObj):
            if attr not in o.members: raise RaiseSignal('AttributeError', attr)
            m = o.members[attr]
            return Callable(m, name=o.tag + '.' + attr) if callable(m) and not isinstance(m, sp.Basic) else m
        if isinstance(o, SuperRef):
            fv = R.find_method(o.obj.cls_key, attr, after=o.after)
            if fv is None:
                if attr == '__init__': return LibRef('builtins.object_init')
                raise RaiseSignal('AttributeError', attr)
            return BoundMethod(o.obj, fv)
        if isinstance(o, LibRef): return L.libref(o.name + '.' + attr)
        if isinstance(o, ModRef):
            sub = o.modname + '.' + attr
            m = R.load_module(o.modname)
            if self._has(m, attr): return self.module_name(m, attr)
            if R.is_repo_module(sub): return ModRef(sub)
            raise Unsupported('no attribute %s in module %s' % (attr, o.modname))
        if isinstance(o, ClassRef):
            ok, v = R.class_attr(o.cls_key, attr)
            if ok: return v
            fv = R.find_method(o.cls_key, attr)
            if fv is not None: return fv
            if attr == '__name__': return o.cls_key.split(':')[1]
            raise RaiseSignal('AttributeError', attr)
        return L.getattr_builtin(self, o, attr)

    _assigned_cache = {}

    def _assigned_names(self, node):
        k = id(node)
        if k not in self._assigned_cache:
            names = set(); glob = set()
            def walk(n):
                for c in ast.iter_child_nodes(n):
                    if isinstance(c, (ast.FunctionDef, ast.Lambda, ast.ClassDef)):
                        if isinstance(c, ast.FunctionDef): names.add(c.name)
                        continue
                    if isinstance(c, (ast.ListComp, ast.GeneratorExp, ast.SetComp, ast.DictComp)): continue
                    if isinstance(c, ast.Name) and isinstance(c.ctx, ast.Store): names.add(c.id)
                    if isinstance(c, ast.Global): glob.update(c.names)
                    walk(c)
            walk(node)
            self._assigned_cache[k] = names - glob
        return self._assigned_cache[k]

    def _is_static(self, fv):
        for d in fv.node.decorator_list:
            if isinstance(d, ast.Name) and d.id == 'staticmethod': return True
        return False

    # ------------------------------------------------------------------ calls
    def call(self, n, env):
        f = self.eval(n.func, env)
        args = []
        for a in n.args:
            if isinstance(a, ast.Starred): args.extend(self.iterate(self.eval(a.value, env)))
            else: args.append(self.eval(a, env))
        kw = {}
        for k in n.keywords:
            if k.arg is None: kw.update(self.eval(k.value, env))
            else: kw[k.arg] = self.eval(k.value, env)
        self.run.lineno = n.lineno
        self.cur_module = env.module; self.cur_env = env
        if isinstance(f, LibRef) and f.name == 'builtins.super':
            if args: return SuperRef(args[1], args[0].cls_key)
            return SuperRef(env_self(env), env_func_cls(env))
        return self.apply(f, args, kw, n)

    def apply(self, f, args, kw, node=None):
        if isinstance(f, BoundMethod):
            return self.apply(f.func, [f.obj] + list(args), kw, node)
        if isinstance(f, FuncVal):
            h = self.opaque_funcs.get(f.name)
            if h is not None: return h(self, args, kw)
            return self.call_func(f, args, kw)
        if isinstance(f, LibRef):
            h = self.externals.get(f.name)
            if h is not None:
                self.run.calls.append((f.name, args)); return h(self, args, kw)
            return L.call_lib(self, f.name, args, kw, node)
        if isinstance(f, BuiltinMethod): return L.call_builtin_method(self, f, args, kw)
        if isinstance(f, ClassRef): return self.instantiate(f, args, kw)
        if isinstance(f, Callable): return f.fn(self, args, kw)
        raise Unsupported('call of %r' % (f,))

    def instantiate(self, cref, args, kw):
        h = self.opaque_funcs.get(cref.cls_key.split(':')[1])
        if h is not None: return h(self, args, kw)
        if cref.cls_key == 'exactpack.base:ExactSolution':
            data = args[0] if args else kw['data']
            names = args[1] if len(args) > 1 else kw['names']
            jumps = args[2] if len(args) > 2 else kw.get('jumps')
            return Solution(list(data) if not isinstance(data, Arr) else data, list(names), jumps, self.run.lineno)
        o = Obj(cref.cls_key)
        init = R.find_method(cref.cls_key, '__init__')
        if init is not None: self.call_func(init, [o] + list(args), kw)
        elif cref.cls_key not in R.class_table()['classes']:
            raise Unsupported('unknown class ' + cref.cls_key)
        return o

    def call_func(self, f, args, kw):
        node = f.node
        if self.depth > 60: raise Unsupported('recursion depth')
        env = Env(f.module, f.closure, f)
        a = node.args
        params = [x.arg for x in (getattr(a, 'posonlyargs', []) + a.args)]
        defaults = a.defaults
        args = list(args)
        if isinstance(node, ast.FunctionDef):
            for d in node.decorator_list:
                dn = getattr(d, 'id', getattr(d, 'attr', None))
                if dn not in ('staticmethod', 'print_when_verbose', 'classmethod'):
                    raise Unsupported('decorator %s on %s' % (dn, f.name))
        nd = len(defaults); np_ = len(params)
        for i, p in enumerate(params):
            if i < len(args): env.locals[p] = args[i]
            elif p in kw: env.locals[p] = kw.pop(p)
            elif i >= np_ - nd:
                env.locals[p] = self.eval(defaults[i - (np_ - nd)], Env(f.module, f.closure))
            else:
                raise RaiseSignal('TypeError', 'missing argument ' + p)
        extra = args[np_:]
        if a.vararg: env.locals[a.vararg.arg] = tuple(extra)
        elif extra: raise RaiseSignal('TypeError', 'too many arguments to ' + f.name)
        for ko, kd in zip(a.kwonlyargs, a.kw_defaults):
            if ko.arg in kw: env.locals[ko.arg] = kw.pop(ko.arg)
            elif kd is not None: env.locals[ko.arg] = self.eval(kd, Env(f.module, f.closure))
            else: raise RaiseSignal('TypeError', 'missing kw ' + ko.arg)
        if a.kwarg: env.locals[a.kwarg.arg] = dict(kw)
        elif kw: raise RaiseSignal('TypeError', 'unexpected keyword %s' % list(kw))
        if isinstance(node, ast.FunctionDef):
            for nn in self._assigned_names(node):
                if nn not in env.locals: env.locals[nn] = UNBOUND
        self.depth += 1
        if f.name.endswith('._run') or f.name.endswith('.run_tvec') or f.name.endswith('.driver'): self.run.run_locals = env.locals
        try:
            if isinstance(node, ast.Lambda): return self.eval(node.body, env)
            try:
                self.block(node.body, env)
            except ReturnSignal as r:
                return r.value
            return None
        finally:
            self.depth -= 1


class Callable:
    """python-level callable value created by the library layer"""
    def __init__(self, fn, name='callable'): self.fn = fn; self.name = name


class SuperRef:
    def __init__(self, obj, after): self.obj = obj; self.after = after


class Carried:
    def __init__(self, name, prev): self.name = name; self.prev = prev


class GenIter:
    """iteration over the request index: item is the generic element (or (index, element))"""
    def __init__(self, item): self.item = item


GENERIC = Marker('generic-iteration')
UNBOUND = Marker('unbound-local')
IDXSYM = sp.Symbol('i_generic', integer=True, nonnegative=True)


def env_self(env):
    e = env
    while e is not None:
        if e.func is not None and e.func.cls_key is not None:
            a = e.func.node.args.args
            return e.locals[a[0].arg]
        e = e.closure
    raise Unsupported('super() outside a method')


def env_func_cls(env):
    e = env
    while e is not None:
        if e.func is not None and e.func.cls_key is not None: return e.func.cls_key
        e = e.closure
    raise Unsupported('super() outside a method')
