"""Helpers shared by the property modules: spec residuals over abstract fields, instantiation on the
extracted terms (proof side) and on finite differences of the real solver (replay side)."""
import json, time, traceback
import sympy as sp
from . import core, alg, solverkit, repo as R
from .values import *


class Fields:
    """abstract fields  name(r, t)  used to write a spec residual once"""
    def __init__(self, names, vars_):
        self.vars = list(vars_)
        self.f = {n: sp.Function('F_' + n)(*self.vars) for n in names}
    def __getitem__(self, n): return self.f[n]


def instantiate(residual, fields, actual):
    """substitute the extracted terms for the abstract fields and evaluate the derivatives"""
    sub = {fields.f[n]: sp.sympify(actual[n]) for n in fields.f if n in actual}
    e = residual.subs(sub)
    return e.doit()


def placeholders(residual, fields):
    """abstract residual -> (expression over plain symbols, list of (symbol name, field, derivative spec))"""
    repl = {}; needs = []
    for d in residual.atoms(sp.Derivative):
        f = d.expr
        if f in fields.f.values():
            name = [n for n, v in fields.f.items() if v == f][0]
            spec = []
            for v, k in d.variable_count: spec.append((str(v), int(k)))
            sym = sp.Symbol('D_%s_%s' % (name, '_'.join('%s%d' % (v, k) for v, k in spec)))
            repl[d] = sym; needs.append((sym.name, name, spec))
    e = residual.xreplace(repl)
    repl2 = {}
    for n, f in fields.f.items():
        if e.has(f):
            sym = sp.Symbol('V_' + n); repl2[f] = sym; needs.append((sym.name, n, []))
    return e.xreplace(repl2), needs


REPLAY_TMPL = r'''
import json, math, sys, io, contextlib
import numpy as np
from %(module)s import %(cls)s
params = %(params)s
pos0 = %(pos)s; t0 = %(t)s
posnames = %(posnames)s
with contextlib.redirect_stdout(io.StringIO()):
    solver = %(cls)s(**params)
def field(name, pos, t):
    with contextlib.redirect_stdout(io.StringIO()):
        sol = solver(np.array([pos], dtype=float), t)
    return float(sol[name][0])
def deriv(name, spec):
    # nested central differences of the real solver's output
    def f(pos, t):
        return field(name, pos, t)
    g = f
    for var, order in spec:
        for _ in range(order):
            g = (lambda g0, var: (lambda pos, t: _cd(g0, pos, t, var)))(g, var)
    return g(pos0, t0)
def _cd(g, pos, t, var):
    if var == 't':
        h = 1e-4 * max(abs(t), 1e-3); return (g(pos, t + h) - g(pos, t - h)) / (2 * h)
    i = posnames.index(var)
    if isinstance(pos, (list, tuple)):
        h = 1e-4 * max(abs(pos[i]), 1e-3)
        p1 = list(pos); p2 = list(pos); p1[i] += h; p2[i] -= h
        return (g(p1, t) - g(p2, t)) / (2 * h)
    h = 1e-4 * max(abs(pos), 1e-3); return (g(pos + h, t) - g(pos - h, t)) / (2 * h)
env = dict(%(extra_env)s)
env.update(params)
if isinstance(pos0, (list, tuple)):
    for n, v in zip(posnames, pos0): env[n] = v
else:
    env[posnames[0]] = pos0
env['t'] = t0
needs = %(needs)s
try:
    for sym, name, spec in needs:
        env[sym] = deriv(name, [tuple(s) for s in spec]) if spec else field(name, pos0, t0)
    terms = [eval(c, {'math': math}, env) for c in %(terms)s]
    residual = sum(terms); scale = sum(abs(x) for x in terms) or 1.0
    ok = not (abs(residual) > %(tol)s * scale) and math.isfinite(residual)
    print(json.dumps({'reproduced': not ok, 'residual': residual, 'scale': scale, 'observed': {k: env[k] for k, _, _ in needs}, 'predicate': %(text)r}))
except Exception as e:
    print(json.dumps({'reproduced': %(exc_is_violation)s, 'exception': type(e).__name__ + ': ' + str(e)[:200], 'predicate': %(text)r}))
'''


def replay_script(sc, case, residual, fields, pt, text, tol=1e-4, extra_env=None, exc_is_violation=False):
    """native replay of an equality between fields/derivatives of the real solver at the counterexample"""
    e, needs = placeholders(residual, fields)
    def plain(v):
        if isinstance(v, dict) and '__tuple__' in v: return tuple(plain(q) for q in v['__tuple__'])
        if isinstance(v, list): return [plain(q) for q in v]
        return v
    params = {k: plain(solverkit.numify(v, pt)) for k, v in sc.kwargs(case).items()}
    extra_env = dict(extra_env or {})
    for s_ in sc.symbols():
        if s_ in pt and s_.name not in extra_env:
            try: extra_env[s_.name] = float(alg.numeric(pt[s_], {}, 20))
            except Exception: pass
    posl = list(sc.pos) if isinstance(sc.pos, (list, tuple)) else [sc.pos]
    pos = [float(alg.numeric(x, pt)) for x in posl]
    terms = [sp.pycode(tm) for tm in sp.Add.make_args(sp.expand(e) if len(str(e)) < 4000 else e)]
    module, cls = sc.cls.split(':')
    return REPLAY_TMPL % dict(module=module, cls=cls, params=repr(params), pos=repr(pos if len(pos) > 1 else pos[0]), t=repr(float(alg.numeric(sc.t, pt))),
                              posnames=repr([str(x) for x in posl]), needs=repr([(a, b, [list(s) for s in c]) for a, b, c in needs]),
                              terms=repr(terms), tol=repr(tol), text=text, extra_env=repr(extra_env or {}), exc_is_violation=repr(bool(exc_is_violation)))


def lazy_replay(fn):
    """replay scripts are only needed for refuted obligations: build them lazily"""
    class _L:
        def __init__(self): self.v = None
        def get(self, pt):
            try: return fn(pt)
            except Exception as e: return None
    return _L()


def finish(obl, mk_replay):
    """attach the native replay script to a refuted obligation"""
    if obl['status'] == 'refuted' and obl.get('cex_raw') is not None and mk_replay is not None:
        try:
            pt = {}
            for k, v in obl['cex_raw'].items():
                pt[k] = sp.sympify(v)
            obl['replay'] = mk_replay(pt)
        except Exception:
            obl['replay'] = None; obl['replay_error'] = traceback.format_exc()[-500:]
    obl.pop('cex_raw', None)
    return obl


def sym_point(sc, raw):
    """cex_raw (names -> strings) -> {symbol: value}"""
    by = {s.name: s for s in sc.symbols()}
    pt = {by[k]: v for k, v in raw.items() if k in by}
    for s_ in by.values():
        if s_ not in pt: pt[s_] = sp.Integer(1)     # symbols the failing obligation does not mention
    return pt


def solver_unit(sc, case, per_path, tier, K=None, tag=''):
    """generic unit: extract all paths of one (solver, case), run translation validation, generate obligations"""
    res = {'obligations': [], 'functions': [], 'tv': {'functions': 0, 'points': 0, 'mismatches': 0}, 'engine_errors': [], 'assumptions': [],
           'vacuity': {'witness_checks': 0, 'must_fail_probes': 0, 'must_fail_caught': 0}}
    cname = sc.case_name(case)
    base = '%s/%s' % (sc.key, cname)
    try:
        res['functions'] = sc.function_info()
        paths = sc.paths(case)
    except Unsupported as u:
        res['obligations'].append(core.Obl(base + '/extraction', 'open', 'extraction', 0.0, detail='extraction: %s' % u))
        return res
    if K is None: K = 3 if tier == 'quick' else 25
    try:
        if K == 0: raise StopIteration
        n, mism = solverkit.translation_validation(sc, case, paths, K=K)
        res['tv'] = {'functions': 1, 'points': n, 'mismatches': len(mism)}
        for m in mism[:3]: res['engine_errors'].append('translation validation %s: %s' % (base, m))
        pts = alg.sample_points(sc.symbols(), sc.all_hyps(case), 1, seed=core.SEED + 5, ranges=sc.ranges)
        res['vacuity']['witness_checks'] = len(pts)
        if not pts: res['engine_errors'].append('vacuity: no admissible point found for the precondition of %s' % base)
    except StopIteration:
        pass
    except Exception as e:
        res['engine_errors'].append('translation validation failed to run for %s: %s' % (base, str(e)[-400:]))
    for i, p in enumerate(paths):
        try:
            res['obligations'].extend(per_path(sc, case, i, p, base + '/path%d' % i))
        except Unsupported as u:
            res['obligations'].append(core.Obl(base + '/path%d/extraction' % i, 'open', 'extraction', 0.0, detail='extraction: %s' % u))
    return res


# ------------------------------------------------------------------------------------------------ translation validation of function-level extractions
TV_NATIVE = r"""
import json, io, contextlib, importlib, warnings
import numpy as np
warnings.simplefilter('ignore')
items = %(items)r
out = []
def flat(v):
    if isinstance(v, (tuple, list)): return [q for x in v for q in flat(x)]
    a = np.asarray(v)
    if a.dtype.kind in 'fiub': return [float(q) for q in a.ravel()]
    return [None]
for it in items:
    try:
        m = importlib.import_module(it['module'])
        for k, val in (it.get('globals') or {}).items(): setattr(m, k, val)
        with contextlib.redirect_stdout(io.StringIO()):
            if it.get('cls'):
                C = getattr(m, it['cls'])
                o = C(**it['ctor']) if it.get('ctor') is not None else object.__new__(C)
                for k, val in (it.get('attrs') or {}).items(): setattr(o, k, val)
                r = getattr(o, it['name'])(*it['args'])
            else:
                r = getattr(m, it['name'])(*it['args'])
        out.append({'ok': True, 'values': flat(r)})
    except Exception as e:
        out.append({'ok': False, 'error': type(e).__name__ + ': ' + str(e)[:100]})
print(json.dumps({'reproduced': False, 'results': out}))
"""


def tv_functions(items, expected, rtol=1e-9):
    """items: native call descriptions (see TV_NATIVE); expected: list of lists of floats (None = not compared) computed from the extracted expressions.
    Returns (points_compared, mismatches[list of str])."""
    from . import native
    r_ = native.run_script(TV_NATIVE % dict(items=items), timeout=600)
    if r_.get('result') is None: return 0, ['translation validation did not run: ' + (r_.get('stderr_tail') or '')[-200:]]
    mism = []; n = 0
    for it, ex, got in zip(items, expected, r_['result']['results']):
        tag = '%s.%s%s' % (it.get('cls') or it['module'].split('.')[-1], it['name'], tuple(it['args']))
        if not got['ok']: mism.append('%s: real call raised %s' % (tag, got['error'])); continue
        vals = got['values']
        if len(vals) < len(ex): mism.append('%s: real call returned %d values, extraction %d' % (tag, len(vals), len(ex))); continue
        n += 1
        for i, (a, b) in enumerate(zip(ex, vals)):
            if a is None or b is None: continue
            if abs(a - b) > rtol * max(abs(a), abs(b)) + 1e-18: mism.append('%s: value %d extracted %.12g real %.12g' % (tag, i, a, b)); break
    return n, mism


def expected_from_paths(paths, pt, pick=None, hyps=()):
    """values of the path taken at the numeric point pt ({symbol: number}); paths: list of (values, path condition) or sx.Path objects"""
    from . import alg
    for p in paths:
        vals, pc = (p.value, p.pc) if hasattr(p, 'pc') else (p[0], p[1])
        try:
            if not all(alg.eval_cond(c, pt) for c in pc): continue
        except Exception:
            continue
        vals = pick(vals) if pick else vals
        out = []
        for q in (vals.items if hasattr(vals, 'items') and not isinstance(vals, dict) else (vals if isinstance(vals, (list, tuple)) else [vals])):
            try:
                z = alg.numeric(sp.sympify(q), pt, 20); out.append(float(z) if z.is_real else None)
            except Exception:
                out.append(None)
        return out
    return None


def tv_report(res, nfun, npts, mism):
    res['tv'] = {'functions': nfun, 'points': npts, 'mismatches': len(mism)}
    for m in mism[:5]: res['engine_errors'].append('translation validation: ' + m)
