#!/usr/bin/env python3
"""CLI:  python3-vt /verif/check.py <property id> [--tier quick|thorough] | --replay <file>"""
import sys, os
sys.path.insert(0, os.path.dirname(os.path.abspath(__file__)))
from vc import runner
if __name__ == '__main__':
    argv = sys.argv[1:]
    if argv and argv[0] == '--replay': argv = ['C00'] + argv
    sys.exit(runner.main(argv))
