#!/usr/bin/env python3
"""Regenerate MANIFEST.json from tools/manifest_data.py (keeps checks / not_applicable consistent with properties.jsonl)."""
import json, os, sys
V = os.path.dirname(os.path.dirname(os.path.abspath(__file__)))
sys.path.insert(0, os.path.join(V, 'tools'))
import manifest_data as D
props = [json.loads(l) for l in open(os.path.join(V, 'properties.jsonl'))]
checks = []
for p in props:
    pid = p['id']
    if pid in D.CHECKS:
        c = D.CHECKS[pid]
        checks.append({"property_id": pid,
                       "quick_cmd": "python3-vt /verif/check.py %s --tier quick" % pid,
                       "thorough_cmd": "python3-vt /verif/check.py %s --tier thorough" % pid,
                       "evidence_file": "/verif/evidence/%s.json" % pid,
                       "replay_cmd_template": "python3-vt /verif/check.py --replay {path}",
                       "engine": "vc",
                       "level_claimed": {"category": c.get('category', 'proof'), "text": c['text'], "design_ref": c.get('design_ref', 'DESIGN.md 3 / ' + pid)},
                       "level_note": c['note'], "technique": c['technique']})
na = [{"property_id": p['id'], "reason": D.NOT_APPLICABLE.get(p['id'], "check under construction; not yet claimed")} for p in props if p['id'] not in D.CHECKS]
m = {"version": 1, "setup_cmd": D.SETUP, "hooks": D.HOOKS, "engines": D.ENGINES, "checks": checks, "not_applicable": na, "notes": D.NOTES}
json.dump(m, open(os.path.join(V, 'MANIFEST.json'), 'w'), indent=1)
print(len(checks), 'checks,', len(na), 'not applicable')
