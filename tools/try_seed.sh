#!/bin/bash
# usage: tools/try_seed.sh <patch.diff> <property id> [extra check args]   -- applies the patch to /repo, runs the quick check, reverts
set -u
patch=$1; pid=$2; shift 2
git -C /repo diff --quiet || { echo "/repo not clean"; exit 2; }
git -C /repo apply "$patch" || { echo "patch does not apply"; exit 2; }
timeout 1500 python3-vt /verif/check.py $pid --tier quick --no-evidence "$@" 2>&1 | grep -E "VIOLATION|KNOWN|ENGINE|OPEN|tier=" | cut -c1-260 | head -${SEED_LINES:-12}
rc=${PIPESTATUS[0]}
git -C /repo checkout -- .
echo "exit=$rc"
