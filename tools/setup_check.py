#!/usr/bin/env python3
"""setup: nothing is built; verify the tools the checks need are present."""
import subprocess, sys, os
ok = True
try:
    import sympy, z3, mpmath
    print('sympy', sympy.__version__, 'z3', z3.get_version_string())
except Exception as e:
    print('missing python module:', e); ok = False
r = subprocess.run(['/venv/bin/python', '-c', 'import exactpack, numpy, scipy; print(exactpack.__file__)'], capture_output=True, text=True,
                   env=dict(os.environ, PYTHONPATH='/repo'), cwd='/repo')
print(r.stdout.strip() or r.stderr[-300:])
ok = ok and r.returncode == 0
sys.exit(0 if ok else 1)
