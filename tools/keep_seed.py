#!/usr/bin/env python3
"""usage: keep_seed.py <src dir> <dest id> <caught_by text> <what I ran text>  -- copy a confirmed seeded change into /verif/seeded/<id>/"""
import sys, os, json, shutil
src, dest, caught, ran = sys.argv[1:5]
d = os.path.join('/verif/seeded', dest); os.makedirs(d, exist_ok=True)
for f in ('patch.diff', 'demo.py'):
    shutil.copy(os.path.join(src, f), os.path.join(d, f))
m = json.load(open(os.path.join(src, 'meta.json')))
m['confirmed_by_me'] = ran; m['caught_by'] = caught
json.dump(m, open(os.path.join(d, 'meta.json'), 'w'), indent=1)
print('kept', d)
