SETUP = "python3-vt /verif/tools/setup_check.py"
HOOKS = {"guard": "EXACTPACK_VERIF", "enable": "no hooks: contracts are sidecar files under /verif/contracts and the verifier reads /repo source text (ast) on every run",
         "baseline_off_cmd": "cd /repo && /venv/bin/python -m pytest -ra -q -p no:cacheprovider --timeout=900 --continue-on-collection-errors",
         "source_commits": [], "add_only": True}
ENGINES = [{"name": "vc", "path": "/verif/vc", "serves_properties": [],
            "kind_free_text": "contract-based deductive verifier for the numerical Python of /repo: ast symbolic executor over the real source (re-read every run), sidecar contracts, VC generation (per-path weakest preconditions, symbolic differentiation, relational products), back ends ring-mod-laws normaliser (sympy polynomial arithmetic) and z3 NRA; native replay of counterexamples under /venv/bin/python"}]
NOTES = ("Exit codes of every check: 0 no violation (OPEN = undecided obligations are printed and listed in evidence, never reported as violations), "
         "1 violation not listed in known_findings.json, 3 engine error (ENGINE-ERROR line). fix: commits in /repo: 9e71d36 (Noh pressure).")
COMMON_NOTE = ("Assumes A1 real arithmetic for floats, A2 point-wise numpy, A3 ideal elementary functions, A4 Python subset (DESIGN.md 1.2); trusted: the executor/normaliser/encoder of /verif/vc "
               "(guarded each run by translation validation against the real functions and numeric cross-checks of proved identities), sympy polynomial arithmetic, z3. ")
CHECKS = {
 "C01": {"text": "Deductive: for every closed-form hydrodynamic solver under contract (Noh, Noh2, Noh2Cog, the 20 Coggeshall solutions; each geometry by exhaustive case split) the mass, momentum and energy "
                 "residuals (with the documented heat-flux term) of the field terms extracted from the real _run are proved identically zero for all symbolic parameters, points and times on every path. "
                 "Proof level because the property is an algebraic identity per path; the numerically assembled solvers (Sedov interior, Guderley, Riemann fans, EHEP) are being added.",
         "note": COMMON_NOTE + "Not yet covered in this check: EHEP regions, Riemann fans, Sedov, Guderley (their SciPy-driven assembly is outside the executor).",
         "technique": "symbolic execution of real source + PDE residual VCs discharged by ring normaliser / z3"},
 "C03": {"text": "Deductive: the declared EOS relations between the *returned* fields (resolved through the names list of the real ExactSolution call) are proved on every path, every geometry, symbolic parameters.",
         "note": COMMON_NOTE + "Covered so far: Noh, Noh2, Noh2Cog, Coggeshall 1-21; other solver families are being added.",
         "technique": "symbolic execution of real source + EOS-relation VCs discharged by ring normaliser"},
}
NOT_APPLICABLE = {}
