SETUP = "python3-vt /verif/tools/setup_check.py"
HOOKS = {"guard": "EXACTPACK_VERIF", "enable": "no hooks: contracts are sidecar files under /verif/contracts and the verifier reads /repo source text (ast) on every run",
         "baseline_off_cmd": "cd /repo && /venv/bin/python -m pytest -ra -q -p no:cacheprovider --timeout=900 --continue-on-collection-errors",
         "source_commits": [], "add_only": True}
ENGINES = [{"name": "vc", "path": "/verif/vc", "serves_properties": [],
            "kind_free_text": "contract-based deductive verifier for the numerical Python of /repo: ast symbolic executor over the real source (re-read every run), sidecar contracts, VC generation (per-path weakest preconditions, symbolic differentiation, relational products), back ends ring-mod-laws normaliser (sympy polynomial arithmetic) and z3 NRA; native replay of counterexamples under /venv/bin/python"}]
NOTES = ("Exit codes of every check: 0 no violation (OPEN = undecided obligations are printed and listed in evidence, never reported as violations), "
         "1 violation not listed in known_findings.json, 3 engine error (ENGINE-ERROR line). fix: commits in /repo: 9e71d36 (Noh pressure).")
COMMON_NOTE = ("Assumes A1 real arithmetic for floats, A2 point-wise numpy, A3 ideal elementary functions, A4 Python subset (DESIGN.md 1.2); trusted: the executor/normaliser/encoder of /verif/vc "
               "(guarded each run by translation validation against the real functions and numeric cross-checks of proved identities), sympy polynomial arithmetic, z3. ")
CHECKS = {
 "C01": {"text": "Deductive: for every closed-form hydrodynamic solver under contract (Noh, Noh2, Noh2Cog, the 20 Coggeshall solutions; each geometry by exhaustive case split) the mass, momentum and energy "
                 "residuals (with the documented heat-flux term) of the field terms extracted from the real _run are proved identically zero for all symbolic parameters, points and times on every path. "
                 "Proof level because the property is an algebraic identity per path; the numerically assembled solvers (Sedov interior, Guderley, Riemann fans, EHEP) are being added.",
         "note": COMMON_NOTE + "Not yet covered in this check: EHEP regions, Riemann fans, Sedov, Guderley (their SciPy-driven assembly is outside the executor).",
         "technique": "symbolic execution of real source + PDE residual VCs discharged by ring normaliser / z3"},
 "C03": {"text": "Deductive: the declared EOS relations between the *returned* fields (resolved through the names list of the real ExactSolution call) are proved on every path, every geometry, symbolic parameters.",
         "note": COMMON_NOTE + "Covered so far: Noh, Noh2, Noh2Cog, Coggeshall 1-21; other solver families are being added.",
         "technique": "symbolic execution of real source + EOS-relation VCs discharged by ring normaliser"},
 "C16": {"text": "Deductive: for each EOS class of the library (symbolic constants, symbolic state, every feasible branch pair) the closures are proved mutually inverse and every analytic partial equal to the symbolic derivative of its closure, "
                 "with methods bound positionally in the base-class order; for each of the four residual classes and each symmetry every Jacobian entry equals the derivative of the residual for an abstract EOS (contract only), "
                 "hand-coded 2x2 inverses/determinants are proved, 3x3 inverses are proved to apply numpy.linalg.inv to F_prime at the same state under a det!=0 guard; Newton step and exit condition by a one-iteration step obligation on the real loop body.",
         "note": COMMON_NOTE + "Assumed: numpy.linalg.inv/det (A5). Not proved: convergence of the Newton iteration to the D>0 branch from a reasonable guess (no contract within reach expresses 'reasonable'); that clause is exercised only by the black-box Noh bounded checks of C02/C07.",
         "technique": "symbolic execution of real source + derivative/inverse VCs discharged by ring normaliser; modular abstract-EOS contract"},
}
NOT_APPLICABLE = {}
