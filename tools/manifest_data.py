SETUP = "python3-vt /verif/tools/setup_check.py"
HOOKS = {"guard": "EXACTPACK_VERIF", "enable": "no hooks: contracts are sidecar files under /verif/contracts and the verifier reads /repo source text (ast) on every run",
         "baseline_off_cmd": "cd /repo && /venv/bin/python -m pytest -ra -q -p no:cacheprovider --timeout=900 --continue-on-collection-errors",
         "source_commits": [], "add_only": True}
ENGINES = [{"name": "vc", "path": "/verif/vc", "serves_properties": [],
            "kind_free_text": "contract-based deductive verifier for the numerical Python of /repo: ast symbolic executor over the real source (re-read every run), sidecar contracts, VC generation (per-path weakest preconditions, symbolic differentiation, relational products), back ends ring-mod-laws normaliser (sympy polynomial arithmetic) and z3 NRA; native replay of counterexamples under /venv/bin/python"}]
NOTES = ("Exit codes of every check: 0 no violation (OPEN = undecided obligations are printed and listed in evidence, never reported as violations), "
         "1 violation not listed in known_findings.json, 3 engine error (ENGINE-ERROR line). fix: commits in /repo: 9e71d36 (Noh pressure).")
COMMON_NOTE = ("Assumes A1 real arithmetic for floats, A2 point-wise numpy, A3 ideal elementary functions, A4 Python subset (DESIGN.md 1.2); trusted: the executor/normaliser/encoder of /verif/vc "
               "(guarded each run by translation validation against the real functions and numeric cross-checks of proved identities), sympy polynomial arithmetic, z3. ")
CHECKS = {
 "C01": {"text": "Deductive: for every closed-form hydrodynamic solver under contract (Noh, Noh2, Noh2Cog, the 20 Coggeshall solutions; each geometry by exhaustive case split) the mass, momentum and energy "
                 "residuals (with the documented heat-flux term) of the field terms extracted from the real _run are proved identically zero for all symbolic parameters, points and times on every path. "
                 "Also the rarefaction fans of the ideal-gas Riemann solver (three patterns with fans, symbolic states, bisect root eliminated). Proof level because the property is an algebraic identity per path.",
         "note": COMMON_NOTE + "Not yet covered in this check: EHEP regions, general-EOS Riemann fans, Sedov, Guderley.",
         "technique": "symbolic execution of real source + PDE residual VCs discharged by ring normaliser / z3"},
 "C03": {"text": "Deductive: the declared EOS relations between the *returned* fields (resolved through the names list of the real ExactSolution call) are proved on every path, every geometry, symbolic parameters.",
         "note": COMMON_NOTE + "Covered: Noh, Noh2, Noh2Cog, Coggeshall 1-21, ideal-gas Riemann solver (every region of every pattern, per-side gamma); other solver families are being added.",
         "technique": "symbolic execution of real source + EOS-relation VCs discharged by ring normaliser"},
 "C16": {"text": "Deductive: for each EOS class of the library (symbolic constants, symbolic state, every feasible branch pair) the closures are proved mutually inverse and every analytic partial equal to the symbolic derivative of its closure, "
                 "with methods bound positionally in the base-class order; for each of the four residual classes and each symmetry every Jacobian entry equals the derivative of the residual for an abstract EOS (contract only), "
                 "hand-coded 2x2 inverses/determinants are proved, 3x3 inverses are proved to apply numpy.linalg.inv to F_prime at the same state under a det!=0 guard; Newton step and exit condition by a one-iteration step obligation on the real loop body.",
         "note": COMMON_NOTE + "Assumed: numpy.linalg.inv/det (A5). Not proved: convergence of the Newton iteration to the D>0 branch from a reasonable guess (no contract within reach expresses 'reasonable'); that clause is exercised only by the black-box Noh bounded checks of C02/C07.",
         "technique": "symbolic execution of real source + derivative/inverse VCs discharged by ring normaliser; modular abstract-EOS contract"},
 "C13": {"text": "Deductive: for Kenamond 1/2/3 (2-D and 3-D) and the DSD cylindrical expansion, on every path of the real _run with symbolic detonators, radii, speeds and points: eikonal identity with the speed of the local material "
                 "(DSD: 1/(D_CJ-alpha/r)), value equal to the documented first-arrival formula (K2: min/max of the six documented pieces, each active piece proved to lie in its own material; K3: line-of-sight iff theta<=0), "
                 "bt >= detonation time, value at each detonator, agreement of one-sided expressions on |p|=R, theta=0, r=r_1, r=r_2, independence of t.",
         "note": COMMON_NOTE + "Cited, not machine-checked: eikonal+continuity => Lipschitz bound (A6); theta=0 <=> p.d=R^2-l_da*l_bp (arccos addition law). K2 detonator values are proved under the precondition that no detonator is swept before it fires; DSD under r_i > alpha_i/D_CJ_i.",
         "technique": "symbolic execution of real source + eikonal/continuity VCs (ring normaliser modulo radicals) + z3 for path conditions and min/max"},
 "C15": {"text": "Deductive: Blake._run executed symbolically for an arbitrary positive-definite isotropic material: wave equation with c_l^2=M/rho, strains are derivatives of the returned displacement, Hooke's law for every returned stress field, "
                 "density, cavity-wall traction, zero field ahead of the front and continuity at the front; set_elastic_params executed symbolically (dict namespace, exec of constant strings, 1j markers) for each of the 15 parameter pairs: on every returning path "
                 "the six moduli satisfy the isotropic identities, reproduce the supplied pair, are positive definite, (E,M) returns the + branch; all other paths raise ValueError.",
         "note": COMMON_NOTE + "np.isclose guards are modelled over the reals; Blake.__init__'s own argument plumbing is covered by C05/C20, not here.",
         "technique": "symbolic execution of real source + PDE/Hooke/identity VCs discharged by ring normaliser (exp/sin/cos atoms) and z3"},
 "C02": {"text": "Deductive: Rankine-Hugoniot triples between the states the real code returns on the two sides of each discontinuity with W = d(location)/dt from the solver's own location expression: "
                 "ideal-gas Riemann solver (all four wave patterns, unequal gammas, symbolic states; bisect root eliminated through the root equation, which is proved equal to the documented u*_R - u*_L), "
                 "Noh, Coggeshall 19/20/21 (each geometry), elastic-plastic piston (three models, elastic and plastic wave, total stress).",
         "note": COMMON_NOTE + "Assumed (A5): bisect/fsolve return roots of the given residuals. Not yet under contract in this check: general-EOS Riemann (JWL), Sedov, SDRZ, EHEP, Mader, black-box Noh, Guderley, RMTV discontinuities.",
         "technique": "symbolic execution of real source + jump-condition VCs discharged by ring normaliser modulo radicals"},
 "C04": {"text": "Deductive for the ideal-gas solver: the integral conservation law is reduced (telescoping sum over the code's own region table) to per-wave obligations, all proved for symbolic left/right states and gammas on each of the four patterns: "
                 "fan interior Euler residuals + self-similarity, shock triples with the coded speeds, contact conditions and root equation == u*_R - u*_L, fan head/tail continuity, non-decreasing wave speeds, outer regions = initial states.",
         "note": COMMON_NOTE + "Assumed: bisect root (A5), fundamental theorem of calculus for the fan integrals (A6). The general-EOS solver (P-U tables, ODE integration, interpolation) is outside the executor and is NOT covered: for it the property is undecided by this check.",
         "technique": "symbolic execution of real source + telescoped conservation VCs (ring normaliser, z3 for wave ordering)"},
 "C10": {"text": "Deductive: Riemann (IGEOS, four patterns), Noh and Coggeshall 19: each returned field on each path is constant along rays x - x0 = xi t, wave positions are xd0 + t V with time-free V and root equation, shock location proportional to t.",
         "note": COMMON_NOTE + "Not yet under contract: Sedov exponents, Guderley power-law prefactors, Mader cell averages with dx proportional to t, EHEP region I.",
         "technique": "symbolic execution of real source + similarity-invariance VCs discharged by ring normaliser"},
}
NOT_APPLICABLE = {}
