#!/usr/bin/env python3
"""Record the obligation names generated on the current (unchanged) tree as the registered set.
A later run that silently generates fewer obligations is an engine error (DESIGN.md 1.4)."""
import json, glob, os, sys
V = os.path.dirname(os.path.dirname(os.path.abspath(__file__)))
p = os.path.join(V, 'baseline', 'obligations.json')
base = json.load(open(p)) if os.path.exists(p) else {}
ids = sys.argv[1:] or [os.path.basename(f)[:-5] for f in glob.glob(os.path.join(V, 'evidence', 'C*.json'))]
for pid in ids:
    ev = json.load(open(os.path.join(V, 'evidence', pid + '.json')))
    names = list(ev['coverage'].get('obligation_names', [])) + [b['name'] for b in ev['coverage'].get('bounded', [])]
    base[pid] = sorted(set(names)); print(pid, len(base[pid]))
    base.setdefault('_hashes', {})[pid] = {f['ref']: f.get('sha256_16') for f in ev['coverage'].get('functions_under_contract', [])}
json.dump(base, open(p, 'w'), indent=0, sort_keys=True)
