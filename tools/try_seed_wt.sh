#!/bin/bash
# usage: tools/try_seed_wt.sh <patch.diff> <property id> [extra check args]
# applies the patch in a scratch worktree of /repo's HEAD (never touches /repo itself), runs the quick check against it through EXACTPACK_REPO, removes the worktree
set -u
patch=$1; pid=$2; shift 2
wt=$(mktemp -d /tmp/wts_XXXX); rmdir $wt
git -C /repo worktree add -q --detach $wt HEAD || exit 2
git -C $wt apply "$patch" || { echo "patch does not apply"; git -C /repo worktree remove --force $wt; exit 2; }
EXACTPACK_REPO=$wt timeout 2400 python3-vt /verif/check.py $pid --tier quick --no-evidence "$@" 2>&1 | grep -E "VIOLATION|ENGINE|OPEN|tier=" | cut -c1-260 | head -${SEED_LINES:-12}
rc=${PIPESTATUS[0]}
git -C /repo worktree remove --force $wt
echo "exit=$rc"
