#!/bin/bash
# usage: tools/confirm_seed.sh <seed dir with patch.diff demo.py> <pytest targets...>
# confirms in a scratch worktree: demo passes on clean tree, patch applies, demo fails with patch, given tests pass with patch
set -u
sd=$1; shift
wt=$(mktemp -d /tmp/wtc_XXXX); rmdir $wt
git -C /repo worktree add -q --detach $wt HEAD || exit 2
cd $wt
PYTHONPATH=$wt timeout 600 /venv/bin/python $sd/demo.py > /dev/null 2>&1; echo "demo_clean_exit=$?"
git apply $sd/patch.diff; echo "apply_exit=$?"
PYTHONPATH=$wt timeout 600 /venv/bin/python $sd/demo.py > /dev/null 2>&1; echo "demo_patched_exit=$?"
PYTHONPATH=$wt timeout 2400 /venv/bin/python -m pytest -q -p no:cacheprovider -n 8 "$@" --deselect exactpack/tests/test_riemann.py::Test_RiemannJWL_Lee::test_riemLeegen_region_boundaries 2>&1 | tail -1
cd /; git -C /repo worktree remove --force $wt
