"""C16 - EOS library closures, partial derivatives, residual Jacobians and Newton step are self-consistent."""
import ast, itertools
import sympy as sp
from vc import core, alg, smt, sx, extract, repo as R
from vc.values import *

LEVEL = 'proof'
EXPLANATION = ("Per EOS class: closures mutually inverse, every analytic partial equals the symbolic derivative of the closure it belongs to (methods are bound "
               "positionally in the base-class order (rho, P)/(rho, e), as the residual classes call them), on every pair of feasible branches. Per residual class and symmetry: "
               "each Jacobian entry equals the derivative of the residual for an *abstract* EOS known only through its contract; hand-coded 2x2 inverse and determinant; Newton step and exit condition.")
ASSUMPTIONS = ["A5: numpy.linalg.inv / det are the mathematical inverse / determinant (3x3 residual classes)",
               "abstract EOS contract in the residual-class obligations: e=E(rho,P), P=Pf(rho,e) differentiable, de_drho/de_dP/dP_drho/dP_de are their partials (discharged per concrete EOS class by the eos/* obligations)",
               "Newton convergence from a 'physically reasonable guess' to the D>0 branch is not proved (bounded stand-in: see C02/C07 black-box Noh checks)"]
TRUSTED = []

M = 'exactpack.solvers.nohblackboxeos.equations_of_state.eos_library:'
RM = 'exactpack.solvers.nohblackboxeos.solution_tools.residual_functions:'
EOSF = 'exactpack/solvers/nohblackboxeos/equations_of_state/eos_library.py'

rho = sp.Symbol('rho', positive=True); e_ = sp.Symbol('e', real=True); P_ = sp.Symbol('P', real=True); eta = sp.Symbol('eta', real=True)
g = sp.Symbol('gamma', positive=True); b = sp.Symbol('b', real=True); cs = sp.Symbol('c_s', real=True); rinf = sp.Symbol('rho_inf', real=True)
rref = sp.Symbol('reference_density', positive=True); pref = sp.Symbol('reference_pressure', real=True); gref = sp.Symbol('reference_gruneisen', real=True)
c0 = sp.Symbol('c_0', real=True); s1 = sp.Symbol('s_1', real=True); s2 = sp.Symbol('s_2', real=True); s3 = sp.Symbol('s_3', real=True)

EOS = {
    'ideal_gas_eos': dict(args=[g], hyps=[sp.Ne(g, 1)]),
    'stiffened_gas_eos': dict(args=[g, cs, rinf], hyps=[sp.Ne(g, 1)]),
    'noble_abel_eos': dict(args=[g, b], hyps=[sp.Ne(g, 1), sp.Ne(1 - b * rho, 0)]),
    'carnahan_starling_eos': dict(args=[g, b], hyps=[sp.Ne(g, 1), sp.Ne(b * rho, 1)],
                                  helpers=[('Z', 'dZ_deta', [eta], eta, [sp.Ne(eta, 1)]), ('eta', 'deta_drho', [rho], rho, [])]),
    'steinberg': dict(args=[rref, pref, gref, b, c0, s1, s2, s3], hyps=[],
                      helpers=[('poly', 'dpoly_deta', [eta], eta, []), ('eta', 'deta_drho', [rho], rho, []), ('P_inf', 'dPinf_drho', [rho], rho, []),
                               ('e_inf', 'deinf_drho', [rho], rho, []), ('gruneisen', 'dgru_drho', [rho], rho, [])]),
    'aluminum_eos': dict(args=[], hyps=[],
                         helpers=[('P_inf', 'dPinf_drho', [rho], rho, []), ('e_inf', 'deinf_drho', [rho], rho, []), ('gruneisen', 'dgru_drho', [rho], rho, [])]),
}


def mpaths(cls, ctor, method, args, hyps):
    def thunk(run):
        I = sx.Interp(run)
        o = I.instantiate(ClassRef(M + cls), list(ctor), {})
        return I.apply(I.getattr(o, method), list(args), {})
    return sx.explore(thunk, hyps=hyps, feas=extract.default_feas)


def finfo(cls, names):
    out = []
    for n in names:
        fv = R.find_method(M + cls, n)
        if fv: out.append({'ref': '%s::%s' % (EOSF, fv.name), 'sha256_16': R.source_hash(fv)})
    return out


NATIVE = r'''
import json, math
from exactpack.solvers.nohblackboxeos.equations_of_state.eos_library import %(cls)s
o = %(cls)s(*%(ctor)s)
env = %(env)s
def cd(f, x, h): return (f(x + h) - f(x - h)) / (2 * h)
try:
    %(body)s
    ok = abs(lhs - rhs) <= 1e-5 * max(abs(lhs), abs(rhs), 1e-12)
    print(json.dumps({'reproduced': not ok, 'analytic_or_lhs': lhs, 'reference_or_rhs': rhs, 'predicate': %(text)r}))
except Exception as ex:
    print(json.dumps({'reproduced': False, 'exception': type(ex).__name__ + ': ' + str(ex)[:200], 'predicate': %(text)r}))
'''


def native_script(cls, ctor_syms, pt, body, text):
    val = lambda s: float(alg.numeric(s, pt, 20)) if isinstance(s, sp.Basic) else s
    env = {str(k): float(alg.numeric(v, pt, 20)) for k, v in pt.items()}
    return NATIVE % dict(cls=cls, ctor=repr([val(s) for s in ctor_syms]), env=repr(env), body=body, text=text)


def pair_obligations(name, cls, spec, pathsA, valA, pathsB, hyps, body, text, replace_none=True):
    """for every jointly feasible pair of branches: valA(pathA) == value(pathB)"""
    out = []
    k = 0
    for pa in pathsA:
        for pb in pathsB:
            pc = list(pa.pc) + [c for c in pb.pc if c not in pa.pc]
            if not smt.feasible(list(hyps) + pc): continue
            nm = '%s/branch%d' % (name, k); k += 1
            if pa.outcome != 'return' or pb.outcome != 'return':
                # a raising branch that is feasible inside the domain
                out.append(core.Obl(nm, 'refuted', 'path-analysis', 0.0, goal=text, detail='feasible in-domain branch raises %s/%s under %s' % (pa.exc, pb.exc, pc), cex=None)); continue
            va = valA(pa); vb = pb.value
            if va is None or vb is None or isinstance(vb, LibRef) or isinstance(va, LibRef):
                r, m = smt.check(list(hyps) + pc)
                out.append(core.Obl(nm, 'refuted', 'path-analysis', 0.0, goal=text, detail='method returns None/NotImplemented on the feasible branch %s' % pc,
                                    cex=core.jval(m) if m else None, cex_raw={str(a): str(v) for a, v in (m or {}).items()} or None)); continue
            o = core.prove_zero(nm, sp.sympify(va) - sp.sympify(vb), list(hyps) + pc, goal_text='%s  on %s' % (text, ' & '.join(map(str, pc))[:120]),
                                extra_syms=set(spec['args']) | {rho})
            if o['status'] == 'refuted' and o.get('cex_raw'):
                pt = {sp.Symbol(k_, **_assume(k_)): sp.sympify(v) for k_, v in o['cex_raw'].items()}
                o['replay'] = native_script(cls, spec['args'], {s: pt.get(s, sp.Integer(1)) for s in set(pt) | set(spec['args'])}, body, text)
            o.pop('cex_raw', None)
            out.append(o)
    if k == 0:
        out.append(core.Obl(name + '/branch0', 'error', 'engine', 0.0, detail='no feasible branch pair (vacuous)'))
    return out


_ALL = [rho, e_, P_, eta, g, b, cs, rinf, rref, pref, gref, c0, s1, s2, s3]
def _assume(name):
    for s in _ALL:
        if s.name == name: return s.assumptions0
    return {'real': True}


def eos_unit(cls):
    spec = EOS[cls]; ctor = spec['args']; hyps = list(spec['hyps'])
    res = {'obligations': [], 'functions': finfo(cls, ['P', 'e', 'dP_drho', 'dP_de', 'de_drho', 'de_dP'] + [h for t in spec.get('helpers', []) for h in t[:2]]), 'engine_errors': []}
    O = res['obligations']
    base = 'C16/eos/' + cls
    try:
        Pp = mpaths(cls, ctor, 'P', [rho, e_], hyps); Ep = mpaths(cls, ctor, 'e', [rho, P_], hyps)
        # closures mutually inverse
        def P_of_e(pe):
            return None
        k = 0
        for pe in Ep:
            if pe.outcome != 'return': continue
            ps = mpaths(cls, ctor, 'P', [rho, pe.value], hyps + list(pe.pc))
            O.extend(pair_obligations(base + '/inverse:P(rho,e(rho,P))=P/e%d' % k, cls, spec, [pe], lambda p_: P_, ps, hyps + list(pe.pc),
                                      'lhs = o.P(env["rho"], o.e(env["rho"], env["P"])); rhs = env["P"]', 'P(rho, e(rho,P)) == P')); k += 1
        k = 0
        for pp in Pp:
            if pp.outcome != 'return': continue
            es = mpaths(cls, ctor, 'e', [rho, pp.value], hyps + list(pp.pc))
            O.extend(pair_obligations(base + '/inverse:e(rho,P(rho,e))=e/p%d' % k, cls, spec, [pp], lambda p_: e_, es, hyps + list(pp.pc),
                                      'lhs = o.e(env["rho"], o.P(env["rho"], env["e"])); rhs = env["e"]', 'e(rho, P(rho,e)) == e')); k += 1
        # partial derivatives, bound positionally in the base-class order
        for fn, dfn, args, var, paths in (('P', 'dP_drho', [rho, e_], rho, Pp), ('P', 'dP_de', [rho, e_], e_, Pp), ('e', 'de_drho', [rho, P_], rho, Ep), ('e', 'de_dP', [rho, P_], P_, Ep)):
            dps = mpaths(cls, ctor, dfn, args, hyps)
            a0, a1 = ('rho', 'e') if fn == 'P' else ('rho', 'P')
            vn = str(var)
            body = ('lhs = o.%s(env[%r], env[%r]); h = 1e-6 * max(abs(env[%r]), 1e-3); '
                    'rhs = cd(lambda x: o.%s(*[x if n == %r else env[n] for n in (%r, %r)]), env[%r], h)') % (dfn, a0, a1, vn, fn, vn, a0, a1, vn)
            O.extend(pair_obligations('%s/deriv:%s=d%s_d%s' % (base, dfn, fn, var), cls, spec, paths, lambda p_, var=var: sp.diff(sp.sympify(p_.value), var) if p_.value is not None and not isinstance(p_.value, LibRef) else None,
                                      dps, hyps, body, '%s(%s,%s) == d %s / d %s' % (dfn, a0, a1, fn, vn)))
        for fn, dfn, args, var, hh in spec.get('helpers', []):
            fps = mpaths(cls, ctor, fn, args, hyps + hh); dps = mpaths(cls, ctor, dfn, args, hyps + hh)
            vn = str(var)
            body = 'lhs = o.%s(env[%r]); h = 1e-6 * max(abs(env[%r]), 1e-3); rhs = cd(lambda x: o.%s(x), env[%r], h)' % (dfn, vn, vn, fn, vn)
            O.extend(pair_obligations('%s/deriv:%s=d%s_d%s' % (base, dfn, fn, var), cls, spec, fps, lambda p_, var=var: sp.diff(sp.sympify(p_.value), var) if p_.value is not None else None,
                                      dps, hyps + hh, body, '%s == d %s / d %s' % (dfn, fn, vn)))
    except Unsupported as u:
        O.append(core.Obl(base + '/extraction', 'open', 'extraction', 0.0, detail='extraction: %s' % u))
    return res


# ------------------------------------------------------------------------------------------------ residual classes
Ef = sp.Function('E_eos'); Pf = sp.Function('P_eos')


def dfun(F, i):
    def f(I, args, kw):
        a = [sp.sympify(x) for x in args]
        x, y = sp.Dummy('x'), sp.Dummy('y')
        d = sp.diff(F(x, y), (x, y)[i])
        if all(v.is_Symbol for v in a): return d.xreplace({x: a[0], y: a[1]})
        return sp.Subs(d, (x, y), (a[0], a[1]))
    return f


def abstract_eos():
    return AbstractObj('eos', {
        'e': lambda I, a, k: Ef(sp.sympify(a[0]), sp.sympify(a[1])), 'P': lambda I, a, k: Pf(sp.sympify(a[0]), sp.sympify(a[1])),
        'de_drho': dfun(Ef, 0), 'de_dP': dfun(Ef, 1), 'dP_drho': dfun(Pf, 0), 'dP_de': dfun(Pf, 1)})


u0 = sp.Symbol('u_0', negative=True); r0 = sp.Symbol('rho_0', positive=True); p0 = sp.Symbol('P_0', nonnegative=True)
Dd = sp.Symbol('D', real=True)
RES = {
    'energy_noh_residual': dict(state=[rho, P_, Dd], syms=[0, 1, 2]),
    'pressure_noh_residual': dict(state=[rho, e_, Dd], syms=[0, 1, 2]),
    'simplified_energy_noh_residual': dict(state=[rho, P_], syms=[0]),
    'simplified_pressure_noh_residual': dict(state=[rho, e_], syms=[0]),
}
RESF = 'exactpack/solvers/nohblackboxeos/solution_tools/residual_functions.py'


def res_call(cls, m, method, argf):
    simplified = cls.startswith('simplified')
    pz = sp.Integer(0) if (m != 0 or simplified) else p0
    ic = {'velocity': u0, 'density': r0, 'pressure': pz, 'symmetry': sp.Integer(m)}
    state = RES[cls]['state']
    hyps = [sp.Ne(Dd, 0), sp.Ne(Dd, u0)]
    def inv(I, a, k):
        I.run.inv_arg = a[0]
        n = len(a[0].items)
        return Vec([Vec([sp.Symbol('INV_%d%d' % (i, j), real=True) for j in range(n)]) for i in range(n)])
    def det(I, a, k):
        I.run.det_arg = a[0]; return sp.Symbol('DET', real=True)
    def thunk(run):
        I = sx.Interp(run, externals={'numpy.linalg.inv': inv, 'numpy.linalg.det': det})
        o = I.instantiate(ClassRef(RM + cls), [dict(ic), abstract_eos()], {})
        return I.apply(I.getattr(o, method), argf(I, o), {})
    return sx.explore(thunk, hyps=hyps, feas=extract.default_feas), hyps


RES_NATIVE = r'''
import json
import numpy as np
from exactpack.solvers.nohblackboxeos.solution_tools.residual_functions import %(cls)s
from exactpack.solvers.nohblackboxeos.equations_of_state.eos_library import ideal_gas_eos
ic = %(ic)s; state = %(state)s; i, j = %(i)d, %(j)d
r = %(cls)s(ic, ideal_gas_eos(1.4))
J = np.array(r.F_prime(list(state)), dtype=float).copy()
h = 1e-6 * max(abs(state[j]), 1e-3)
sp_ = list(state); sm = list(state); sp_[j] += h; sm[j] -= h
fd = (np.array(r.F(sp_), dtype=float).copy()[i] - np.array(r.F(sm), dtype=float).copy()[i]) / (2 * h)
ok = abs(J[i, j] - fd) <= 1e-5 * max(abs(fd), abs(J[i, j]), 1e-9)
print(json.dumps({'reproduced': bool(not ok), 'F_prime_entry': float(J[i, j]), 'finite_difference_of_F': float(fd), 'eos': 'ideal_gas_eos(1.4)', 'predicate': 'F_prime[%(i)d][%(j)d] == dF[%(i)d]/dstate[%(j)d]'}))
'''


def res_native(cls, m, raw, state, i, j):
    v = lambda n, d: float(sp.sympify(raw[n])) if n in raw else d
    simplified = cls.startswith('simplified')
    ic = {'velocity': v('u_0', -1.0), 'density': v('rho_0', 1.0), 'pressure': 0.0 if (m != 0 or simplified) else v('P_0', 0.3), 'symmetry': m}
    st = [v(str(s_), 1.3) for s_ in state]
    return RES_NATIVE % dict(cls=cls, ic=repr(ic), state=repr(st), i=i, j=j)


def mat(v):
    return sp.Matrix([[sp.sympify(x) for x in row.items] for row in v.items])


def residual_unit(cls, m):
    res = {'obligations': [], 'functions': [], 'engine_errors': []}
    O = res['obligations']; base = 'C16/residual/%s/symmetry=%d' % (cls, m)
    for n in ('F', 'F_prime', 'determinant', 'F_prime_inv'):
        fv = R.find_method(RM + cls, n)
        if fv: res['functions'].append({'ref': '%s::%s' % (RESF, fv.name), 'sha256_16': R.source_hash(fv)})
    state = RES[cls]['state']
    try:
        Fp, hyps = res_call(cls, m, 'F', lambda I, o: [Vec(list(state))])
        Jp, _ = res_call(cls, m, 'F_prime', lambda I, o: [Vec(list(state))])
        Ip, _ = res_call(cls, m, 'F_prime_inv', lambda I, o: [Vec(list(state))])
        Fp = [p for p in Fp if p.outcome == 'return']; Jp = [p for p in Jp if p.outcome == 'return']; Ip = [p for p in Ip if p.outcome == 'return']
        if len(Fp) != 1 or len(Jp) != 1 or len(Ip) < 1:
            O.append(core.Obl(base + '/paths', 'open', 'extraction', 0.0, detail='unexpected path structure F:%d J:%d Jinv:%d' % (len(Fp), len(Jp), len(Ip)))); return res
        F = [sp.sympify(x) for x in Fp[0].value.items]; J = mat(Jp[0].value)
        n = len(state)
        for i in range(n):
            for j in range(n):
                ob = core.prove_zero('%s/jacobian:DF%d%d=dF%d_d%s' % (base, i, j, i, state[j]), J[i, j] - sp.diff(F[i], state[j]), hyps,
                                     goal_text='F_prime[%d][%d] == d F[%d] / d %s  (abstract EOS)' % (i, j, i, state[j]))
                if ob['status'] == 'refuted' and ob.get('cex_raw'): ob['replay'] = res_native(cls, m, ob['cex_raw'], state, i, j)
                O.append(ob)
        for ip in Ip:
            Ji = mat(ip.value); h2 = hyps + list(ip.pc)
            if n == 3:
                # numpy.linalg.inv is assumed (A5); obligations: it is applied to F_prime at the *same* state, its result is what is returned,
                # and a zero determinant of that same matrix raises
                arg = getattr(ip.run, 'inv_arg', None); darg = getattr(ip.run, 'det_arg', None)
                if arg is None or darg is None:
                    O.append(core.structural(base + '/inverse:uses_linalg_inv', False, goal='F_prime_inv returns numpy.linalg.inv(F_prime(state)) guarded by det != 0')); continue
                A = mat(arg); Dm = mat(darg)
                for i in range(n):
                    for j in range(n):
                        O.append(core.prove_zero('%s/inverse:inv_argument_%d%d=F_prime' % (base, i, j), A[i, j] - J[i, j], h2, goal_text='argument of linalg.inv [%d][%d] == F_prime(state)[%d][%d]' % (i, j, i, j)))
                        O.append(core.prove_zero('%s/inverse:det_argument_%d%d=F_prime' % (base, i, j), Dm[i, j] - J[i, j], h2, goal_text='argument of linalg.det [%d][%d] == F_prime(state)[%d][%d]' % (i, j, i, j)))
                        O.append(core.prove_zero('%s/inverse:returns_inv_%d%d' % (base, i, j), Ji[i, j] - sp.Symbol('INV_%d%d' % (i, j), real=True), h2, goal_text='returned matrix is the result of linalg.inv'))
                guard = any(c == sp.Ne(sp.Symbol('DET', real=True), 0) or c == sp.Not(sp.Eq(sp.Symbol('DET', real=True), 0)) for c in ip.pc)
                O.append(core.structural(base + '/inverse:zero_det_raises', guard, goal='the normal path of F_prime_inv requires det != 0', detail=str(ip.pc)))
                continue
            prod = Ji * J
            for i in range(n):
                for j in range(n):
                    O.append(core.prove_zero('%s/inverse:Jinv.J_%d%d' % (base, i, j), prod[i, j] - (1 if i == j else 0), h2,
                                             goal_text='(F_prime_inv . F_prime)[%d][%d] == %d' % (i, j, int(i == j))))
        if n == 2:
            Dp, _ = res_call(cls, m, 'determinant', lambda I, o: [Vec(list(state))])
            Dp = [p for p in Dp if p.outcome == 'return']
            O.append(core.prove_zero(base + '/determinant', sp.sympify(Dp[0].value) - J.det(), hyps, goal_text='determinant(state) == det(F_prime(state))'))
        for o in O: o.pop('cex_raw', None)
    except Unsupported as u:
        O.append(core.Obl(base + '/extraction', 'open', 'extraction', 0.0, detail='extraction: %s' % u))
    return res


# ------------------------------------------------------------------------------------------------ Newton step / exit
def newton_unit():
    res = {'obligations': [], 'functions': [], 'engine_errors': []}
    O = res['obligations']; base = 'C16/newton/solve'
    ref = 'exactpack/solvers/nohblackboxeos/solution_tools/newton_solvers.py::newton_solver.solve'
    try:
        fv = R.func_ref(ref)
        res['functions'].append({'ref': ref, 'sha256_16': R.source_hash(fv)})
        loops = [n for n in ast.walk(fv.node) if isinstance(n, ast.While)]
        if len(loops) != 1: raise Unsupported('expected exactly one while loop in solve')
        loop = loops[0]
        x = [sp.Symbol('x%d' % i, real=True) for i in range(3)]
        Fs = [sp.Function('F%d' % i) for i in range(3)]; Js = [[sp.Function('Jinv%d%d' % (i, j)) for j in range(3)] for i in range(3)]
        tol = sp.Symbol('tol', positive=True)
        fobj = AbstractObj('function', {
            'F': lambda I, a, k: Vec([Fs[i](*[sp.sympify(v) for v in a[0].items]) for i in range(3)]),
            'F_prime_inv': lambda I, a, k: Vec([Vec([Js[i][j](*[sp.sympify(v) for v in a[0].items]) for j in range(3)]) for i in range(3)])})
        def thunk(run):
            I = sx.Interp(run)
            o = Obj('exactpack.solvers.nohblackboxeos.solution_tools.newton_solvers:newton_solver',
                    {'function': fobj, 'tolerance': tol, 'x_old': Vec(list(x)), 'x_new': None, 'F_x': None, 'residual': sp.Symbol('res_prev', real=True),
                     'error': sp.Symbol('err_prev', real=True), 'max_iterations': sp.Symbol('maxit', integer=True, positive=True), 'external_log_function': None})
            env = sx.Env(fv.module, None, fv)
            env.locals.update({'self': o, 'iteration_counter': sp.Integer(0), 'verbose': False, 'file': None, 'log': sx.Callable(lambda I_, a, k: None)})
            I.block(loop.body, env)
            return o
        paths = [p for p in sx.explore(thunk, hyps=[], feas=extract.default_feas) if p.outcome == 'return']
        if len(paths) != 1: raise Unsupported('loop body has %d normal paths' % len(paths))
        o = paths[0].value.attrs
        xn = [sp.sympify(v) for v in o['x_new'].items]; xo = [sp.sympify(v) for v in o['x_old'].items]
        Fx = [Fs[i](*x) for i in range(3)]
        for i in range(3):
            newton = x[i] - sum(Js[i][j](*x) * Fx[j] for j in range(3))
            O.append(core.prove_zero('%s/step:x_new%d=x_old-Jinv.F' % (base, i), xn[i] - newton, [], goal_text='x_new = x_old - F_prime_inv(x_old) . F(x_old)  (component %d)' % i))
            O.append(core.prove_zero('%s/step:x_old:=x_new%d' % (base, i), xo[i] - xn[i], [], goal_text='after the body x_old == x_new (component %d)' % i))
        O.append(core.prove_zero(base + '/step:residual=|x_new-x_old|', sp.sympify(o['residual']) ** 2 - sum((xn[i] - x[i]) ** 2 for i in range(3)), [],
                                 goal_text='residual == ||x_new - x_old_before||'))
        O.append(core.prove_zero(base + '/step:error=|F(x_new)|', sp.sympify(o['error']) ** 2 - sum(Fs[i](*xn) ** 2 for i in range(3)), [], goal_text='error == ||F(x_new)||'))
        # exit condition: loop test is  residual > tol or error > tol ; no break statements
        test = ast.unparse(loop.test).replace(' ', '')
        ok = test in ('self.residual>self.toleranceorself.error>self.tolerance', 'self.error>self.toleranceorself.residual>self.tolerance')
        nobreak = not any(isinstance(n, ast.Break) for n in ast.walk(loop))
        O.append(core.structural(base + '/exit:residual<=tol_and_error<=tol', ok and nobreak, detail='while test: %s ; break statements: %s' % (ast.unparse(loop.test), not nobreak),
                                 goal='normal exit of the loop implies residual <= tolerance and error <= tolerance'))
        # the returned solution is x_old
        rets = [n for n in ast.walk(fv.node) if isinstance(n, ast.Assign) and isinstance(n.value, ast.Dict)]
        sol_ok = any(any(isinstance(k, ast.Constant) and k.value == 'solution' and ast.unparse(v).replace(' ', '') == 'self.x_old.copy()' for k, v in zip(n.value.keys, n.value.values)) for n in rets)
        O.append(core.structural(base + '/result:solution=x_old', sol_ok, goal="result['solution'] is a copy of x_old (== x_new after >=1 iteration)"))
        # reset of residual/error on every new initial guess, so that the loop runs at least once (tolerance <= 0.01 < 10)
        sg = R.func_ref('exactpack/solvers/nohblackboxeos/solution_tools/newton_solvers.py::newton_solver.set_new_initial_guess')
        src = ast.unparse(sg.node).replace(' ', '')
        O.append(core.structural(base + '/frame:initial_guess_resets_residual_error', 'self.residual=10' in src and 'self.error=10' in src,
                                 goal='set_new_initial_guess re-initialises residual and error above any admissible tolerance'))
        for ob in O: ob.pop('cex_raw', None)
    except Unsupported as u:
        O.append(core.Obl(base + '/extraction', 'open', 'extraction', 0.0, detail='extraction: %s' % u))
    return res


def units(tier):
    us = [('eos/' + c, {'kind': 'eos', 'cls': c}) for c in EOS]
    for c, spec in RES.items():
        for m in spec['syms']: us.append(('residual/%s/%d' % (c, m), {'kind': 'res', 'cls': c, 'm': m}))
    us.append(('newton', {'kind': 'newton'}))
    return us


def run_unit(name, kind, cls=None, m=None):
    if kind == 'eos': return eos_unit(cls)
    if kind == 'res': return residual_unit(cls, m)
    return newton_unit()
