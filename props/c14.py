"""C14 - heat solutions satisfy the heat equation, boundary conditions and initial data."""
import json
import sympy as sp
from vc import core, alg, smt, extract, sx, repo as R
from vc.values import *
from contracts import heat as H
from contracts.heat import x, y, t, N, kappa, TL, TR, L, a1, b1, g1, a2, b2, g2

LEVEL = 'proof'
EXPLANATION = ("Series loops of the real code are executed once on a generic integer mode index (sum-loop schema: accumulator = sum of the recorded term; loop-carried reads other than `acc += term` are extraction failures). "
               "Obligations per solver and boundary-condition type, for a symbolic mode number: the recorded term satisfies the PDE and the homogeneous boundary operators (sin/cos at integer multiples of pi/2 by sympy's exact values), "
               "the static part satisfies the steady equation and the inhomogeneous boundary conditions, each Fourier coefficient equals the normalised projection integral of (initial profile - static part) "
               "(antiderivative obtained from sympy and certified by differentiation with the ring back end), every mode decays (k_n^2 kappa > 0) so that the finite-N sum tends to the static part / documented steady state.")
ASSUMPTIONS = ["A6 completeness of the sine/cosine eigenfunctions on (0,L): the series with these projection coefficients tends to the initial profile as t -> 0+ (cited, not machine-checked)",
               "series truncation: identities are term-wise, hence hold for every truncation order N",
               "not covered by this check: general Robin branch modes_BCgen (fsolve roots), Hutchens 2, cylindrical sandwich (Bessel series); see DESIGN.md / MANIFEST level_note"]


def run_rod(bc):
    kw = H.rod_kwargs(bc); hy = H.BCS[bc]['hyps'] + [x >= 0, x <= L]
    return extract.run_solver(H.ROD, kw, x, t, hyps=hy), hy, kw


NATIVE = r'''
import json, io, contextlib, warnings
import numpy as np
warnings.simplefilter('ignore')
from exactpack.solvers.heat.rod1d import Rod1D
par = %(par)r
with contextlib.redirect_stdout(io.StringIO()): s = Rod1D(**par)
Lr = par['L']; kap = par['kappa']
def T(x_, t_): return float(s(np.array([x_]), t_)['temperature'][0])
a1, b1, g1, a2, b2, g2 = [par[k] for k in ('alpha1', 'beta1', 'gamma1', 'alpha2', 'beta2', 'gamma2')]
h = 1e-4 * Lr; res = {}
xm, tm = 0.37 * Lr, 0.05 * Lr ** 2 / kap
ht = 1e-4 * tm
res['pde'] = abs((T(xm, tm + ht) - T(xm, tm - ht)) / (2 * ht) - kap * (T(xm + h, tm) - 2 * T(xm, tm) + T(xm - h, tm)) / h ** 2) / (abs(kap * T(xm, tm) / Lr ** 2) + 1e-9)
d0 = (-3 * T(0, tm) + 4 * T(h, tm) - T(2 * h, tm)) / (2 * h); dL = (3 * T(Lr, tm) - 4 * T(Lr - h, tm) + T(Lr - 2 * h, tm)) / (2 * h)
res['bc0'] = abs(a1 * T(0, tm) + b1 * d0 - g1) / (abs(g1) + abs(a1 * T(0, tm)) + abs(b1 * d0) + 1e-9)
res['bcL'] = abs(a2 * T(Lr, tm) + b2 * dL - g2) / (abs(g2) + abs(a2 * T(Lr, tm)) + abs(b2 * dL) + 1e-9)
t0 = 1e-5 * Lr ** 2 / kap
res['initial'] = max(abs(T(xx * Lr, t0) - (par['TL'] + (par['TR'] - par['TL']) * xx)) for xx in (0.3, 0.5, 0.7)) / (abs(par['TL']) + abs(par['TR']) + 1e-9)
print(json.dumps({'reproduced': bool(max(res.values()) > 2e-3), 'relative_residuals': res, 'parameters': par}))
'''


def native(bc, raw):
    d = H.BCS[bc]
    v = lambda s_, dflt: float(sp.sympify(raw[s_.name])) if s_.name in raw else dflt
    par = {'Nsum': 400, 'kappa': v(kappa, 0.7), 'TL': v(TL, 1.3), 'TR': v(TR, 2.1), 'L': v(L, 3.0), 'gamma1': v(g1, 0.4), 'gamma2': v(g2, 0.9)}
    for k_, s_ in (('alpha1', a1), ('beta1', b1), ('alpha2', a2), ('beta2', b2)): par[k_] = 0.0 if d[k_] == 0 else v(s_, 1.0)
    if bc == 'BC2': par['beta2'] = par['beta1']; par['gamma2'] = par['gamma1']       # the solver compares the two fluxes with exact float equality
    return NATIVE % dict(par=par)


def fin(o, bc):
    if o['status'] == 'refuted': o['replay'] = native(bc, o.get('cex_raw') or {})
    o.pop('cex_raw', None); return o


def use_equalities(e, pcs):
    """eliminate the equalities decided on the path (e.g. the guard F1 == F2 of BC2) by solving them for a boundary value"""
    e = sp.sympify(e)
    for c in pcs:
        eq = c if isinstance(c, sp.Eq) else (sp.Eq(*c.args[0].args) if isinstance(c, sp.Not) and isinstance(c.args[0], sp.Ne) else None)
        if eq is None: continue
        for v in (g2, g1):
            if eq.has(v):
                sol = sp.solve(eq, v)
                if len(sol) == 1: e = e.subs(v, sol[0]); break
    return e


def rod_unit(bc):
    res = {'obligations': [], 'functions': [], 'engine_errors': []}
    O = res['obligations']; base = 'C14/rod1d/%s' % bc
    for m in ('__init__', '_run', 'modes_' + bc):
        fv = R.find_method(H.ROD, m); res['functions'].append({'ref': 'exactpack/solvers/heat/rod1d.py::' + fv.name, 'sha256_16': R.source_hash(fv)})
    try:
        paths, hy, kw = run_rod(bc)
    except Unsupported as u:
        O.append(core.Obl(base + '/extraction', 'open', 'extraction', 0.0, detail='extraction: %s' % u)); return res
    d = H.BCS[bc]; A1, B1, A2, B2 = d['alpha1'], d['beta1'], d['alpha2'], d['beta2']
    n = sp.Symbol('n_idx0', integer=True, nonnegative=True)
    T0 = TL + (TR - TL) * x / L
    rets = [p for p in paths if p.outcome == 'return']
    if not rets: O.append(core.Obl(base + '/paths', 'open', 'extraction', 0.0, detail='no returning path')); return res
    for i, p in enumerate(rets):
        sums = getattr(p.run, 'sums', [])
        if len(sums) != 1: O.append(core.Obl('%s/path%d/sum_schema' % (base, i), 'open', 'extraction', 0.0, detail='%d accumulations' % len(sums))); continue
        term = use_equalities(sums[0]['term'], p.pc); Tfull = use_equalities(p.value.field('temperature'), p.pc); static = Tfull - sums[0]['symbol']
        h = hy + list(p.pc); tag = '%s/path%d' % (base, i)
        if any(c == sp.Eq(n, 0) for c in p.pc): term = term.subs(n, 0)
        _pz = core.prove_zero
        class _C:      # every equality obligation of this path is taken modulo the equalities decided on the path
            @staticmethod
            def prove_zero(nm, e, hh, **k2):
                # equalities between boundary values have been eliminated from the expression: they are no longer sampling constraints
                hh2 = [c for c in hh if not ((isinstance(c, sp.Eq) or (isinstance(c, sp.Not) and isinstance(c.args[0], sp.Ne))) and c.has(g1, g2))]
                return _pz(nm, use_equalities(e, p.pc), hh2, **k2)
            prove_valid = staticmethod(core.prove_valid); structural = staticmethod(core.structural); Obl = core.Obl
        core_ = _C
        if static.has(sums[0]['symbol']): O.append(core.Obl(tag + '/linear_in_sum', 'refuted', 'structural', 0.0, goal='temperature = sum + static part', cex=None)); continue
        O.append(fin(core_.prove_zero(tag + '/term:pde', sp.diff(term, t) - kappa * sp.diff(term, x, 2), h, goal_text='d/dt term_n == kappa d2/dx2 term_n (symbolic mode number)'), bc))
        O.append(fin(core_.prove_zero(tag + '/term:bc0', A1 * term.subs(x, 0) + B1 * sp.diff(term, x).subs(x, 0), h, goal_text='alpha1 X_n(0) + beta1 dX_n(0) == 0'), bc))
        O.append(fin(core_.prove_zero(tag + '/term:bcL', A2 * term.subs(x, L) + B2 * sp.diff(term, x).subs(x, L), h, goal_text='alpha2 X_n(L) + beta2 dX_n(L) == 0'), bc))
        O.append(fin(core_.prove_zero(tag + '/static:steady', sp.diff(static, x, 2), h, goal_text='static part satisfies the steady equation'), bc))
        O.append(fin(core_.prove_zero(tag + '/static:bc0', A1 * static.subs(x, 0) + B1 * sp.diff(static, x).subs(x, 0) - g1, h, goal_text='alpha1 S(0) + beta1 dS(0) == gamma1'), bc))
        O.append(fin(core_.prove_zero(tag + '/static:bcL', A2 * static.subs(x, L) + B2 * sp.diff(static, x).subs(x, L) - g2, h, goal_text='alpha2 S(L) + beta2 dS(L) == gamma2'), bc))
        # Fourier coefficient = normalised projection of (initial profile - static part) on the spatial mode
        X = term.subs(t, 0)
        kn = sp.pi * n / L if bc in ('BC1', 'BC2') else (2 * n + 1) * sp.pi / (2 * L)
        mode = sp.sin(kn * x) if bc in ('BC1', 'BC3') else sp.cos(kn * x)
        f0 = T0 - static
        integrand = f0 * mode
        zero_mode = any(c == sp.Eq(n, 0) for c in p.pc)
        if not zero_mode and bc in ('BC1', 'BC2'):
            # non-zero mode number: integrate with a strictly positive integer (no degenerate Piecewise branch), then rename
            m_ = sp.Symbol('m_pos', integer=True, positive=True)
            F = sp.integrate(integrand.subs(n, m_), x).subs(m_, n)
        else:
            F = sp.integrate(integrand, x)
        cert = (not F.has(sp.Piecewise)) and alg.is_zero(sp.diff(F, x) - integrand, h)[0]
        if zero_mode: F = sp.integrate(f0 * mode.subs(n, 0), x); cert = alg.is_zero(sp.diff(F, x) - f0 * mode.subs(n, 0), h)[0]
        norm = L if (zero_mode and bc == 'BC2') else L / 2
        coeff = (F.subs(x, L) - F.subs(x, 0)) / norm
        target = coeff * (mode.subs(n, 0) if zero_mode else mode)
        O.append(core.structural(tag + '/coefficient:antiderivative_certified', bool(cert), goal='d/dx (sympy antiderivative) == (T(x,0) - S(x)) X_n(x)', backend='ring-mod-laws(sympy)'))
        if zero_mode and bc in ('BC1',):
            O.append(fin(core_.prove_zero(tag + '/coefficient:projection', X, h, goal_text='the n=0 sine mode contributes nothing'), bc))
        else:
            O.append(fin(core_.prove_zero(tag + '/coefficient:projection', X - target, h, goal_text='term_n(x,0) == [(1/N_n) int_0^L (T(x,0)-S(x)) X_n dx] X_n(x)'), bc))
        # decay of every non-constant mode
        if not zero_mode or bc in ('BC3', 'BC4'):
            O.append(fin(core.prove_valid(tag + '/decay:kappa*k_n^2>0', h + [n >= (1 if bc in ('BC1', 'BC2') else 0)], kappa * kn ** 2 > 0, goal_text='every non-constant mode decays: finite-N sum -> static part as t -> infinity'), bc))
            ex = sp.diff(sp.log(sp.exp(-kappa * kn ** 2 * t)), t) + kappa * kn ** 2
            O.append(fin(core_.prove_zero(tag + '/decay:rate', sp.diff(term, t) + kappa * kn ** 2 * term, h, goal_text='d/dt term_n == -kappa k_n^2 term_n with the documented k_n'), bc))
    return res


# ------------------------------------------------------------------------------------------------ sandwiches -> rod parameter maps (also used by C07)


def sandwich_unit(name):
    """the sandwich constructor maps its documented boundary values onto the rod parameters of the matching boundary-condition type"""
    res = {'obligations': [], 'functions': [], 'engine_errors': []}
    O = res['obligations']
    spec = {'PlanarSandwich': ('exactpack.solvers.heat.planar_sandwich:PlanarSandwich', {'TB': 'gamma1', 'TT': 'gamma2'}, dict(alpha1=1, beta1=0, alpha2=1, beta2=0)),
            'PlanarSandwichHot': ('exactpack.solvers.heat.planar_sandwich_hot:PlanarSandwichHot', {'F': 'gamma1', 'F ': 'gamma2'}, dict(alpha1=0, beta1=1, alpha2=0, beta2=1)),
            'PlanarSandwichHalf': ('exactpack.solvers.heat.planar_sandwich_half:PlanarSandwichHalf', {'TB': 'gamma1', 'FT': 'gamma2'}, dict(alpha1=1, beta1=0, alpha2=0, beta2=1))}[name]
    cls, pmap, bcpat = spec
    base = 'C14/sandwich/%s' % name
    syms = {k.strip(): sp.Symbol('v_' + k.strip(), real=True) for k in pmap}
    ct = R.class_table()['classes'][cls]
    kw = dict(syms)
    for pnm in ('TL', 'TR', 'L', 'kappa'):
        if pnm in (ct['parameters'] or []): kw[pnm] = sp.Symbol('v_' + pnm, positive=(pnm in ('L', 'kappa')), real=True)
    kw['Nsum'] = N
    try:
        ps = extract.run_ctor(cls, kw)
    except Unsupported as u:
        O.append(core.Obl(base + '/extraction', 'open', 'extraction', 0.0, detail=str(u))); return res
    fv = R.find_method(cls, '__init__'); res['functions'].append({'ref': '%s::%s' % (fv.module.path.replace(R.REPO + '/', ''), fv.name), 'sha256_16': R.source_hash(fv)})
    rets = [p for p in ps if p.outcome == 'return']
    if not rets: O.append(core.Obl(base + '/paths', 'refuted', 'path-analysis', 0.0, goal='constructor accepts its documented parameters', cex=None)); return res
    for i, p in enumerate(rets):
        o = p.value
        I = sx.Interp(p.run)
        for k_, tgt in pmap.items():
            got = I.getattr(o, tgt)
            ob = core.prove_zero('%s/path%d/%s->%s' % (base, i, k_.strip(), tgt), sp.sympify(got) - syms[k_.strip()], list(p.pc), goal_text='rod parameter %s == sandwich parameter %s' % (tgt, k_.strip()))
            if ob['status'] == 'refuted':
                ob['replay'] = SW_NATIVE % dict(mod=cls.split(':')[0], cls=cls.split(':')[1], key=k_.strip(), tgt=tgt)
            ob.pop('cex_raw', None); O.append(ob)
        for k_, v_ in bcpat.items():
            got = I.getattr(o, k_)
            O.append(core.structural('%s/path%d/bc_type:%s=%s' % (base, i, k_, v_), sp.sympify(got) == v_, goal='the sandwich selects the documented boundary-condition type', detail=str(got)))
        for pnm in ('TL', 'TR', 'L', 'kappa'):
            if pnm in kw:
                O.append(core.structural('%s/path%d/pass_through:%s' % (base, i, pnm), I.getattr(o, pnm) == kw[pnm], goal='%s is passed through to the rod unchanged' % pnm))
    return res


SW_NATIVE = r'''
import json, io, contextlib, importlib
C = getattr(importlib.import_module(%(mod)r), %(cls)r)
with contextlib.redirect_stdout(io.StringIO()): s = C(**{%(key)r: 0.7391})
print(json.dumps({'reproduced': bool(abs(getattr(s, %(tgt)r) - 0.7391) > 1e-12), 'passed': {%(key)r: 0.7391}, 'rod_parameter': %(tgt)r, 'observed': float(getattr(s, %(tgt)r))}))
'''


# ------------------------------------------------------------------------------------------------ rectangle, Hutchens 1
def rect_unit():
    res = {'obligations': [], 'functions': [], 'engine_errors': []}
    O = res['obligations']; cls = 'exactpack.solvers.heat.rectangle:Rectangle'; base = 'C14/rectangle'
    a = sp.Symbol('a', positive=True); b = sp.Symbol('b', positive=True); Tt = sp.Symbol('Ttop', real=True)
    fv = R.find_method(cls, '_run'); res['functions'].append({'ref': 'exactpack/solvers/heat/rectangle.py::Rectangle._run', 'sha256_16': R.source_hash(fv)})
    def thunk(run):
        I = sx.Interp(run)
        o = I.instantiate(ClassRef(cls), [], {'kappa': kappa, 'Nsum': N, 'a': a, 'b': b, 'Ttop': Tt, 'NonHomogeneousOnly': False})
        return I.apply(I.getattr(o, '_run'), [Vec([Arr(x), Arr(y)]), t], {})
    try:
        ps = [p for p in sx.explore(thunk, hyps=[], feas=extract.default_feas) if p.outcome == 'return']
    except Unsupported as u:
        O.append(core.Obl(base + '/extraction', 'open', 'extraction', 0.0, detail=str(u))); return res
    for i, p in enumerate(ps):
        for s_ in getattr(p.run, 'sums', []):
            term = sp.sympify(s_['term']); tag = '%s/path%d/%s' % (base, i, s_['var'])
            h = list(p.pc)
            if s_['var'] == 'temperature':
                o = core.prove_zero(tag + '/term:pde', sp.diff(term, t) - kappa * (sp.diff(term, x, 2) + sp.diff(term, y, 2)), h, goal_text='transient term: d/dt == kappa (d2/dx2 + d2/dy2)')
                if o['status'] == 'refuted': o['replay'] = RECT_NATIVE
                o.pop('cex_raw', None); O.append(o)
                for nm, e in (('y=0', term.subs(y, 0)), ('y=b', term.subs(y, b)), ('x=0', term.subs(x, 0)), ('x=a', term.subs(x, a))):
                    oo = core.prove_zero('%s/term:edge_%s' % (tag, nm), e, h, goal_text='transient term vanishes on the edge %s' % nm); oo.pop('cex_raw', None); O.append(oo)
            else:
                oo = core.prove_zero(tag + '/static:laplace', sp.diff(term, x, 2) + sp.diff(term, y, 2), h, goal_text='static term is harmonic'); oo.pop('cex_raw', None); O.append(oo)
                for nm, e in (('y=0', term.subs(y, 0)), ('x=0', term.subs(x, 0)), ('x=a', term.subs(x, a))):
                    oo = core.prove_zero('%s/static:edge_%s' % (tag, nm), e, h, goal_text='static term vanishes on the edge %s' % nm); oo.pop('cex_raw', None); O.append(oo)
    # coefficients: the static series takes the value Ttop on the edge y = b; the transient series is minus the static part at t = 0 (initial condition T = 0)
    try:
        for i, p in enumerate(ps):
            sums = {s_['var']: s_ for s_ in getattr(p.run, 'sums', [])}
            if 'tempnonhom' not in sums or 'temperature' not in sums: continue
            st = sp.sympify(sums['tempnonhom']['term']); tr = sp.sympify(sums['temperature']['term'])
            n0 = sums['tempnonhom']['loops'][0][0]; (na, _), (nb, _) = sums['temperature']['loops'][:2]
            q_ = sp.Symbol('q_pos', integer=True, positive=True)
            top = st.subs(y, b).subs(n0, q_)                                   # coefficient(q) sin(q pi x / a)
            proj = sp.simplify(2 / a * sp.integrate(Tt * sp.sin(q_ * sp.pi * x / a), (x, 0, a)))
            oo = core.prove_zero('%s/path%d/static:coefficient' % (base, i), top - proj * sp.sin(q_ * sp.pi * x / a), list(p.pc), goal_text='static term on y = b == [(2/a) int_0^a Ttop sin(q pi x/a) dx] sin(q pi x/a): the series takes the value Ttop on the top edge', extra_syms={q_})
            if oo['status'] == 'refuted': oo['replay'] = RECT_INIT_NATIVE
            oo.pop('cex_raw', None); O.append(oo)
            # transient: A_(n,m) sin(kn x) sin(km y) == -(2/b) [int_0^b S_q(y) sin(km y) dy] sin(kn x) with q = 2 n + 1 and S_q(y) sin(kn x) the static term
            m_ = sp.Symbol('m_pos', integer=True, positive=True); nn = sp.Symbol('n_nn', integer=True, nonnegative=True)
            stq = st.subs(n0, 2 * nn + 1)
            Sy = sp.simplify(stq / sp.sin((2 * nn + 1) * sp.pi * x / a))
            kx = (2 * nn + 1) * sp.pi / a; ky = m_ * sp.pi / b
            amp = sp.simplify(Sy / sp.sinh(kx * y))                                   # S_q(y) = amp * sinh(kx y)
            Fy = (kx * sp.cosh(kx * y) * sp.sin(ky * y) - ky * sp.sinh(kx * y) * sp.cos(ky * y)) / (kx ** 2 + ky ** 2)      # antiderivative of sinh(kx y) sin(ky y), certified below
            cert = alg.is_zero(sp.diff(Fy, y) - sp.sinh(kx * y) * sp.sin(ky * y), list(p.pc))[0] and not amp.has(y)
            O.append(core.structural('%s/path%d/transient:antiderivative_certified' % (base, i), bool(cert), goal='d/dy [(k cosh(ky) sin(K y) - K sinh(ky) cos(K y))/(k^2 + K^2)] == sinh(k y) sin(K y) and the static term is amp * sinh(k y)', backend='ring-mod-laws(sympy)'))
            Iy = amp * (Fy.subs(y, b) - Fy.subs(y, 0))
            want = -(2 / b) * Iy * sp.sin((2 * nn + 1) * sp.pi * x / a) * sp.sin(m_ * sp.pi * y / b)
            got = tr.subs(t, 0).subs({na: nn, nb: m_})
            oo = core.prove_zero('%s/path%d/transient:coefficient' % (base, i), got - want, list(p.pc), goal_text='transient term at t = 0 == -(projection of the static term on sin(km y)): the documented initial condition T(x, y, 0) = 0', extra_syms={m_, nn})
            if oo['status'] == 'refuted': oo['replay'] = RECT_INIT_NATIVE
            oo.pop('cex_raw', None); O.append(oo)
    except Exception as e_:
        O.append(core.Obl(base + '/coefficients', 'open', 'extraction', 0.0, detail=str(e_)[:300]))
    if not ps: O.append(core.Obl(base + '/paths', 'open', 'extraction', 0.0, detail='no returning path'))
    return res


RECT_INIT_NATIVE = r"""
import json, io, contextlib
import numpy as np
from exactpack.solvers.heat.rectangle import Rectangle
out = {}
for (a_, b_) in ((2.0, 2.0), (3.0, 2.0), (1.0, 2.5)):
    with contextlib.redirect_stdout(io.StringIO()): s = Rectangle(Nsum=60, a=a_, b=b_, Ttop=1.0)
    with contextlib.redirect_stdout(io.StringIO()): out['a=%s b=%s' % (a_, b_)] = [float(s([np.array([xx * a_]), np.array([yy * b_])], 1e-4)['temperature'][0]) for (xx, yy) in ((0.5, 0.4), (0.3, 0.6))]
print(json.dumps({'reproduced': bool(max(abs(q) for v in out.values() for q in v) > 0.02), 'T(x, y, t=1e-4) at interior points (documented initial condition 0)': out}))
"""


RECT_NATIVE = r'''
import json, io, contextlib
import numpy as np
from exactpack.solvers.heat.rectangle import Rectangle
worst = 0.0
for kap in (1.0, 0.5, 3.0):
    with contextlib.redirect_stdout(io.StringIO()): s = Rectangle(kappa=kap, Nsum=12, a=2.0, b=1.5)
    def T(x_, y_, t_): return float(s([np.array([x_]), np.array([y_])], t_)['temperature'][0])
    x0, y0, t0, h, ht = 0.83, 0.61, 0.2 / kap, 1e-3, 1e-5
    lhs = (T(x0, y0, t0 + ht) - T(x0, y0, t0 - ht)) / (2 * ht)
    rhs = kap * ((T(x0 + h, y0, t0) - 2 * T(x0, y0, t0) + T(x0 - h, y0, t0)) / h ** 2 + (T(x0, y0 + h, t0) - 2 * T(x0, y0, t0) + T(x0, y0 - h, t0)) / h ** 2)
    worst = max(worst, abs(lhs - rhs) / (abs(lhs) + abs(rhs) + 1e-12))
print(json.dumps({'reproduced': bool(worst > 1e-3), 'worst_relative_pde_residual': worst, 'kappas': [1.0, 0.5, 3.0]}))
'''


def hutchens1_unit():
    res = {'obligations': [], 'functions': [], 'engine_errors': []}
    O = res['obligations']; cls = 'exactpack.solvers.heat.hutchens1:Hutchens1'; base = 'C14/hutchens1'
    k_, cp, rho, Tb, T0, b = sp.Symbol('k', positive=True), sp.Symbol('cp', positive=True), sp.Symbol('rho', positive=True), sp.Symbol('Tb', real=True), sp.Symbol('T0', real=True), sp.Symbol('b', positive=True)
    r = sp.Symbol('r', nonnegative=True)
    fv = R.find_method(cls, '_run'); res['functions'].append({'ref': 'exactpack/solvers/heat/hutchens1.py::Hutchens1._run', 'sha256_16': R.source_hash(fv)})
    try:
        ps = extract.run_solver(cls, {'k': k_, 'cp': cp, 'rho': rho, 'Tb': Tb, 'T0': T0, 'Nsum': N, 'b': b}, r, t, hyps=[r <= b])
    except Unsupported as u:
        O.append(core.Obl(base + '/extraction', 'open', 'extraction', 0.0, detail=str(u))); return res
    al = k_ / (rho * cp); r0_value = None; nz = None; r0_uses_series = False; r0_tag = base
    for i, p in enumerate([q for q in ps if q.outcome == 'return']):
        sums = getattr(p.run, 'sums', []); tag = '%s/path%d' % (base, i); h = [r <= b] + list(p.pc)
        Tf = sp.sympify(p.value.field('temperature'))
        if any(c == sp.Eq(r, 0) for c in p.pc):
            # value at the coordinate singularity: limit of the series as r -> 0 is term-wise (sin(z)/z -> 1): -1 stands for sum (-1)^n 2 exp(...) only at t -> 0+ ... checked as stated in the property
            nn = sp.Symbol('n_idx0', integer=True, nonnegative=True)
            r0_value = Tf; r0_uses_series = any(Tf.has(s_['symbol']) for s_ in sums); r0_tag = tag
            continue
        if len(sums) != 1: O.append(core.Obl(tag + '/sum_schema', 'open', 'extraction', 0.0, detail='%d accumulations' % len(sums))); continue
        term = sp.sympify(sums[0]['term']); S_ = sums[0]['symbol']
        scale = sp.diff(Tf, S_); static = sp.simplify(Tf - scale * S_)
        full_term = scale * term
        O.append(core.prove_zero(tag + '/term:pde', sp.diff(full_term, t) - al * (sp.diff(full_term, r, 2) + 2 * sp.diff(full_term, r) / r), h + [r > 0], goal_text='d/dt term == alpha (d2/dr2 + (2/r) d/dr) term, alpha = k/(rho cp)'))
        O.append(core.prove_zero(tag + '/term:bc_r=b', full_term.subs(r, b), h, goal_text='every term vanishes at r = b, so T(b,t) = static part'))
        O.append(core.prove_zero(tag + '/static:T(b)=Tb', static - Tb, h, goal_text='static part == Tb (boundary value and steady state)'))
        nz = (full_term, static)
    # the centre r = 0: the value returned there must be the limit of the series (term-wise sin(z)/z -> 1), for every t > 0
    try:
        if r0_value is not None and nz is not None:
            lim = sp.limit(nz[0], r, 0)
            ok = r0_uses_series and sp.simplify(lim) != 0
            O.append(core.structural(r0_tag + '/r=0:value_is_limit_of_series', bool(ok), 'term-wise limit of the series at r -> 0: %s ; value returned at r = 0: %s (%s)' % (core.short(lim, 120), core.short(r0_value, 60), 'uses the series' if r0_uses_series else 'does not use the series'),
                                     H1_CENTRE_NATIVE, 'path-analysis', 'T(0, t) == lim_{r->0} T(r, t) for t > 0: the value at the centre is given by the series with sin(k r)/(k r) -> 1'))
    except NameError:
        pass
    for o in O: o.pop('cex_raw', None)
    return res


H1_CENTRE_NATIVE = r"""
import json, io, contextlib, warnings
import numpy as np
warnings.simplefilter('ignore')
from exactpack.solvers.heat import Hutchens1
with contextlib.redirect_stdout(io.StringIO()): s = Hutchens1()
out = {}
for t0 in (0.1, 1.0, 3.0):
    with contextlib.redirect_stdout(io.StringIO()): v = s(np.array([0.0, 1e-6, 1e-3]), t0)['temperature']
    out['t=%s: T(0), T(1e-6), T(1e-3)' % t0] = [float(q) for q in v]
bad = any(abs(v[0] - v[1]) > 1e-3 * max(abs(v[1]), 1e-9) for v in out.values())
print(json.dumps(dict(out, reproduced=bool(bad))))
"""


ROBIN_NATIVE = r"""
import json, io, contextlib, warnings
import numpy as np
warnings.simplefilter('ignore')
from exactpack.solvers.heat import Rod1D
out = {}
for name, kw in %(cases)r:
    with contextlib.redirect_stdout(io.StringIO()): s = Rod1D(**kw)
    L = kw['L']; k = kw['kappa']
    def T(x, t):
        with contextlib.redirect_stdout(io.StringIO()): return float(s(np.array([x]), t)['temperature'][0])
    h = 1e-3; x0 = 0.35 * L; t0 = 0.1 * L ** 2 / k; ht = 1e-4 * t0
    pde = (T(x0, t0 + ht) - T(x0, t0 - ht)) / (2 * ht) - k * (T(x0 + h, t0) - 2 * T(x0, t0) + T(x0 - h, t0)) / h ** 2
    d0 = (-3 * T(0, t0) + 4 * T(h, t0) - T(2 * h, t0)) / (2 * h); dL = (3 * T(L, t0) - 4 * T(L - h, t0) + T(L - 2 * h, t0)) / (2 * h)
    bc0 = kw['alpha1'] * T(0, t0) + kw['beta1'] * d0 - kw['gamma1']; bcL = kw['alpha2'] * T(L, t0) + kw['beta2'] * dL - kw['gamma2']
    init = max(abs(T(xx * L, 1e-6 * L ** 2 / k) - (kw['TL'] + (kw['TR'] - kw['TL']) * xx)) for xx in (0.3, 0.5, 0.7))
    vals = {'pde': pde, 'bc0': bc0, 'bcL': bcL, 'initial': init}
    bad = {q: (None if v != v else float(v)) for q, v in vals.items() if v != v or abs(v) > 2e-2}
    out[name] = bad
print(json.dumps({'reproduced': any(out.values()), 'residuals above 2e-2 (None = NaN)': out}))
"""


def robin_unit(tier):
    """bounded: the general Robin branch of Rod1D (modes_BCgen: eigenvalues from fsolve) on the real solver"""
    from vc import native
    cases = [('all_four_nonzero', dict(alpha1=1.0, beta1=0.5, gamma1=1.0, alpha2=1.0, beta2=-0.7, gamma2=2.0, TL=3.0, TR=4.0, L=2.0, kappa=0.7, Nsum=200)),
             ('alpha1=0', dict(alpha1=0.0, beta1=1.0, gamma1=0.5, alpha2=1.0, beta2=0.5, gamma2=1.0, TL=3.0, TR=4.0, L=2.0, kappa=0.7, Nsum=200))]
    res = {'obligations': [], 'functions': [], 'engine_errors': [], 'bounded': []}
    for nm, kw in cases:
        script = ROBIN_NATIVE % dict(cases=[(nm, kw)])
        r_ = native.run_script(script, timeout=600); rr = r_.get('result')
        if rr is None: res['engine_errors'].append('bounded Robin check %s did not run: %s' % (nm, (r_.get('stderr_tail') or '')[-200:])); continue
        res['bounded'].append({'name': 'C14/bounded/rod1d:BCgen/%s' % nm, 'status': 'fail' if rr['reproduced'] else 'pass', 'evaluations': 12, 'bound': 'Rod1D(%s): PDE by finite differences at one point, both boundary operators, initial profile at three points' % kw,
                               'tolerance': '2e-2', 'detail': json.dumps(rr)[:300], 'replay': script if rr['reproduced'] else None})
    return res


def units(tier):
    return [('rod1d/' + bc, {'kind': 'rod', 'bc': bc}) for bc in H.BCS] + [('sandwich/' + n_, {'kind': 'sw', 'sname': n_}) for n_ in ('PlanarSandwich', 'PlanarSandwichHot', 'PlanarSandwichHalf')] + \
        [('rectangle', {'kind': 'rect'}), ('hutchens1', {'kind': 'h1'}), ('cylsandwich', {'kind': 'cyl'}), ('hutchens2', {'kind': 'h2'}), ('rod1d/BCgen', {'kind': 'robin', 'tier': tier})]


def run_unit(name, kind, bc=None, **kw):
    if kind == 'rod': return rod_unit(bc)
    if kind == 'sw': return sandwich_unit(kw['sname'])
    if kind == 'rect': return rect_unit()
    if kind == 'robin': return robin_unit(kw.get('tier', 'quick'))
    if kind == 'h2':
        from props import hutchens2_kit
        return hutchens2_kit.unit()
    if kind == 'cyl':
        from props import cylsandwich_kit
        return cylsandwich_kit.unit()
    return hutchens1_unit()
