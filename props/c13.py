"""C13 - burn times are causal first-arrival times of a front moving at speed D."""
import sympy as sp
from vc import core, propkit, alg, smt, extract, solverkit
from vc.values import *
from contracts import burn
from contracts.burn import x, y, z, R, D, D1, D2, td, xd, zs, ts, r1, r2, DC1, DC2, al1, al2

LEVEL = 'proof'
EXPLANATION = ("Per solver, geometry and path of the real _run: eikonal identity |grad bt|^2 = 1/D_local^2 (DSD: = 1/(D_CJ-alpha/r)^2), bt >= detonation time, value at each detonator, "
               "agreement of the one-sided expressions on interfaces/shadow boundary, Kenamond 2 value == documented min/max formula with each active piece in its own material, and independence of t.")
ASSUMPTIONS = ["A6 cited lemma: a function that is piecewise C1 with |grad|=1/D on each piece and continuous across the pieces is 1/D-Lipschitz along straight paths inside one explosive",
               "Kenamond 3: theta=0 (shadow boundary) is equivalent to p.d = R^2 - l_da*l_bp (arccos addition law, A3); points on the line through origin and detonator are excluded (measure zero)",
               "Kenamond 2 detonator values are proved under the precondition that no detonator is swept by another detonator's wave before it fires (the constructor enforces only the documented lower bound)",
               "DSD: r_1 > alpha_1/D_CJ_1 and r_2 > alpha_2/D_CJ_2 are preconditions (positive local speed); that the constructor does not enforce them is a C20 matter"]


def grad2(bt, vars_):
    return sum(sp.diff(bt, v) ** 2 for v in vars_)


def bt_of(p):
    return sp.sympify(p.value.field('burntime'))


def mk_replay(sc, case, F, res, label, tol=1e-4):
    return lambda raw: propkit.replay_script(sc, case, res, F, propkit.sym_point(sc, raw), label, tol=tol)


def eik_residual(sc, Dloc2inv):
    F = propkit.Fields(['burntime'], list(sc.pos) + [sc.t])
    res = sum(sp.diff(F['burntime'], v) ** 2 for v in sc.pos) - Dloc2inv
    return F, res


def point_paths(sc, case, point):
    return extract.run_solver(sc.cls, sc.kwargs(case), list(point), sc.t, hyps=sc.all_hyps(case))


def k1_unit(sc, case, tier):
    def per_path(sc, case, i, p, base):
        out = []; bt = bt_of(p); hyps = sc.all_hyps(case) + list(p.pc); n = len(sc.pos)
        F, res = eik_residual(sc, 1 / D ** 2)
        o = core.prove_zero('C13/%s/eikonal' % base, grad2(bt, sc.pos) - 1 / D ** 2, hyps, goal_text='|grad bt|^2 == 1/D^2', extra_syms=sc.symbols())
        out.append(propkit.finish(o, mk_replay(sc, case, F, res, 'eikonal |grad bt|^2 = 1/D^2')))
        F0 = propkit.Fields(['burntime'], list(sc.pos) + [sc.t])
        o = core.prove_valid('C13/%s/causal:bt>=t_d' % base, hyps, bt - td >= 0, goal_text='bt >= t_d')
        out.append(propkit.finish(o, None))
        out.append(core.structural('C13/%s/frame:t_ignored' % base, sc.t not in bt.free_symbols, goal='burn time does not depend on the time argument'))
        return out
    res = propkit.solver_unit(sc, case, per_path, tier)
    # value at the detonator
    n = len(sc.pos)
    for j, p in enumerate(point_paths(sc, case, xd[:n])):
        if p.outcome != 'return': continue
        res['obligations'].append(core.prove_zero('C13/%s/%s/detonator:bt(x_d)=t_d/path%d' % (sc.key, sc.case_name(case), j), bt_of(p) - td, sc.all_hyps(case) + list(p.pc), goal_text='bt(x_d) == t_d'))
    return res


def k2_pieces(n):
    """documented candidate arrival times (module docstring of kenamond2.py)"""
    pt = [x, y, z][:n]
    def dist(a):
        return sp.sqrt(sum(c ** 2 for c in pt[:-1]) + (pt[-1] - a) ** 2)
    d3 = sp.sqrt(sum(c ** 2 for c in pt))
    return {'t1': ts[0] + dist(zs[0]) / D2, 't2': ts[1] + dist(zs[1]) / D2, 't3': ts[2] + d3 / D1,
            't4': ts[2] + d3 / D2 + R * (1 / D1 - 1 / D2), 't5': ts[3] + dist(zs[2]) / D2, 't6': ts[4] + dist(zs[3]) / D2}, d3


def k2_unit(sc, case, tier):
    n = len(sc.pos); pieces, d3 = k2_pieces(n)
    spec = sp.Min(pieces['t1'], pieces['t2'], sp.Max(pieces['t3'], pieces['t4']), pieces['t5'], pieces['t6'])
    p2 = sum(c ** 2 for c in sc.pos)
    seen = {}
    def per_path(sc, case, i, p, base):
        out = []; bt = bt_of(p); hyps = sc.all_hyps(case) + list(p.pc)
        active = None
        for nm, e in pieces.items():
            if sp.simplify(bt - e) == 0 or alg.is_zero(bt - e, hyps)[0]: active = nm; break
        if active is None:
            out.append(core.Obl('C13/%s/piece' % base, 'refuted', 'ring', 0.0, goal='returned value is one of the documented arrival-time pieces t1..t6', detail='bt = %s' % core.short(bt, 200), cex=None))
            return out
        out.append(core.structural('C13/%s/piece' % base, True, goal='returned value is the documented piece %s' % active, backend='ring-mod-laws(sympy)'))
        F0 = propkit.Fields(['burntime'], list(sc.pos) + [sc.t])
        # the path conditions are comparisons between the piece values themselves: abstract each documented piece by a symbol (congruence)
        ab = {e: sp.Symbol('T_' + nm, real=True) for nm, e in pieces.items()}
        pcs = [c.subs(ab) for c in p.pc]; bts = bt.subs(ab)
        if not any(c.has(sp.sqrt(2).func) and any(isinstance(q, sp.Pow) and q.exp == sp.Rational(1, 2) for q in sp.preorder_traversal(c)) for c in pcs + [bts]):
            o = core.prove_valid('C13/%s/value=min_max_formula' % base, pcs, sp.Eq(bts, spec.subs(ab)), goal_text='bt == min(t1,t2,max(t3,t4),t5,t6)')
        else:
            o = core.prove_valid('C13/%s/value=min_max_formula' % base, hyps, sp.Eq(bt, spec), goal_text='bt == min(t1,t2,max(t3,t4),t5,t6)')
        out.append(propkit.finish(o, lambda raw: propkit.replay_script(sc, case, F0['burntime'] - spec, F0, propkit.sym_point(sc, raw), 'bt == min(t1,t2,max(t3,t4),t5,t6)', tol=1e-9)))
        Dloc = D1 if active == 't3' else D2
        F, res = eik_residual(sc, 1 / Dloc ** 2)
        o = core.prove_zero('C13/%s/eikonal' % base, grad2(bt, sc.pos) - 1 / Dloc ** 2, hyps, goal_text='|grad bt|^2 == 1/%s^2 (active piece %s)' % (Dloc, active), extra_syms=sc.symbols())
        out.append(propkit.finish(o, mk_replay(sc, case, F, res, 'eikonal with the speed of the local material')))
        # the active piece travels in its own material: t3 only inside the inner sphere, every other piece only outside
        lemma = []
        if active not in ('t3', 't4'):
            a = {'t1': zs[0], 't2': zs[1], 't5': zs[2], 't6': zs[3]}[active]
            di = sp.sqrt(sum(c ** 2 for c in sc.pos[:-1]) + (sc.pos[-1] - a) ** 2)
            lemma = [di + d3 >= sp.Abs(a)]      # triangle inequality (discharged separately below)
        goal = (p2 <= R ** 2) if active == 't3' else (p2 >= R ** 2)
        o = core.prove_valid('C13/%s/material:%s' % (base, active), hyps + lemma + [D1 > D2], goal, goal_text='piece %s active => point in %s explosive' % (active, 'inner' if active == 't3' else 'outer'))
        out.append(propkit.finish(o, None))
        tj = {'t1': ts[0], 't2': ts[1], 't3': ts[2], 't4': ts[2], 't5': ts[3], 't6': ts[4]}[active]
        out.append(propkit.finish(core.prove_valid('C13/%s/causal:bt>=t_d' % base, hyps, bt - tj >= 0, goal_text='bt >= detonation time of the initiating detonator'), None))
        out.append(core.structural('C13/%s/frame:t_ignored' % base, sc.t not in bt.free_symbols, goal='burn time does not depend on the time argument'))
        return out
    res = propkit.solver_unit(sc, case, per_path, tier)
    O = res['obligations']; base = 'C13/%s/%s' % (sc.key, sc.case_name(case))
    # lemma: triangle inequality used above
    a = sp.Symbol('a_det', real=True)
    di = sp.sqrt(sum(c ** 2 for c in sc.pos[:-1]) + (sc.pos[-1] - a) ** 2)
    O.append(core.prove_valid(base + '/lemma:triangle', [], di + d3 >= sp.Abs(a), goal_text='|p - a e_axis| + |p| >= |a|'))
    # continuity of max(t3,t4) across |p| = R
    s_ = sp.Symbol('s_dist', positive=True)
    O.append(core.prove_zero(base + '/continuity:|p|=R', (pieces['t3'] - pieces['t4']).subs(d3, s_).subs(s_, R), [], goal_text='t3 == t4 on |p| = R'))
    # value at each detonator, assuming no detonator is pre-empted
    detpos = [zs[0], zs[1], sp.Integer(0), zs[2], zs[3]]
    noswept = []
    for i in range(5):
        for j in range(5):
            if i != j:
                if j == 2:   # wave from detonator 3 reaches outer detonator i through both materials
                    noswept.append(ts[i] <= ts[2] + R / D1 + (sp.Abs(detpos[i]) - R) / D2)
                elif i == 2:
                    noswept.append(ts[2] <= ts[j] + sp.Abs(detpos[j]) / D2)
                else:
                    noswept.append(ts[i] <= ts[j] + sp.Abs(detpos[i] - detpos[j]) / D2)
    for i in range(5):
        pt = [sp.Integer(0)] * (n - 1) + [detpos[i]]
        for j, p in enumerate(point_paths(sc, case, pt)):
            if p.outcome != 'return': continue
            hy = sc.all_hyps(case) + list(p.pc) + noswept
            if not smt.feasible(hy): continue
            O.append(propkit.finish(core.prove_valid('%s/detonator%d:bt=t_d/path%d' % (base, i + 1, j), hy, sp.Eq(bt_of(p), ts[i]), goal_text='bt(x_d%d) == t_d%d' % (i + 1, i + 1)), None))
    return res


def k3_unit(sc, case, tier):
    n = len(sc.pos); pt = list(sc.pos); d = xd[:n]
    p2 = sum(c ** 2 for c in pt); d2 = sum(c ** 2 for c in d); pd = sum(a * b for a, b in zip(pt, d))
    store = {}
    def per_path(sc, case, i, p, base):
        out = []; bt = bt_of(p); hyps = sc.all_hyps(case) + list(p.pc)
        store[i] = p
        F, res = eik_residual(sc, 1 / D ** 2)
        o = core.prove_zero('C13/%s/eikonal' % base, grad2(bt, sc.pos) - 1 / D ** 2, hyps, goal_text='|grad bt|^2 == 1/D^2 on [%s]' % (' & '.join(map(str, p.pc))[:80]), extra_syms=sc.symbols(),
                            positive=[p2 - R ** 2, d2 - R ** 2, p2 * d2 - pd ** 2])
        out.append(propkit.finish(o, mk_replay(sc, case, F, res, 'eikonal |grad bt|^2 = 1/D^2')))
        out.append(propkit.finish(core.prove_valid('C13/%s/causal:bt>=t_d' % base, hyps, bt - td >= 0, goal_text='bt >= t_d'), None))
        out.append(core.structural('C13/%s/frame:t_ignored' % base, sc.t not in bt.free_symbols, goal='burn time does not depend on the time argument'))
        # value == documented piecewise formula (module docstring): t1 if theta <= 0 else t2
        l_op = sp.sqrt(p2); l_od = sp.sqrt(d2)
        th = sp.pi - sp.acos(-pd / (l_op * l_od)) - sp.acos(R / l_op) - sp.acos(R / l_od)
        t1 = td + sp.sqrt(sum((a_ - b_) ** 2 for a_, b_ in zip(pt, d))) / D
        t2 = td + (sp.sqrt(d2 - R ** 2) + R * th + sp.sqrt(p2 - R ** 2)) / D
        goal = sp.Or(sp.And(th <= 0, sp.Eq(bt, t1)), sp.And(th > 0, sp.Eq(bt, t2)))
        F0 = propkit.Fields(['burntime'], list(sc.pos) + [sc.t])
        specv = sp.Piecewise((t1, th <= 0), (t2, True))
        o = core.prove_valid('C13/%s/value=documented_formula' % base, hyps, goal, goal_text='bt == (t1 if theta <= 0 else t2) with the documented theta, t1, t2')
        out.append(propkit.finish(o, lambda raw: propkit.replay_script(sc, case, F0['burntime'] - specv, F0, propkit.sym_point(sc, raw), 'bt == documented first-arrival formula', tol=1e-9)))
        return out
    res = propkit.solver_unit(sc, case, per_path, tier)
    O = res['obligations']; base = 'C13/%s/%s' % (sc.key, sc.case_name(case))
    # shadow boundary theta = 0: one-sided values agree
    try:
        sh = [p for p in store.values() if 'theta' in getattr(p.run, 'run_locals', {}) and any('acos' in str(c) for c in p.pc) and sp.sympify(bt_of(p)).has(sp.acos)]
        los = [p for p in store.values() if not sp.sympify(bt_of(p)).has(sp.acos)]
        if len(sh) == 1 and len(los) == 1:
            th = sp.sympify(sh[0].run.run_locals['theta'])
            b_sh = bt_of(sh[0]) - R * th / D          # shadow-path value on theta = 0
            l_da = sp.sqrt(d2 - R ** 2); l_bp = sp.sqrt(p2 - R ** 2)
            h = pd - R ** 2 + l_da * l_bp
            O.append(core.prove_zero(base + '/continuity:theta=0', D ** 2 * ((b_sh - td) ** 2 - (bt_of(los[0]) - td) ** 2) - 2 * h, sc.all_hyps(case),
                                     goal_text='(shadow value at theta=0)^2 - (line-of-sight value)^2 == 2 (p.d - R^2 + l_da l_bp)/D^2, which vanishes exactly on theta=0',
                                     positive=[p2 - R ** 2, d2 - R ** 2]))
        else:
            O.append(core.Obl(base + '/continuity:theta=0', 'open', 'extraction', 0.0, detail='could not identify line-of-sight / shadow paths (%d/%d)' % (len(los), len(sh))))
    except Unsupported as u:
        O.append(core.Obl(base + '/continuity:theta=0', 'open', 'extraction', 0.0, detail=str(u)))
    for j, p in enumerate(point_paths(sc, case, d)):
        if p.outcome != 'return': continue
        O.append(propkit.finish(core.prove_valid('%s/detonator:bt(x_d)=t_d/path%d' % (base, j), sc.all_hyps(case) + list(p.pc), sp.Eq(bt_of(p), td), goal_text='bt(x_d) == t_d'), None))
    return res


def dsd_unit(sc, case, tier):
    r = sp.Symbol('r', positive=True); store = {}
    def per_path(sc, case, i, p, base):
        out = []; bt = bt_of(p); hyps = sc.all_hyps(case) + list(p.pc); store[i] = p
        rr = sp.sqrt(x ** 2 + y ** 2)
        inner = any(str(c).replace(' ', '') in ('sqrt(x**2+y**2)<r_1',) for c in p.pc)
        if bt == td or not bt.has(sp.log):
            out.append(core.prove_zero('C13/%s/initiation:bt=t_d' % base, bt - td, hyps, goal_text='bt == t_d inside r < r_1'))
            region = 0
        else:
            in1 = smt.valid(hyps, rr < r2)[0]
            region = 1 if in1 else 2
            Dc, al = (DC1, al1) if region == 1 else (DC2, al2)
            inv = 1 / (Dc - al / rr) ** 2
            F, res = eik_residual(sc, inv)
            o = core.prove_zero('C13/%s/eikonal' % base, grad2(bt, sc.pos) - inv, hyps, goal_text='|grad bt|^2 == 1/(D_CJ_%d - alpha_%d/r)^2' % (region, region), extra_syms=sc.symbols())
            out.append(propkit.finish(o, mk_replay(sc, case, F, res, 'radial derivative 1/(D_CJ - alpha/r) of the local material')))
            out.append(propkit.finish(core.prove_valid('C13/%s/radial_derivative_positive' % base, hyps, (x * sp.diff(bt, x) + y * sp.diff(bt, y)) >= 0, goal_text='d bt/dr >= 0 (front moves outwards)'), None))
        store[i] = (p, region)
        out.append(core.structural('C13/%s/frame:t_ignored' % base, sc.t not in bt.free_symbols, goal='burn time does not depend on the time argument'))
        return out
    res = propkit.solver_unit(sc, case, per_path, tier)
    O = res['obligations']; base = 'C13/%s/%s' % (sc.key, sc.case_name(case))
    reg = {rg: bt_of(p).subs({x: r, y: 0}) for p, rg in store.values()}
    if set(reg) == {0, 1, 2}:
        O.append(core.prove_zero(base + '/continuity:r=r_1', (reg[1] - reg[0]).subs(r, r1), sc.all_hyps(case), goal_text='bt(r_1+) == t_d'))
        O.append(core.prove_zero(base + '/continuity:r=r_2', (reg[2] - reg[1]).subs(r, r2), sc.all_hyps(case), goal_text='bt(r_2+) == bt(r_2-)'))
        O.append(propkit.finish(core.prove_valid(base + '/causal:bt>=t_d:HE1', sc.all_hyps(case) + [r >= r1, r < r2], reg[1] - td >= 0, goal_text='bt >= t_d in HE1'), None))
        O.append(propkit.finish(core.prove_valid(base + '/causal:bt>=t_d:HE2', sc.all_hyps(case) + [r >= r2], reg[2] - td >= 0, goal_text='bt >= t_d in HE2'), None))
    else:
        O.append(core.Obl(base + '/continuity', 'open', 'extraction', 0.0, detail='expected three radial regions, found %s' % sorted(reg)))
    return res


def units(tier):
    return [(k, {'key': k, 'tier': tier}) for k in burn.SOLVERS]


def run_unit(name, key, tier):
    sc = burn.SOLVERS[key]; case = sc.cases[0]
    if key.startswith('k1'): return k1_unit(sc, case, tier)
    if key.startswith('k2'): return k2_unit(sc, case, tier)
    if key.startswith('k3'): return k3_unit(sc, case, tier)
    return dsd_unit(sc, case, tier)
