"""C15 - Blake: fields solve the elastic wave problem; the six moduli describe one material."""
import itertools
import sympy as sp
from vc import core, propkit, alg, smt, extract, solverkit, sx, repo as R
from vc.values import *
from vc.solverkit import SolverContract, P

LEVEL = 'proof'
EXPLANATION = ("(1) Blake._run executed symbolically on an object whose six moduli are those of an arbitrary positive-definite isotropic material (lambda, G free): wave equation with c_l^2=M/rho, "
               "strains = derivatives of the returned displacement, Hooke's law for every returned stress field, density, cavity-wall traction, zero field ahead of the front, continuity at the front. "
               "(2) set_elastic_params executed symbolically for each of the 15 parameter pairs (dict namespace, exec of constant strings, 1j markers all interpreted): on every returning path the six values "
               "satisfy the isotropic-elasticity identities, reproduce the supplied pair and are positive definite; every other path raises ValueError.")
ASSUMPTIONS = ["np.isclose guards are modelled as |a-b| <= atol + rtol*|b| over the reals", "request grid has non-negative radii (min(radii) >= 0); radii.size, dtype dropped (A2)"]

r = sp.Symbol('r', positive=True); t = sp.Symbol('t', real=True)
lam = P('lam'); G = P('G', 'pos'); a = P('cavity_radius', 'pos'); rho = P('ref_density', 'pos'); ps = P('pressure_scale', 'pos')
MOD = {'lame_mod': lam, 'shear_mod': G, 'youngs_mod': G * (3 * lam + 2 * G) / (lam + G), 'poisson_ratio': lam / (2 * (lam + G)),
       'bulk_mod': lam + 2 * G / 3, 'long_mod': lam + 2 * G}
PD = [3 * lam + 2 * G > 0]
BLAKE = 'exactpack.solvers.blake.blake:Blake'
gmin = sp.Symbol('min_points', real=True)


def blake_paths(extra_hyps=()):
    hyps = PD + [r >= a, gmin >= 0] + list(extra_hyps)
    def thunk(run):
        I = sx.Interp(run)
        attrs = {'geometry': sp.Integer(3), 'cavity_radius': a, 'ref_density': rho, 'pressure_scale': ps, 'blake_debug': False, 'verbose': False}
        attrs.update(MOD)
        o = Obj(BLAKE, attrs)
        return I.apply(I.getattr(o, '_run'), [Arr(r, origin='points'), t], {})
    return sx.explore(thunk, hyps=hyps, feas=extract.default_feas), hyps


NATIVE = r'''
import json, math, io, contextlib, warnings
import numpy as np
warnings.simplefilter('ignore')
from exactpack.solvers.blake import Blake
lam, G = %(lam)r, %(G)r
par = dict(shear_mod=G, bulk_mod=lam + 2 * G / 3, cavity_radius=%(a)r, ref_density=%(rho)r, pressure_scale=%(ps)r)   # (G, K) are positive for every positive-definite material
with contextlib.redirect_stdout(io.StringIO()): s = Blake(**par)
r0, t0 = %(r)r, %(t)r
def f(name, r, t):
    with contextlib.redirect_stdout(io.StringIO()): sol = s(np.array([r, 2 * r]), t)
    return float(sol[name][0])
def d(name, var, order=1):
    h = 1e-4 * (r0 if var == 'r' else max(abs(t0), 1e-9))
    g = (lambda x: f(name, x, t0)) if var == 'r' else (lambda x: f(name, r0, x))
    x0 = r0 if var == 'r' else t0
    if order == 1: return (g(x0 + h) - g(x0 - h)) / (2 * h)
    return (g(x0 + h) - 2 * g(x0) + g(x0 - h)) / h ** 2
V = lambda n: f(n, r0, t0)
M = lam + 2 * G; rho = %(rho)r
lhs, rhs = %(expr)s
ok = abs(lhs - rhs) <= %(tol)r * max(abs(lhs), abs(rhs), 1e-300)
print(json.dumps({'reproduced': bool(not ok), 'lhs': lhs, 'rhs': rhs, 'predicate': %(text)r}))
'''

SPEC = [   # (label, lhs over extracted fields F, rhs, native expression pair, tolerance)
    ('wave_equation', lambda F: sp.diff(F['displacement'], t, 2), lambda F: ((lam + 2 * G) / rho) * (sp.diff(F['displacement'], r, 2) + 2 * sp.diff(F['displacement'], r) / r - 2 * F['displacement'] / r ** 2),
     "(d('displacement','t',2), (M/rho)*(d('displacement','r',2) + 2*d('displacement','r')/r0 - 2*V('displacement')/r0**2))", 5e-3),
    ('strain_rr=du_dr', lambda F: F['strain_rr'], lambda F: sp.diff(F['displacement'], r), "(V('strain_rr'), d('displacement','r'))", 1e-5),
    ('strain_qq=u_over_r', lambda F: F['strain_qq'], lambda F: F['displacement'] / r, "(V('strain_qq'), V('displacement')/r0)", 1e-10),
    ('strain_vol=trace', lambda F: F['strain_vol'], lambda F: F['strain_rr'] + 2 * F['strain_qq'], "(V('strain_vol'), V('strain_rr')+2*V('strain_qq'))", 1e-10),
    ('density', lambda F: F['density'] * (1 + F['strain_vol']), lambda F: rho, "(V('density')*(1+V('strain_vol')), rho)", 1e-10),
    ('curr_posn', lambda F: F['curr_posn'], lambda F: r + F['displacement'], "(V('curr_posn'), r0+V('displacement'))", 1e-12),
    ('hooke:stress_rr', lambda F: F['stress_rr'], lambda F: (lam + 2 * G) * F['strain_rr'] + 2 * lam * F['strain_qq'], "(V('stress_rr'), (lam+2*G)*V('strain_rr')+2*lam*V('strain_qq'))", 1e-9),
    ('hooke:stress_qq', lambda F: F['stress_qq'], lambda F: lam * F['strain_rr'] + 2 * (lam + G) * F['strain_qq'], "(V('stress_qq'), lam*V('strain_rr')+2*(lam+G)*V('strain_qq'))", 1e-9),
    ('pressure', lambda F: F['pressure'], lambda F: -(F['stress_rr'] + 2 * F['stress_qq']) / 3, "(V('pressure'), -(V('stress_rr')+2*V('stress_qq'))/3)", 1e-9),
    ('stress_dev_rr', lambda F: F['stress_dev_rr'], lambda F: F['stress_rr'] + F['pressure'], "(V('stress_dev_rr'), V('stress_rr')+V('pressure'))", 1e-9),
    ('stress_dev_qq', lambda F: F['stress_dev_qq'], lambda F: F['stress_qq'] + F['pressure'], "(V('stress_dev_qq'), V('stress_qq')+V('pressure'))", 1e-9),
    ('stress_diff', lambda F: F['stress_diff'] ** 2, lambda F: (F['stress_rr'] - F['stress_qq']) ** 2, "(V('stress_diff')**2, (V('stress_rr')-V('stress_qq'))**2)", 1e-9),
]


def native(pt, expr, text, tol):
    v = lambda s_, d_: float(alg.numeric(pt[s_], {}, 20)) if s_ in pt else d_
    return NATIVE % dict(lam=v(lam, 2.0), G=v(G, 1.0), a=v(a, 0.1), rho=v(rho, 3.0), ps=v(ps, 0.01), r=v(r, 0.2), t=v(t, 0.5), expr=expr, text=text, tol=tol)


def run_unit_blake(tier):
    res = {'obligations': [], 'functions': [], 'engine_errors': [], 'tv': {'functions': 0, 'points': 0, 'mismatches': 0}}
    O = res['obligations']
    fv = R.find_method(BLAKE, '_run'); res['functions'].append({'ref': 'exactpack/solvers/blake/blake.py::Blake._run', 'sha256_16': R.source_hash(fv)})
    try:
        paths, hyps = blake_paths()
    except Unsupported as u:
        O.append(core.Obl('C15/blake/_run/extraction', 'open', 'extraction', 0.0, detail='extraction: %s' % u)); return res
    names = ['position', 'curr_posn', 'displacement', 'strain_rr', 'strain_qq', 'strain_vol', 'density', 'stress_rr', 'stress_qq', 'pressure', 'stress_dev_rr', 'stress_dev_qq', 'stress_diff']
    syms = {lam, G, a, rho, ps, r, t}
    # translation validation against the real solver (constructed from lambda, G)
    try:
        pts = alg.sample_points(syms, hyps[:-1] + [lam > 0, t > (r - a) * sp.sqrt(rho / (lam + 2 * G)), ps < (lam + 2 * G / 3) / 20], 3, seed=core.SEED + 3)      # lam > 0: the real constructor rejects a non-positive specified modulus
        reqs = [{'cls': BLAKE, 'params': {'lame_mod': float(p_[lam]), 'shear_mod': float(p_[G]), 'cavity_radius': float(p_[a]), 'ref_density': float(p_[rho]), 'pressure_scale': float(p_[ps])},
                 'points': [float(p_[r]), 2 * float(p_[r])], 't': float(p_[t])} for p_ in pts]
        outs = solverkit.native.batch(reqs); n = 0
        for p_, o_ in zip(pts, outs):
            pt2 = dict(p_); pt2[gmin] = p_[r]
            pa = [q for q in paths if q.outcome == 'return' and all(alg.eval_cond(c, pt2) for c in q.pc)]
            if not pa or not o_.get('ok'):
                res['engine_errors'].append('translation validation: no path / real call failed at %s: %s' % (core.jval(p_), o_)); continue
            n += 1
            for nm, v in pa[0].value.fields().items():
                mine = float(alg.numeric(sp.sympify(v), pt2, 20)); real = o_['fields'][nm][0]
                if abs(mine - real) > 1e-8 * max(abs(mine), abs(real)) + 1e-18:
                    res['engine_errors'].append('translation validation Blake._run field %s: extracted %.12g real %.12g at %s' % (nm, mine, real, core.jval(p_)))
        res['tv'] = {'functions': 1, 'points': n, 'mismatches': len(res['engine_errors'])}
    except Exception as e:
        res['engine_errors'].append('translation validation failed to run: %s' % str(e)[-300:])
    for i, p in enumerate(paths):
        base = 'C15/blake/_run/path%d' % i
        if p.outcome != 'return' or not isinstance(p.value, Solution):
            if smt.feasible(hyps + list(p.pc)):
                O.append(core.Obl(base + '/returns', 'refuted', 'path-analysis', 0.0, goal='admissible call returns', detail='%s %s under %s' % (p.outcome, p.exc, p.pc), cex=None))
            continue
        F = p.value.fields(); h = hyps + list(p.pc)
        O.append(core.structural(base + '/names', list(p.value.names) == names, goal='fields and order as documented', detail=str(p.value.names)))
        behind = smt.valid(h, t - (r - a) * sp.sqrt(rho / (lam + 2 * G)) > 0)[0]
        for label, L, Rr, nexpr, tol in SPEC:
            try:
                e = sp.sympify(L(F)) - sp.sympify(Rr(F))
            except KeyError as k:
                O.append(core.Obl('%s/%s' % (base, label), 'refuted', 'structural', 0.0, goal=label, detail='missing field %s' % k, cex=None)); continue
            o = core.prove_zero('%s/%s' % (base, label), e, h, goal_text=label, extra_syms=syms)
            if o['status'] == 'refuted' and o.get('cex_raw'):
                pt = {s_: sp.sympify(o['cex_raw'][s_.name]) for s_ in syms if s_.name in o['cex_raw']}
                o['replay'] = native(pt, nexpr, label, tol)
            o.pop('cex_raw', None); O.append(o)
        if behind:
            # traction on the cavity wall
            wall = sp.sympify(F['stress_rr']).subs(r, a) + ps
            o = core.prove_zero(base + '/bc:stress_rr(a,t)=-pressure_scale', wall, PD + [t > 0], goal_text='stress_rr(r=a, t>0) == -pressure_scale', extra_syms=syms)
            if o['status'] == 'refuted' and o.get('cex_raw'):
                pt = {s_: sp.sympify(o['cex_raw'][s_.name]) for s_ in syms if s_.name in o['cex_raw']}
                o['replay'] = native(pt, "(f('stress_rr', par['cavity_radius'], t0), -par['pressure_scale'])", 'stress_rr(r=a,t) == -pressure_scale', 1e-8)
            o.pop('cex_raw', None); O.append(o)
            # continuity at the front  t_p = 0
            tp = sp.Symbol('tp_', real=True)
            front = sp.sympify(F['displacement']).subs(t, (r - a) * sp.sqrt(rho / (lam + 2 * G)))
            O.append(core.prove_zero(base + '/front:u=0_at_tp=0', front, PD + [r >= a], goal_text='displacement -> 0 at the wave front', extra_syms=syms))
        else:
            O.append(core.prove_zero(base + '/ahead:u=0', sp.sympify(F['displacement']), h, goal_text='displacement == 0 ahead of the front'))
            O.append(core.prove_zero(base + '/ahead:strain=0', sp.sympify(F['strain_rr']), h, goal_text='strain_rr == 0 ahead of the front'))
    for o in O: o.pop('cex_raw', None)
    return res


# ---------------------------------------------------------------------------------------------- elastic parameter pairs
NAMES = ('lame_mod', 'shear_mod', 'youngs_mod', 'poisson_ratio', 'bulk_mod', 'long_mod')
EREF = 'exactpack/solvers/blake/set_check_elastic_params.py::set_elastic_params'

PAIR_NATIVE = r'''
import json, warnings
warnings.simplefilter('ignore')
from exactpack.solvers.blake import set_check_elastic_params as m
names = %(names)r
try:
    out = m.set_elastic_params(names, (25.0e9, 25.0e9, 62.5e9, 0.25, 41.66666666666667e9, 75.0e9), dict(zip(names, range(6))), False, False, **%(kw)r)
    l, g, e, nu, k, mm = [out[n] for n in names]
    checks = {'E': (e, g*(3*l+2*g)/(l+g)), 'nu': (nu, l/(2*(l+g))), 'K': (k, l+2*g/3), 'M': (mm, l+2*g)}
    for n, v in %(kw)r.items(): checks['given:' + n] = (out[n], v)
    bad = {n: v for n, v in checks.items() if abs(v[0]-v[1]) > 1e-9*max(abs(v[0]), abs(v[1]), 1e-300)}
    pd = g > 0 and 3*l+2*g > 0
    print(json.dumps({'reproduced': bool(bad) or not pd, 'violated_identities': bad, 'positive_definite': bool(pd), 'returned': out}))
except ValueError as ex:
    print(json.dumps({'reproduced': False, 'raised': 'ValueError'}))
except Exception as ex:
    print(json.dumps({'reproduced': True, 'raised': type(ex).__name__ + ': ' + str(ex)[:100]}))
'''


def pair_unit(n0, n1):
    res = {'obligations': [], 'functions': [], 'engine_errors': []}
    O = res['obligations']; base = 'C15/elastic/%s+%s' % (n0, n1)
    fv = R.func_ref(EREF); res['functions'].append({'ref': EREF, 'sha256_16': R.source_hash(fv)})
    v0 = sp.Symbol('v_' + n0, real=True); v1 = sp.Symbol('v_' + n1, real=True)
    order = dict(zip(NAMES, [sp.Integer(i) for i in range(6)])); dfl = tuple(sp.Integer(i + 1) for i in range(6))
    try:
        paths = extract.run_function(EREF, [NAMES, dfl, order, False, False], kwargs={n0: v0, n1: v1})
    except Unsupported as u:
        O.append(core.Obl(base + '/extraction', 'open', 'extraction', 0.0, detail='extraction: %s' % u)); return res
    k = 0; nret = 0
    for p in paths:
        if p.outcome == 'raise':
            if p.exc != 'ValueError' and smt.feasible(list(p.pc)):
                O.append(core.Obl('%s/raise%d' % (base, k), 'refuted', 'path-analysis', 0.0, goal='rejections are ValueError', detail='raises %s under %s' % (p.exc, p.pc), cex=None))
            k += 1; continue
        nret += 1
        out = p.value; h = list(p.pc); nm = '%s/ret%d' % (base, nret)
        l, g, e, nu, kk, m = [sp.sympify(out[n]) for n in NAMES]
        mk = lambda o: (o.__setitem__('replay', PAIR_NATIVE % dict(names=NAMES, kw={n0: float(sp.sympify(o['cex_raw'].get(v0.name, 1))), n1: float(sp.sympify(o['cex_raw'].get(v1.name, 1)))}))
                        if o['status'] == 'refuted' and o.get('cex_raw') else None, o.pop('cex_raw', None), o)[2]
        O.append(mk(core.prove_valid(nm + '/positive_definite', h, sp.And(g > 0, 3 * l + 2 * g > 0), goal_text='G > 0 and 3*lambda + 2G > 0')))
        hpd = h + [g > 0, 3 * l + 2 * g > 0]
        O.append(mk(core.prove_zero(nm + '/E', e - g * (3 * l + 2 * g) / (l + g), hpd, goal_text='E == G(3 lambda + 2G)/(lambda + G)', extra_syms={v0, v1})))
        O.append(mk(core.prove_zero(nm + '/nu', nu - l / (2 * (l + g)), hpd, goal_text='nu == lambda/(2(lambda+G))', extra_syms={v0, v1})))
        O.append(mk(core.prove_zero(nm + '/K', kk - (l + 2 * g / 3), hpd, goal_text='K == lambda + 2G/3', extra_syms={v0, v1})))
        O.append(mk(core.prove_zero(nm + '/M', m - (l + 2 * g), hpd, goal_text='M == lambda + 2G', extra_syms={v0, v1})))
        O.append(mk(core.prove_zero(nm + '/given0', sp.sympify(out[n0]) - v0, h, goal_text='returned %s == supplied value' % n0)))
        O.append(mk(core.prove_zero(nm + '/given1', sp.sympify(out[n1]) - v1, h, goal_text='returned %s == supplied value' % n1)))
        if {n0, n1} == {'youngs_mod', 'long_mod'}:
            ips = sp.sqrt(v0 ** 2 + 9 * v1 ** 2 - 10 * v0 * v1) if n0 == 'youngs_mod' else sp.sqrt(v1 ** 2 + 9 * v0 ** 2 - 10 * v0 * v1)
            E_, M_ = (v0, v1) if n0 == 'youngs_mod' else (v1, v0)
            O.append(mk(core.prove_zero(nm + '/plus_branch', nu - (E_ - M_ + ips) / (4 * M_), h, goal_text='two-valued pair (E, M): the + branch of the radical is returned')))
    if nret == 0:
        O.append(core.Obl(base + '/returns', 'refuted', 'path-analysis', 0.0, goal='admissible pairs are accepted', detail='no returning path', cex=None))
    return res


def count_unit():
    """wrong number of elastic keys -> ValueError"""
    res = {'obligations': [], 'functions': [], 'engine_errors': []}
    order = dict(zip(NAMES, [sp.Integer(i) for i in range(6)])); dfl = tuple(sp.Integer(i + 1) for i in range(6))
    for kw in ({'lame_mod': sp.Symbol('v0', positive=True)}, {'lame_mod': sp.Symbol('v0', positive=True), 'shear_mod': sp.Symbol('v1', positive=True), 'bulk_mod': sp.Symbol('v2', positive=True)}):
        paths = extract.run_function(EREF, [NAMES, dfl, order, False, False], kwargs=kw)
        ok = all(p.outcome == 'raise' and p.exc == 'ValueError' for p in paths) and len(paths) > 0
        res['obligations'].append(core.structural('C15/elastic/count=%d:ValueError' % len(kw), ok, goal='%d elastic parameters => ValueError on every path' % len(kw), backend='path-analysis'))
    return res


def units(tier):
    us = [('blake_run', {'kind': 'run', 'tier': tier})]
    for i, j in itertools.combinations(range(6), 2): us.append(('pair/%s+%s' % (NAMES[i], NAMES[j]), {'kind': 'pair', 'n0': NAMES[i], 'n1': NAMES[j]}))
    us.append(('count', {'kind': 'count'}))
    return us


def run_unit(name, kind, tier=None, n0=None, n1=None):
    if kind == 'run': return run_unit_blake(tier)
    if kind == 'pair': return pair_unit(n0, n1)
    return count_unit()
