"""C09 - Riemann and burn-time solutions respect mirror, Galilean and rigid symmetry."""
import sympy as sp
from vc import core, propkit, alg, smt
from vc.values import *
from contracts import burn
from props import riemann_kit as rk

LEVEL = 'proof'
EXPLANATION = ("Riemann (ideal gas): for each wave pattern, under the mirror substitution and under a common boost: same star-pressure equation, equivalent pattern selection (z3, velocity-free sub-terms abstracted and "
               "identified by the ring back end, sign lemmas from monotonicity of real powers), wave speeds negate-and-reverse / shift, every region state is the mirror / boosted image. Burn-time solvers: on every path, "
               "value and path condition are invariant expressions under the generators of the symmetry group (rotations in rational parametrisation, reflections, Kenamond 1 translations) applied to detonators and points together.")
ASSUMPTIONS = list(rk.ASSUMPTIONS) + ["rotations are parametrised rationally (cos = (1-q^2)/(1+q^2), sin = 2q/(1+q^2)): every rotation except the half turn, which is the composition of two covered ones",
                                        "invariance under the generators (rotation about two axes, reflections) implies invariance under the generated group",
                                        "general-EOS Riemann solver: not covered"]
x, y, z = burn.x, burn.y, burn.z
q = sp.Symbol('q_rot', real=True); a0, a1, a2 = sp.symbols('shift0 shift1 shift2', real=True)
C, S_ = (1 - q ** 2) / (1 + q ** 2), 2 * q / (1 + q ** 2)


def rot(u, v):
    return {u: C * u - S_ * v, v: S_ * u + C * v}


def transforms(key):
    xd = burn.xd
    n = 2 if key.endswith('2d') or key == 'dsd' else 3
    T = {}
    if key.startswith('k1'):
        sh = [a0, a1, a2][:n]
        T['translation'] = dict([(p_, p_ + s_) for p_, s_ in zip([x, y, z][:n], sh)] + [(d_, d_ + s_) for d_, s_ in zip(xd[:n], sh)])
    if key.startswith('k1') or key.startswith('k3'):
        d = dict(rot(x, y)); d.update(rot(xd[0], xd[1])); T['rotation_xy'] = d
        T['reflection_x'] = {x: -x, xd[0]: -xd[0]}
        if n == 3:
            d = dict(rot(y, z)); d.update(rot(xd[1], xd[2])); T['rotation_yz'] = d
    if key.startswith('k2'):
        T['reflection_x'] = {x: -x}
        if n == 3:
            T['rotation_about_axis'] = dict(rot(x, y)); T['reflection_y'] = {y: -y}
    if key == 'dsd':
        T['rotation'] = dict(rot(x, y)); T['reflection_x'] = {x: -x}
    return T


NATIVE_ROT = None


def burn_unit(key, tier):
    sc = burn.SOLVERS[key]; case = sc.cases[0]
    T = transforms(key)
    def per_path(sc, case, i, p, base):
        out = []
        if p.outcome != 'return': return out
        bt = sp.sympify(p.value.field('burntime')); hyps = sc.all_hyps(case)
        for tn, sub in T.items():
            im = bt.subs(sub, simultaneous=True)
            F = propkit.Fields(['burntime'], list(sc.pos) + [sc.t])
            o = core.prove_zero('C09/%s/%s/value' % (base, tn), im - bt, hyps + list(p.pc), goal_text='burn time expression invariant under %s of detonator(s) and point' % tn, extra_syms=sc.symbols() | {q, a0, a1, a2},
                                positive=[c.lhs - c.rhs for c in sc.poshyps if getattr(c, 'rel_op', '') == '>'])
            o.pop('cex_raw', None); out.append(o)
            for j, c in enumerate(p.pc):
                if not (isinstance(c, sp.Basic) and c.is_Relational):
                    inner = c.args[0] if isinstance(c, sp.Not) and c.args[0].is_Relational else None
                    if inner is None:
                        out.append(core.Obl('C09/%s/%s/cond%d' % (base, tn, j), 'open', 'extraction', 0.0, detail='compound path condition')); continue
                    c = inner
                e = c.lhs - c.rhs
                o = core.prove_zero('C09/%s/%s/cond%d' % (base, tn, j), e.subs(sub, simultaneous=True) - e, hyps, goal_text='path condition %d invariant under %s' % (j, tn), extra_syms=sc.symbols() | {q, a0, a1, a2},
                                    positive=[c_.lhs - c_.rhs for c_ in sc.poshyps if getattr(c_, 'rel_op', '') == '>'])
                o.pop('cex_raw', None); out.append(o)
        return out
    res = propkit.solver_unit(sc, case, per_path, tier)
    # the admissibility hypotheses themselves are invariant (the transformed problem is admissible iff the original is)
    for tn, sub in T.items():
        for j, h in enumerate(sc.all_hyps(case)):
            if isinstance(h, sp.Basic) and h.is_Relational:
                e = h.lhs - h.rhs
                o = core.prove_zero('C09/%s/%s/precondition%d' % (key, tn, j), e.subs(sub, simultaneous=True) - e, [], goal_text='admissibility condition invariant under %s' % tn)
                o.pop('cex_raw', None); res['obligations'].append(o)
    return res


def units(tier):
    us = [(k, {'kind': 'burn', 'key': k, 'tier': tier}) for k in burn.SOLVERS]
    for pat in rk.PXREL:
        us.append(('riemann/%s/mirror' % pat, {'kind': 'mirror', 'pat': pat})); us.append(('riemann/%s/galilean' % pat, {'kind': 'galilean', 'pat': pat}))
    us.append(('riemann/tv', {'kind': 'tv', 'tier': tier}))
    return us


def run_unit(name, kind, key=None, pat=None, tier='quick'):
    if kind == 'burn': return burn_unit(key, tier)
    if kind == 'tv': return rk.run_unit('C09', None, 'tv', tier)
    res = {'obligations': [], 'functions': rk.info(), 'engine_errors': [], 'assumptions': list(rk.ASSUMPTIONS)}
    try:
        sc, ctxs, others, paths = rk.build()
        res['obligations'] = (rk.ob_mirror if kind == 'mirror' else rk.ob_galilean)(ctxs, pat, 'C09')
    except Unsupported as u:
        res['obligations'].append(core.Obl('C09/riemann/%s/%s/extraction' % (pat, kind), 'open', 'extraction', 0.0, detail=str(u)))
    for o in res['obligations']: o.pop('cex_raw', None)
    return res
