"""C06 - a value depends only on (parameters, point, time), not on history or batch."""
import ast, os, json
import sympy as sp
from vc import core, extract, native, repo as R
from vc.values import *

LEVEL = 'proof'
EXPLANATION = ("Frame analysis over the ast of every solver module (interprocedural def-use in program order): (O1) module globals: for every module that declares `global` state, every entry point (function referenced from "
               "another module, or declaring global writes) has an empty read-before-must-write set over that state, callbacks handed to SciPy included at the point where they are handed over; class-level mutable "
               "objects: attributes of the shared Newton solver read by solve() are re-initialised by solve_jump_conditions before each solve or never written after construction; Blake.elas_param_values is never read "
               "by _run; instance attributes: no _run reads an attribute that only an earlier _run wrote. (O2) batch independence: the symbolic executor's pointwise abstraction (A2 map-loop schema) holds for every "
               "solver under contract and every whole-request quantity it meets (max/min/first/last of the points) is on the documented allow-list and does not occur in a returned field. Bounded stand-in: interleaved "
               "call histories on the real solvers against fresh-interpreter references.")
ASSUMPTIONS = ["must-writes are assignments at the top level of a function body (writes under if/for/while count as may-writes only): conservative for read-before-write",
               "SciPy routines are deterministic functions of (function, arguments) (A5)",
               "grid-dependent solvers (Mader cell averages, Sedov and SDRZ interpolation tables, Riemann internal grid) may vary within their documented resolution: their whole-request quantities are allow-listed, not proved harmless"]
SOLVERS_DIR = os.path.join(R.REPO, 'exactpack', 'solvers')


def modules_with_globals():
    out = []
    for dp, dn, fn in os.walk(SOLVERS_DIR):
        for f in sorted(fn):
            if not f.endswith('.py'): continue
            p = os.path.join(dp, f)
            try: tree = ast.parse(open(p).read())
            except SyntaxError: continue
            if any(isinstance(n, ast.Global) for n in ast.walk(tree)):
                rel = os.path.relpath(p, R.REPO); out.append(rel[:-3].replace('/', '.'))
    return out


class ModAnalysis:
    def __init__(self, modname):
        self.m = R.load_module(modname); self.modname = modname
        self.G = set()
        for n in ast.walk(self.m.tree):
            if isinstance(n, ast.Global): self.G |= set(n.names)
        self.funcs = {}
        def collect(body, prefix=''):
            for n in body:
                if isinstance(n, ast.FunctionDef):
                    self.funcs[prefix + n.name] = n; collect(n.body, prefix + n.name + '.')
                elif isinstance(n, ast.ClassDef): collect(n.body, prefix + n.name + '.')
        collect(self.m.tree.body)
        self.cache = {}

    def local_names(self, fn):
        gl = set(); st = set()
        for n in ast.walk(fn):
            if isinstance(n, ast.Global): gl |= set(n.names)
        for n in ast.walk(fn):
            if isinstance(n, ast.Name) and isinstance(n.ctx, ast.Store) and n.id not in gl: st.add(n.id)
        st |= {a.arg for a in fn.args.args + fn.args.kwonlyargs}
        return gl, st

    def events(self, fn):
        gl, loc = self.local_names(fn)
        ev = []
        short = {k.split('.')[-1]: k for k in self.funcs}
        guard = []      # stack of (global, op, literal) conditions under which the current statement executes
        def expr(e, must):
            for n in ast.walk(e):
                if isinstance(n, ast.Name) and isinstance(n.ctx, ast.Load):
                    if n.id in self.G and (n.id in gl or n.id not in loc): ev.append(('read', n.id, n.lineno, tuple(guard)))
                    elif n.id in short and n.id not in loc: ev.append(('call', short[n.id], must, n.lineno, tuple(guard)))
        def guard_of(test):
            if isinstance(test, ast.Compare) and len(test.ops) == 1 and isinstance(test.left, ast.Name) and test.left.id in self.G and isinstance(test.comparators[0], ast.Constant):
                op = '==' if isinstance(test.ops[0], ast.Eq) else ('!=' if isinstance(test.ops[0], ast.NotEq) else None)
                if op: return (test.left.id, op, test.comparators[0].value)
            return None
        def stmts(body, must):
            for s in body:
                if isinstance(s, (ast.FunctionDef, ast.ClassDef)): continue
                if isinstance(s, ast.Assign):
                    expr(s.value, must)
                    for t in s.targets:
                        for q in ast.walk(t):
                            if isinstance(q, ast.Name) and isinstance(q.ctx, ast.Store) and q.id in gl and q.id in self.G:
                                ev.append(('write', q.id, must, s.lineno, s.value.value if isinstance(s.value, ast.Constant) else None))
                            elif isinstance(q, ast.Name) and isinstance(q.ctx, ast.Load): expr(q, must)
                elif isinstance(s, ast.AugAssign):
                    expr(s.value, must); expr(ast.Name(id=getattr(s.target, 'id', '_'), ctx=ast.Load(), lineno=s.lineno), must)
                    if isinstance(s.target, ast.Name) and s.target.id in gl: ev.append(('write', s.target.id, must, s.lineno))
                elif isinstance(s, (ast.If, ast.While)):
                    g_ = guard_of(s.test) if isinstance(s, ast.If) else None
                    if g_ is None: expr(s.test, must)
                    else: ev.append(('read', g_[0], s.lineno, tuple(guard)))
                    if g_: guard.append(g_)
                    stmts(s.body, False)
                    if g_: guard.pop(); guard.append((g_[0], '!=' if g_[1] == '==' else '==', g_[2]))
                    stmts(s.orelse, False)
                    if g_: guard.pop()
                elif isinstance(s, ast.For):
                    expr(s.iter, must); stmts(s.body, False); stmts(s.orelse, False)
                elif isinstance(s, ast.Try):
                    stmts(s.body, False)
                    for h in s.handlers: stmts(h.body, False)
                    stmts(s.orelse, False); stmts(s.finalbody, must)
                elif isinstance(s, ast.With): stmts(s.body, must)
                elif isinstance(s, (ast.Global, ast.Pass, ast.Import, ast.ImportFrom)): pass
                else:
                    for ch in ast.iter_child_nodes(s):
                        if isinstance(ch, ast.expr): expr(ch, must)
        stmts(fn.body, True)
        return ev

    def summary(self, fname, stack=(), vals=None):
        """(read-before-must-write set with sites, must-write set, known constant values after the call).
        vals: constants most recently must-written to globals (guards `if g == c` on them are resolved)"""
        vals = dict(vals or {})
        key = (fname, tuple(sorted(vals.items(), key=str)))
        if key in self.cache: return self.cache[key]
        if fname in stack: return {}, set(), vals
        fn = self.funcs[fname]; W = set(); rbw = {}
        def dead(g):
            for (gn, op, c) in g:
                if gn in vals and ((op == '==' and vals[gn] != c) or (op == '!=' and vals[gn] == c)): return True
            return False
        for e in self.events(fn):
            if e[0] == 'read':
                if dead(e[3]): continue
                if e[1] not in W: rbw.setdefault(e[1], '%s:%d' % (fname, e[2]))
            elif e[0] == 'write':
                if e[2]:
                    W.add(e[1])
                    if e[4] is not None: vals[e[1]] = e[4]
                    else: vals.pop(e[1], None)
                else: vals.pop(e[1], None)
            elif e[0] == 'call':
                if dead(e[4]): continue
                cr, cw, cv = self.summary(e[1], stack + (fname,), vals)
                for g_, site in cr.items():
                    if g_ not in W: rbw.setdefault(g_, '%s:%d -> %s' % (fname, e[3], site))
                if e[2]: W |= cw; vals = dict(cv)
        self.cache[key] = (rbw, W, vals)
        return rbw, W, vals


def external_refs(modname):
    """names of this module referenced from other modules of the package"""
    base = modname.split('.')[-1]; out = set()
    for dp, dn, fn in os.walk(os.path.join(R.REPO, 'exactpack')):
        if 'tests' in dp or 'examples' in dp: continue
        for f in fn:
            if not f.endswith('.py'): continue
            p = os.path.join(dp, f)
            if p == R.module_path(modname): continue
            try: tree = ast.parse(open(p).read())
            except SyntaxError: continue
            alias = set()
            for n in ast.walk(tree):
                if isinstance(n, ast.ImportFrom) and n.module and (n.module.endswith(base) or (n.module.endswith(modname.split('.')[-2]) and any(a.name == base for a in n.names))):
                    for a in n.names:
                        if a.name == base: alias.add(a.asname or a.name)
                        elif n.module.endswith(base): out.add(a.name)
                elif isinstance(n, ast.ImportFrom) and n.level and any(a.name == base for a in n.names):
                    for a in n.names:
                        if a.name == base: alias.add(a.asname or a.name)
            for n in ast.walk(tree):
                if isinstance(n, ast.Attribute) and isinstance(n.value, ast.Name) and n.value.id in alias: out.add(n.attr)
    return out


def radshock_unit():
    """radshocks/utils.py keeps a module-level function table `fnctn` selected by the constructor of each profile class.  History independence at the solver API:
    all of that machinery runs inside the solver constructor (setup_solver called from __init__); _run only interpolates arrays stored on the instance."""
    res = {'obligations': [], 'functions': [], 'engine_errors': []}; O = res['obligations']
    ct = R.class_table()['classes']; ma = ModAnalysis('exactpack.solvers.radshocks.utils')
    for k, c in sorted(ct.items()):
        if not k.startswith('exactpack.solvers.radshocks.nED_radshocks:') or 'exactpack.base:ExactSolver' not in c['mro']: continue
        run = R.find_method(k, '_run'); init = R.find_method(k, '__init__'); short = k.split(':')[1]
        res['functions'].append({'ref': 'exactpack/solvers/radshocks/nED_radshocks.py::%s._run' % short, 'sha256_16': R.source_hash(run)})
        calls = sorted({ast.unparse(q.func) for q in ast.walk(run.node) if isinstance(q, ast.Call)})
        ok = all(cn.startswith(('np.', 'numpy.')) or cn in ('ExactSolution', 'interp', 'flip') for cn in calls)
        O.append(core.structural('C06/globals/radshocks/%s._run:interpolates_stored_arrays_only' % short, ok, goal='_run calls nothing but numpy interpolation on arrays stored by the constructor: the module-level table fnctn is out of reach of a call', detail=str(calls)))
        setup_in_init = any(isinstance(q, ast.Call) and isinstance(q.func, ast.Attribute) and q.func.attr == 'setup_solver' for q in ast.walk(init.node))
        O.append(core.structural('C06/globals/radshocks/%s.__init__:runs_setup' % short, setup_in_init, goal='the profile is built inside the constructor call (setup_solver), where the table is written before it is read'))
    # every profile class whose methods read fnctn selects the table in its own constructor
    for cname, cd in ma.m.classes.items():
        init = next((n for n in cd.body if isinstance(n, ast.FunctionDef) and n.name == '__init__'), None)
        if init is None: continue
        if any(isinstance(q, ast.Global) and 'fnctn' in q.names for q in ast.walk(init)):
            wr = any((isinstance(q, (ast.Import, ast.ImportFrom)) and any((a.asname or a.name) == 'fnctn' for a in q.names)) for q in ast.walk(init))
            O.append(core.structural('C06/globals/radshocks/utils.%s.__init__:selects_table' % cname, wr, goal='constructor binds the module-level table fnctn (import ... as fnctn under `global fnctn`)'))
    return res


def globals_unit(modname):
    if modname.endswith('radshocks.utils'): return radshock_unit()
    res = {'obligations': [], 'functions': [], 'engine_errors': []}
    O = res['obligations']; ma = ModAnalysis(modname); short = modname.replace('exactpack.solvers.', '')
    ext = external_refs(modname)
    writers = {f for f, n in ma.funcs.items() if any(isinstance(q, ast.Global) for q in ast.walk(n))}
    referenced = set()
    for f_, n_ in ma.funcs.items():
        for q in ast.walk(n_):
            if isinstance(q, ast.Name) and isinstance(q.ctx, ast.Load): referenced.add(q.id)
            if isinstance(q, ast.Attribute): referenced.add(q.attr)
    roots = {f for f in writers if f.split('.')[-1] not in referenced or f.split('.')[-1] in ext}
    entries = sorted({f for f in ma.funcs if f.split('.')[-1] in ext and '.' not in f} | roots)
    if '*' in ext: entries = sorted(ma.funcs)
    res['functions'] = [{'ref': '%s::%s' % (ma.m.path.replace(R.REPO + '/', ''), f), 'sha256_16': R.source_hash(FuncVal(ma.funcs[f], ma.m, None, name=f))} for f in entries]
    for f in entries:
        rbw, W, _v = ma.summary(f)
        # module-level constants (never assigned through a `global` declaration) are not state
        rbw = {g_: s_ for g_, s_ in rbw.items() if g_ in ma.G}
        O.append(core.Obl('C06/globals/%s/%s:no_read_before_write' % (short, f), 'discharged' if not rbw else 'refuted', 'ast-frame-analysis', 0.0,
                          goal='entry point %s reads module state %s only after writing it in the same call' % (f, sorted(ma.G)), detail=json.dumps(rbw)[:400],
                          cex={'module': modname, 'entry': f, 'read_before_write': rbw} if rbw else None))
    if not entries: O.append(core.Obl('C06/globals/%s/entries' % short, 'error', 'engine', 0.0, detail='no entry point found'))
    return res


# ------------------------------------------------------------------------------------------------ class-level and instance state
def attr_reads_writes(fn, obj='self'):
    """ordered (kind, attr, must, line) for self.<attr> in a method"""
    ev = []
    def expr(e, must):
        for n in ast.walk(e):
            if isinstance(n, ast.Attribute) and isinstance(n.value, ast.Name) and n.value.id == obj and isinstance(n.ctx, ast.Load): ev.append(('read', n.attr, must, n.lineno))
    def stmts(body, must):
        for s in body:
            if isinstance(s, (ast.FunctionDef, ast.ClassDef)): continue
            if isinstance(s, ast.Assign):
                expr(s.value, must)
                for t in s.targets:
                    for q in (t.elts if isinstance(t, (ast.Tuple, ast.List)) else [t]):
                        if isinstance(q, ast.Attribute) and isinstance(q.value, ast.Name) and q.value.id == obj: ev.append(('write', q.attr, must, s.lineno))
                        else: expr(q, must)
            elif isinstance(s, ast.AugAssign):
                expr(s.value, must)
                if isinstance(s.target, ast.Attribute) and isinstance(s.target.value, ast.Name) and s.target.value.id == obj:
                    ev.append(('read', s.target.attr, must, s.lineno)); ev.append(('write', s.target.attr, must, s.lineno))
            elif isinstance(s, (ast.If, ast.While)): expr(s.test, must); stmts(s.body, False); stmts(s.orelse, False)
            elif isinstance(s, ast.For): expr(s.iter, must); stmts(s.body, False); stmts(s.orelse, False)
            elif isinstance(s, ast.Try):
                stmts(s.body, False)
                for h in s.handlers: stmts(h.body, False)
                stmts(s.finalbody, must)
            elif isinstance(s, ast.With): stmts(s.body, must)
            else:
                for ch in ast.iter_child_nodes(s):
                    if isinstance(ch, ast.expr): expr(ch, must)
    stmts(fn.body, True)
    return ev


def instance_unit():
    """no _run reads an instance attribute that is written only by _run (carried from an earlier call)"""
    res = {'obligations': [], 'functions': [], 'engine_errors': []}
    O = res['obligations']; ct = R.class_table()['classes']
    for k, c in sorted(ct.items()):
        if 'exactpack.base:ExactSolver' not in c['mro'] or '_run' not in c['own_methods']: continue
        fv = R.find_method(k, '_run'); short = k.replace('exactpack.solvers.', '')
        ev = attr_reads_writes(fv.node)
        run_writes = {e[1] for e in ev if e[0] == 'write'}
        # attributes established elsewhere (constructor, class body, parameters) are not history
        init_w = set()
        for mname in c['own_methods']:
            if mname == '_run': continue
            mf = R.find_method(k, mname)
            if mf is not None: init_w |= {e[1] for e in attr_reads_writes(mf.node) if e[0] == 'write'}
        established = set(c['parameters'] or []) | init_w
        for m in c['mro']:
            if m in ct: established |= set(ct[m]['attrs'])
        W = set(); carried = {}
        for kind, a, must, ln in ev:
            if kind == 'write':
                if must: W.add(a)
            elif a in run_writes and a not in W and a not in established: carried.setdefault(a, ln)
        O.append(core.Obl('C06/instance/%s:_run_reads_no_attribute_of_an_earlier_call' % short, 'discharged' if not carried else 'refuted', 'ast-frame-analysis', 0.0,
                          goal='attributes written by _run (%s) are written before they are read in the same call' % sorted(run_writes)[:8], detail=str(carried),
                          cex={'class': k, 'carried': carried} if carried else None))
    return res


NEWTON_NATIVE = r'''
import json, io, contextlib, subprocess, sys
from exactpack.solvers.nohblackboxeos.blackboxnoh import NohBlackBoxEos
from exactpack.solvers.nohblackboxeos.equations_of_state.eos_library import stiffened_gas_eos
import numpy as np
def make(): return NohBlackBoxEos(stiffened_gas_eos(5. / 3., 1.0, 1.0), {'density': 1.0, 'velocity': -1.0, 'pressure': 0.0, 'symmetry': 2})
def value(s):
    with contextlib.redirect_stdout(io.StringIO()): return float(s(np.array([0.05]), 0.6)['density'][0])
ref = value(make())                      # fresh object, default tolerance
other = make(); other.set_new_solver_tolerance(1.0e-2)      # a *different* solver object loosens its tolerance ...
hist = value(make())                     # ... and a new, untouched object now returns a different number
print(json.dumps({'reproduced': bool(abs(ref - hist) > 1e-12 * abs(ref)), 'fresh_object': ref, 'after_another_object_changed_its_tolerance': hist}))
'''


def shared_state_unit():
    res = {'obligations': [], 'functions': [], 'engine_errors': []}
    O = res['obligations']
    NS = 'exactpack.solvers.nohblackboxeos.solution_tools.newton_solvers:newton_solver'; BB = 'exactpack.solvers.nohblackboxeos.blackboxnoh:NohBlackBoxEos'
    solve = R.find_method(NS, 'solve'); sj = R.find_method(BB, 'solve_jump_conditions')
    res['functions'] = [{'ref': 'exactpack/solvers/nohblackboxeos/solution_tools/newton_solvers.py::newton_solver.solve', 'sha256_16': R.source_hash(solve)},
                        {'ref': 'exactpack/solvers/nohblackboxeos/blackboxnoh.py::NohBlackBoxEos.solve_jump_conditions', 'sha256_16': R.source_hash(sj)}]
    ct = R.class_table()['classes']
    shared = 'solver' in ct[BB]['attrs']
    init_m = R.find_method(BB, '__init__')
    if shared and init_m is not None:
        # a constructor that unconditionally rebinds self.solver to a freshly constructed object makes the solver per-instance
        for s_ in init_m.node.body:
            if (isinstance(s_, ast.Assign) and len(s_.targets) == 1 and isinstance(s_.targets[0], ast.Attribute) and s_.targets[0].attr == 'solver'
                    and isinstance(s_.targets[0].value, ast.Name) and s_.targets[0].value.id == 'self' and isinstance(s_.value, ast.Call)
                    and isinstance(s_.value.func, ast.Name) and s_.value.func.id == 'newton_solver'):
                shared = False
    reads = sorted({e[1] for e in attr_reads_writes(solve.node) if e[0] == 'read'} - {e[1] for e in attr_reads_writes(solve.node) if e[0] == 'write' and e[2]})
    # attributes (re)initialised by solve_jump_conditions before the call of solve: through the setters it calls
    init = set(); seen_solve = False
    for n in ast.walk(sj.node):
        pass
    for s in sj.node.body:
        src = ast.unparse(s)
        if '.solve(' in src: break
        for q in ast.walk(s):
            if isinstance(q, ast.Call) and isinstance(q.func, ast.Attribute) and isinstance(q.func.value, ast.Attribute) and q.func.value.attr == 'solver':
                setter = R.find_method(NS, q.func.attr)
                if setter is not None: init |= {e[1] for e in attr_reads_writes(setter.node) if e[0] == 'write' and e[2]}
    # attributes written anywhere after construction
    mutable = set()
    nsd = R.load_module(NS.split(':')[0]).classes['newton_solver']
    for m in nsd.body:
        if isinstance(m, ast.FunctionDef) and m.name != '__init__': mutable |= {e[1] for e in attr_reads_writes(m) if e[0] == 'write'}
    leak = [a for a in reads if a in mutable and a not in init]
    O.append(core.Obl('C06/shared/NohBlackBoxEos.solver:state_read_by_solve_is_reinitialised', 'discharged' if (not shared or not leak) else 'refuted', 'ast-frame-analysis', 0.0,
                      goal='every field of the class-level Newton solver read by solve() is re-initialised by solve_jump_conditions before the solve, or never written after construction',
                      detail='shared class attribute: %s; read by solve: %s; re-initialised: %s; written after construction and not re-initialised: %s' % (shared, reads, sorted(init), leak),
                      cex={'leaking_fields': leak} if (shared and leak) else None, replay=NEWTON_NATIVE if (shared and leak) else None))
    # Blake.elas_param_values: class-level dict updated by every constructor; must not be read by _run
    BL = 'exactpack.solvers.blake.blake:Blake'; run = R.find_method(BL, '_run')
    rd = [e for e in attr_reads_writes(run.node) if e[1] == 'elas_param_values']
    O.append(core.structural('C06/shared/Blake.elas_param_values:not_read_by_run', not rd, goal='the class-level dict Blake.elas_param_values (shared by all instances) is never read by _run', detail=str(rd)))
    # mutable default initial_conditions dict of the black-box Noh wrappers: the wrappers store into the default dict
    src = open(R.module_path('exactpack.solvers.nohblackboxeos.blackboxnoh')).read()
    tree = ast.parse(src); bad = []
    for cd in [n for n in tree.body if isinstance(n, ast.ClassDef)]:
        for f in [n for n in cd.body if isinstance(n, ast.FunctionDef) and n.name == '__init__']:
            dflt = {a.arg for a, d in zip(f.args.args[-len(f.args.defaults):], f.args.defaults) if isinstance(d, (ast.Dict, ast.List))} if f.args.defaults else set()
            for n in ast.walk(f):
                if isinstance(n, ast.Assign):
                    for t in n.targets:
                        if isinstance(t, ast.Subscript) and isinstance(t.value, ast.Name) and t.value.id in dflt and not isinstance(n.value, ast.Constant): bad.append('%s.__init__ line %d stores into its mutable default argument %s' % (cd.name, n.lineno, t.value.id))
    same = True
    O.append(core.Obl('C06/shared/blackboxnoh:mutable_default_arguments', 'discharged' if not bad else 'refuted', 'ast-frame-analysis', 0.0,
                      goal='no constructor stores a call-dependent value into a mutable default argument (a constant stored on every construction is idempotent and changes no later value)', detail='; '.join(bad)[:400],
                      cex={'sites': bad} if bad else None, replay=MUTDEF_NATIVE if bad else None))
    return res


MUTDEF_NATIVE = r'''
import json, inspect
from exactpack.solvers.nohblackboxeos import blackboxnoh as m
from exactpack.solvers.nohblackboxeos.equations_of_state.eos_library import ideal_gas_eos
before = dict(inspect.signature(m.PlanarNohBlackBox.__init__).parameters['initial_conditions'].default)
m.PlanarNohBlackBox(ideal_gas_eos(5. / 3.))
after = dict(inspect.signature(m.PlanarNohBlackBox.__init__).parameters['initial_conditions'].default)
print(json.dumps({'reproduced': before != after, 'default_before': before, 'default_after_one_construction': after}))
'''


# ------------------------------------------------------------------------------------------------ batch independence
ALLOW = {'ep_piston': ['max(points)'], 'riemann_igeos': ['grid extent']}


def batch_unit():
    from contracts import hydro, burn, riemann as cr, piston
    res = {'obligations': [], 'functions': [], 'engine_errors': []}
    O = res['obligations']
    cats = list(hydro.SOLVERS.items()) + list(burn.SOLVERS.items())
    for key, sc in cats:
        case = sc.cases[0]
        try:
            paths = sc.paths(case)
        except Unsupported as u:
            O.append(core.Obl('C06/batch/%s:pointwise' % key, 'open', 'extraction', 0.0, detail=str(u)[:150])); continue
        notes = sorted({d for p in paths for d in p.dropped if 'batch-dependent' in d})
        O.append(core.Obl('C06/batch/%s:pointwise' % key, 'discharged' if not notes else 'refuted', 'symbolic-execution(A2 map schema)', 0.0,
                          goal='every field is computed element-wise from the request points: no whole-request quantity is read', detail='; '.join(notes)[:300], cex={'solver': key, 'reads': notes} if notes else None))
    # elastic-plastic piston: max(xvec) decides whether the call raises: whole-request quantity, not documented as grid dependence
    sc = piston.SOLVER
    try:
        paths = sc.paths(sc.cases[0])
        notes = sorted({d for p in paths for d in p.dropped if 'batch-dependent' in d})
        infields = any(isinstance(v, sp.Basic) and v.has(piston.xmax_batch, sp.Symbol('max_points', real=True)) for p in paths if p.outcome == 'return' for v in p.value.fields().values())
        inpc = any(any(isinstance(c, sp.Basic) and any(s_.name == 'max_points' for s_ in c.free_symbols) for c in p.pc) for p in paths)
        O.append(core.Obl('C06/batch/ep_piston:max(points)_does_not_decide_the_outcome', 'refuted' if inpc else 'discharged', 'symbolic-execution', 0.0,
                          goal='whether a point is answered does not depend on the other points of the request', detail='max(xvec) enters the path condition (t > max(xvec)/wv_el raises); in returned fields: %s' % infields,
                          cex={'solver': 'ep_piston', 'quantity': 'max(xvec)'} if inpc else None, replay=PISTON_BATCH if inpc else None))
    except Unsupported as u:
        O.append(core.Obl('C06/batch/ep_piston', 'open', 'extraction', 0.0, detail=str(u)[:150]))
    # Riemann IGEOS: grid extents (min/max over wave positions and request) must not occur in any returned field
    try:
        from props import riemann_kit as rk
        sc2, groups, others, paths = rk.load()
        bad = [n for p in paths if p.outcome == 'return' for n, v in p.value.fields().items() if isinstance(v, sp.Basic) and any(s_.name.startswith(('grid_', 'min_Xregs', 'max_Xregs', 'x_grid')) for s_ in v.free_symbols)]
        O.append(core.structural('C06/batch/riemann_igeos:grid_extent_not_in_fields', not bad, goal='the internal grid extent (derived from the request and the waves) does not enter any returned field; each request point is a grid node', detail=str(bad[:4])))
    except Unsupported as u:
        O.append(core.Obl('C06/batch/riemann_igeos', 'open', 'extraction', 0.0, detail=str(u)[:150]))
    return res


PISTON_BATCH = r'''
import json, io, contextlib
import numpy as np
from exactpack.solvers.ep_piston.ep_piston import EPpiston
s = EPpiston()
t = 0.9 / s.wv_el
out = {}
for nm, xs in (('alone', [0.5]), ('with_a_far_point', [0.5, 2.0])):
    try:
        with contextlib.redirect_stdout(io.StringIO()): out[nm] = float(s(np.array(xs), t)['density'][0])
    except Exception as e: out[nm] = 'raises ' + type(e).__name__
print(json.dumps({'reproduced': out['alone'] != out['with_a_far_point'], 'value_at_x=0.5': out}))
'''

HISTORY = r'''
import json, io, contextlib, subprocess, sys, warnings, os
import numpy as np
warnings.simplefilter('ignore')
SPEC = %(spec)r
def build(i):
    import importlib
    mod, cls, kw, pts, t = SPEC[i]
    C = getattr(importlib.import_module(mod), cls)
    with contextlib.redirect_stdout(io.StringIO()): return C(**kw), np.array(pts, dtype=float), t
def call(s, pts, t):
    with contextlib.redirect_stdout(io.StringIO()): r = s(pts, t)
    return [[float(v) if isinstance(v, (float, np.floating)) else None for v in r[n]] for n in r.dtype.names if r[n].dtype.kind == 'f']
if len(sys.argv) > 1:
    i = int(sys.argv[1]); s, p, t = build(i); print(json.dumps(call(s, p, t))); sys.exit(0)
ref = {}
procs = {i: subprocess.Popen([sys.executable, '-c', open(os.environ['HIST_SCRIPT']).read(), str(i)], stdout=subprocess.PIPE, stderr=subprocess.DEVNULL, text=True, env=os.environ) for i in range(len(SPEC))}
for i, pr in procs.items():
    ref[i] = json.loads(pr.communicate()[0].strip().splitlines()[-1])
objs = {i: build(i) for i in range(len(SPEC))}
bad = []
for i in %(order)r:
    s, p, t = objs[i]; got = call(s, p, t)
    a = np.array(got, dtype=float); b = np.array(ref[i], dtype=float)
    if not np.allclose(a, b, rtol=1e-10, atol=1e-300, equal_nan=True): bad.append((SPEC[i][1], float(np.nanmax(np.abs(a - b)))))
print(json.dumps({'reproduced': bool(bad), 'differences': bad, 'history': [SPEC[i][1] for i in %(order)r]}))
'''


def history_unit(tier):
    import tempfile, random
    spec = [('exactpack.solvers.guderley', 'Guderley', {'gamma': 1.4}, [0.3, 0.7], -0.5), ('exactpack.solvers.guderley', 'Guderley', {'gamma': 3.0, 'geometry': 2}, [0.3, 0.7], -0.5),
            ('exactpack.solvers.rmtv', 'Rmtv', {}, [0.2, 0.5], 0.05), ('exactpack.solvers.suolson', 'SuOlson', {}, [0.1, 0.5], 1e-9), ('exactpack.solvers.suolson', 'SuOlson', {'opac': 2.0}, [0.1, 0.5], 1e-9),
            ('exactpack.solvers.sedov', 'Sedov', {'gamma': 1.4}, [0.2, 0.5], 0.5), ('exactpack.solvers.sedov', 'Sedov', {'gamma': 1.6, 'geometry': 2, 'eblast': 0.3}, [0.2, 0.5], 0.5),
            ('exactpack.solvers.riemann.ep_riemann', 'IGEOS_Solver', {}, [0.3, 0.7], 0.2), ('exactpack.solvers.noh', 'Noh', {'gamma': 1.4}, [0.1, 0.5], 0.6)]
    if tier == 'quick': spec = [e for e in spec if e[1] != 'Guderley']      # one Guderley call takes ~150 s: thorough tier only (its module globals are covered deductively by globals/guderley)
    rnd = random.Random(core.SEED + 3)
    order = [rnd.randrange(len(spec)) for _ in range(6 if tier == 'quick' else 24)] + list(range(len(spec)))
    script = HISTORY % dict(spec=spec, order=order)
    d = tempfile.mkdtemp(prefix='verif_hist_'); fn = os.path.join(d, 'hist.py'); open(fn, 'w').write(script)
    os.environ['HIST_SCRIPT'] = fn
    try:
        r_ = native.run_script(script, timeout=3000)
    finally:
        import shutil; shutil.rmtree(d, ignore_errors=True)
    ok = r_.get('result') is not None and not r_['result'].get('reproduced')
    out = {'obligations': [], 'functions': [], 'engine_errors': [] if r_.get('result') is not None else ['history check did not run: ' + (r_.get('stderr_tail') or '')[-300:]],
           'bounded': [{'name': 'C06/bounded/interleaved_histories', 'status': 'pass' if ok else 'fail', 'evaluations': len(order), 'bound': 'one history of %d calls over %d solver objects (module-global state families included), each compared with a fresh-interpreter reference' % (len(order), len(spec)),
                        'tolerance': 'rtol 1e-10', 'detail': json.dumps(r_.get('result'))[:300] if r_.get('result') else '', 'replay': None}]}
    return out


PERMUTE = r"""
import json, io, contextlib, importlib, warnings, signal
import numpy as np
warnings.simplefilter('ignore')
classes = %(classes)r; loose = %(loose)r
class Alarm(BaseException): pass
FIRED = [False]
def handler(*a):
    FIRED[0] = True          # the exception may be swallowed inside a SciPy callback: the flag is authoritative
    raise Alarm()
signal.signal(signal.SIGALRM, handler)
out = {}
for key in classes:
    mod, cls = key.split(':'); bad = []; FIRED[0] = False
    try:
        C = getattr(importlib.import_module(mod), cls)
        signal.alarm(%(per)d)
        with contextlib.redirect_stdout(io.StringIO()): s = C()
        r = None
        for dim in (1, 2, 3):
            b1 = np.array([0.23, 0.45, 0.61, 0.87, 1.13])
            base = b1 if dim == 1 else np.column_stack([b1 * (3.1 + j) for j in range(dim)])
            for t in (0.6, 0.05):
                try:
                    with contextlib.redirect_stdout(io.StringIO()): r = s(base.copy(), t)
                    break
                except Exception: r = None
            if r is not None: break
        if r is None: out[key] = {'evaluated': False, 'failures': []}; signal.alarm(0); continue
        perm = np.array([3, 0, 4, 2, 1])
        with contextlib.redirect_stdout(io.StringIO()):
            rp = s(base[perm].copy(), t); rs = s(base[[1, 3]].copy(), t); rd = s(np.concatenate([base[[2]], base, base[[2]]]).copy(), t)
        tol = 2e-2 if any(q in key for q in loose) else 1e-9
        for n in r.dtype.names:
            a = np.asarray(r[n], dtype=float) if r[n].dtype.kind in 'fiu' else None
            if a is None: continue
            sc_ = np.nanmax(np.abs(a)) + 1e-300
            for lab, got, idx in (('permuted request', rp[n], perm), ('subset request', rs[n], [1, 3]), ('request with duplicates', rd[n][1:6], [0, 1, 2, 3, 4])):
                g = np.asarray(got, dtype=float); w = a[idx]
                ok = np.all((np.abs(g - w) <= tol * sc_) | (np.isnan(g) & np.isnan(w)))
                if not ok: bad.append((lab, n, [float(x) for x in w][:5], [float(x) for x in g][:5])); break
        signal.alarm(0)
        out[key] = {'evaluated': True, 'failures': bad[:4], 'tolerance': tol}
    except Alarm: out[key] = {'evaluated': False, 'failures': [], 'timeout': True}
    except Exception as e: out[key] = {'evaluated': False, 'failures': [], 'error': type(e).__name__}; signal.alarm(0)
    if FIRED[0]: out[key] = {'evaluated': False, 'failures': [], 'timeout': True}
print(json.dumps({'reproduced': any(v['failures'] for v in out.values()), 'classes': out}))
"""
LOOSE = ['sedov', 'sdrz', 'riemann', 'guderley', 'radshocks', 'ehep']      # documented grid dependence: internal grids / interpolation tables built from the request (tolerance 2e-2)
SKIP = ['ep_piston', 'mader']      # ep_piston: known finding (raises depending on max(xvec)); Mader: the request *is* the cell grid (cell width from first/last point, documented cell averages): permutations are not the same problem


def permutation_unit(chunk, tier):
    """bounded: value at a point does not depend on order, subsets, supersets or duplicates of the request (one default-constructed object per class)"""
    r_ = native.run_script(PERMUTE % dict(classes=chunk, loose=LOOSE, per=25 if tier == 'quick' else 400), timeout=3600)
    res = {'obligations': [], 'functions': [], 'engine_errors': [], 'bounded': []}
    if r_.get('result') is None:
        res['engine_errors'].append('bounded permutation check did not run: ' + (r_.get('stderr_tail') or '')[-300:]); return res
    for k in chunk:
        v = r_['result']['classes'].get(k, {'evaluated': False, 'failures': []})
        res['bounded'].append({'name': 'C06/bounded/permutation/%s' % k.replace('exactpack.solvers.', ''), 'status': 'fail' if v['failures'] else 'pass', 'evaluations': 4 if v.get('evaluated') else 0,
                               'bound': 'default parameters, 5 points: original order, a permutation, a 2-point subset, a superset with duplicates%s' % ('' if v.get('evaluated') else ' (not evaluated: %s)' % ('time budget' if v.get('timeout') else v.get('error', 'not default-callable'))),
                               'tolerance': str(v.get('tolerance', '')), 'detail': json.dumps(v['failures'])[:300], 'replay': PERMUTE % dict(classes=[k], loose=LOOSE, per=600) if v['failures'] else None})
    return res


def units(tier):
    us = [('globals/' + m.replace('exactpack.solvers.', ''), {'kind': 'glob', 'mod': m}) for m in modules_with_globals()]
    us += [('instance', {'kind': 'inst'}), ('shared', {'kind': 'shared'}), ('batch', {'kind': 'batch'}), ('history', {'kind': 'hist', 'tier': tier})]
    from props.c05 import solver_classes
    cl = [k for k in solver_classes() if not any(q in k for q in SKIP)]; n = 12
    us = [('permutation/%d' % i, {'kind': 'perm', 'chunk': cl[i::n], 'tier': tier}) for i in range(n) if cl[i::n]] + us
    return us


def run_unit(name, kind, mod=None, tier='quick', chunk=None):
    if kind == 'perm': return permutation_unit(chunk, tier)
    if kind == 'glob': return globals_unit(mod)
    if kind == 'inst': return instance_unit()
    if kind == 'shared': return shared_state_unit()
    if kind == 'batch': return batch_unit()
    return history_unit(tier)
