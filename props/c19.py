"""C19 - 2-D steady Riemann: oblique-shock / Prandtl-Meyer relations, balanced slip line."""
import json
import sympy as sp
from vc import core, extract, smt, native, repo as R
from vc.values import *

LEVEL = 'proof'
MOD = 'exactpack/solvers/riemann2D_2section_steadystate/riemann2D_2section_steadystate.py'
KEY = 'exactpack.solvers.riemann2D_2section_steadystate.riemann2D_2section_steadystate:SetupRiemannProblem'
EXPLANATION = ("Function contracts on the real SetupRiemannProblem methods (symbolic upstream state, gamma, pressure): compression_states satisfies the oblique-shock conservation laws "
               "(mass, normal momentum, total enthalpy; tangential velocity continuous by taking the shock normal along the velocity jump) between the upstream state and the state it returns, "
               "the shock angle solved for by determine_shock_angle obeys the theta-beta-M relation and that relation agrees with the deflection of compression_states at the corresponding pressure ratio; "
               "expansion_states stays on the upstream isentrope with constant total enthalpy and turns the flow by PM(M0) - PM(Ms) with PM the coded callee (modular), and PM is compared with the Prandtl-Meyer function nu(M); "
               "set_starstate_values gives both star states the solved pressure and the contact direction with |velocity| = Mach x sound speed. "
               "Bounded stand-in (run time, not proof): the assembled solver (pressure-deflection intersection, region assignment, fan interior) on sampled state pairs.")
ASSUMPTIONS = ["A5 scipy.optimize.fsolve returns a root of the function it is given (shock angle, star pressure, fan interior pressure)",
               "elementary lemma: a, b > 0 and a^2 = b^2 imply a = b (used to remove the nested square root cos(atan(T)) = 1/sqrt(1+T^2) from the mass obligation)",
               "weak-shock domain: real deflection (2 g M0^2 - (g+1) alpha - (g-1) > 0), g M0^2 - alpha + 1 > 0 and real downstream Mach number",
               "find_overlap / determine_state_functions (tabulated pressure-deflection curves, interp, bisect) and assign_lineout_vals (row-wise mutation, fsolve per point) are outside the executor: covered by the bounded check only"]

ps, p0, r0, M0, g = sp.symbols('ps p0 r0 M0 g', positive=True); th = sp.Symbol('theta0', real=True)
STATE = (p0, r0, M0, th, g)


def _finfo(*names):
    return [{'ref': '%s::SetupRiemannProblem.%s' % (MOD, n), 'sha256_16': R.source_hash(R.func_ref('%s::SetupRiemannProblem.%s' % (MOD, n)))} for n in names]


def _run(fn, args, hyps, externals=None, attrs=None):
    return extract.run_function('%s::SetupRiemannProblem.%s' % (MOD, fn), args, hyps=hyps, self_obj=Obj(KEY, dict(attrs or {})), externals=externals)


NATIVE = r"""
import json, math
import numpy as np
from exactpack.solvers.riemann2D_2section_steadystate.riemann2D_2section_steadystate import SetupRiemannProblem as S
s = object.__new__(S)
P = %(pt)r; kind = %(kind)r
p0, r0, M0, th, g, ps = P['p0'], P['r0'], P['M0'], P.get('theta0', 0.0), P['g'], P['ps']
out = {}
if kind in ('mass', 'momentum', 'energy'):
    d, rs, Ms = s.compression_states(ps, (p0, r0, M0, th, g))
    q0 = M0 * math.sqrt(g * p0 / r0); qs = Ms * math.sqrt(g * ps / rs)
    w0 = np.array([q0, 0.0]); ws = qs * np.array([math.cos(d), math.sin(d)]); n = w0 - ws
    res = {'mass': (r0 * w0.dot(n) - rs * ws.dot(n)) / (r0 * q0 * np.linalg.norm(n)),
           'momentum': ((ps - p0) * n.dot(n) - (r0 * w0.dot(n) ** 2 - rs * ws.dot(n) ** 2)) / (p0 * n.dot(n)),
           'energy': (g / (g - 1) * p0 / r0 + q0 ** 2 / 2 - g / (g - 1) * ps / rs - qs ** 2 / 2) / (q0 ** 2)}[kind]
    out = {'reproduced': bool(abs(res) > 1e-8), 'normalised_residual': float(res)}
elif kind == 'pm':
    M = P['M0']; nu = math.sqrt((g + 1) / (g - 1)) * math.atan(math.sqrt((g - 1) / (g + 1) * (M * M - 1))) - math.atan(math.sqrt(M * M - 1))
    v = float(s.PrandtlMeyer_function(M, g)); out = {'reproduced': bool(abs(v - nu) > 1e-9), 'coded': v, 'prandtl_meyer_nu': nu}
elif kind in ('isentrope', 'enthalpy', 'turning'):
    d, rs, Ms = s.expansion_states(ps, (p0, r0, M0, th, g))
    res = {'isentrope': ps / rs ** g / (p0 / r0 ** g) - 1,
           'enthalpy': (ps / rs * (1 + (g - 1) / 2 * Ms ** 2)) / (p0 / r0 * (1 + (g - 1) / 2 * M0 ** 2)) - 1,
           'turning': d - (s.PrandtlMeyer_function(M0, g) - s.PrandtlMeyer_function(Ms, g))}[kind]
    out = {'reproduced': bool(abs(res) > 1e-9), 'residual': float(res)}
print(json.dumps(out))
"""


def _fin(o, kind, syms=(p0, r0, M0, g, ps)):
    if o['status'] == 'refuted' and o.get('cex_raw') is not None:
        pt = {s_.name: float(sp.sympify(o['cex_raw'].get(s_.name, 1.5))) for s_ in syms}; pt['theta0'] = float(sp.sympify(o['cex_raw'].get('theta0', 0)))
        o['replay'] = NATIVE % dict(pt=pt, kind=kind)
    o.pop('cex_raw', None); return o


def unit_compression():
    res = {'obligations': [], 'functions': _finfo('compression_states'), 'engine_errors': []}; O = res['obligations']
    hy = [g > 1, M0 > 1, ps > p0]
    paths = _run('compression_states', [ps, STATE], hy)
    O.append(core.structural('C19/compression/single_path', len(paths) == 1 and paths[0].outcome == 'return', '%d paths' % len(paths), None, 'path-analysis', 'compression_states is straight-line'))
    if len(paths) != 1: return res
    d, rs, Ms = [sp.sympify(v) for v in paths[0].value]
    if not isinstance(d, sp.atan): O.append(core.Obl('C19/compression/deflection_is_arctan', 'open', 'extraction', 0.0, detail=str(d)[:200])); return res
    T = d.args[0]; al = ps / p0
    hy2 = hy + [2 * g * M0 ** 2 - (g + 1) * al - (g - 1) > 0, g * M0 ** 2 - al + 1 > 0, M0 ** 2 * ((g + 1) * al + g - 1) - 2 * (al ** 2 - 1) > 0]
    q0sq = M0 ** 2 * g * p0 / r0; qssq = sp.simplify(Ms ** 2) * g * ps / rs
    Rr = (r0 * q0sq + rs * qssq) / (r0 + rs)              # the value q0.qs cos(delta) must take for mass conservation across a shock normal to the velocity jump
    P2 = q0sq * qssq / (1 + sp.expand(T ** 2))            # (q0 qs cos(atan T))^2
    O.append(_fin(core.prove_zero('C19/compression/energy', g / (g - 1) * p0 / r0 + q0sq / 2 - g / (g - 1) * ps / rs - qssq / 2, hy2, goal_text='total enthalpy is conserved across the oblique shock'), 'energy'))
    O.append(_fin(core.prove_zero('C19/compression/mass', P2 - Rr ** 2, hy2, goal_text='rho0 (w0.n) = rho_s (w_s.n) with n along the velocity jump, squared form (q0 qs cos delta)^2 = ((rho0 q0^2 + rho_s q_s^2)/(rho0 + rho_s))^2'), 'mass'))
    O.append(_fin(core.prove_valid('C19/compression/mass:sign', hy2, T >= 0, goal_text='deflection in [0, pi/2): cos(delta) > 0 and both sides of the squared mass identity are positive, so it is the identity itself'), 'mass'))
    Pd = sp.Symbol('Pdot', positive=True)
    mom = ((ps - p0) * (q0sq - 2 * Pd + qssq) - (r0 * (q0sq - Pd) ** 2 - rs * (Pd - qssq) ** 2)).subs(Pd, Rr)
    O.append(_fin(core.prove_zero('C19/compression/momentum', mom, hy2, goal_text='p + rho (w.n)^2 is conserved across the oblique shock (given mass)'), 'momentum'))
    O.append(_fin(core.prove_valid('C19/compression/density_rises', hy2, rs > r0, goal_text='rho_s > rho0 for ps > p0'), 'mass'))
    # translation validation against the real methods
    from vc import propkit
    items = []; exp = []
    MODN = KEY.split(':')[0]
    for fn, cases in (('compression_states', ((1.9, 1.3, 0.7, 2.6, 4.0, 1.4), (1.2, 1.0, 1.0, 3.0, -7.0, 1.67))), ('expansion_states', ((0.6, 1.3, 0.7, 2.6, 4.0, 1.4), (0.2, 1.0, 1.0, 3.0, -7.0, 1.67)))):
        pth = _run(fn, [ps, STATE], [g > 1, M0 > 1])
        for (ps_, p0_, r0_, M_, th_, g_) in cases:
            pt = {ps: sp.Rational(str(ps_)), p0: sp.Rational(str(p0_)), r0: sp.Rational(str(r0_)), M0: sp.Rational(str(M_)), th: sp.Rational(str(th_)), g: sp.Rational(str(g_))}
            ex = propkit.expected_from_paths(pth, pt)
            if ex is None: continue
            items.append({'module': MODN, 'cls': 'SetupRiemannProblem', 'ctor': None, 'name': fn, 'args': [ps_, [p0_, r0_, M_, th_, g_]]}); exp.append(ex)
    n_, mm = propkit.tv_functions(items, exp, rtol=1e-9)
    propkit.tv_report(res, 2, n_, mm)
    return res


def nu(M, g_):
    return sp.sqrt((g_ + 1) / (g_ - 1)) * sp.atan(sp.sqrt((g_ - 1) / (g_ + 1) * (M ** 2 - 1))) - sp.atan(sp.sqrt(M ** 2 - 1))


def unit_pm():
    res = {'obligations': [], 'functions': _finfo('PrandtlMeyer_function'), 'engine_errors': []}; O = res['obligations']
    hy = [g > 1, M0 > 1]
    paths = _run('PrandtlMeyer_function', [M0, g], hy)
    v = sp.sympify(paths[0].value)
    O.append(_fin(core.prove_zero('C19/prandtl_meyer/equals_nu', v - nu(M0, g), hy, goal_text='PrandtlMeyer_function(M, g) == sqrt((g+1)/(g-1)) atan(sqrt((g-1)/(g+1) (M^2-1))) - atan(sqrt(M^2-1))', ranges={M0: (1.05, 6.0), g: (1.1, 3.0)}), 'pm'))
    O.append(_fin(core.prove_zero('C19/prandtl_meyer/zero_at_sonic', v.subs(M0, 1), [g > 1], goal_text='nu(1) = 0'), 'pm'))
    return res


def unit_expansion():
    res = {'obligations': [], 'functions': _finfo('expansion_states', 'PrandtlMeyer_function'), 'engine_errors': []}; O = res['obligations']
    hy = [g > 1, M0 > 1, ps < p0]
    PMf = sp.Function('PM')
    def pm_ext(I, a, k): return PMf(sp.sympify(a[-2]), sp.sympify(a[-1]))
    # modular: the callee PrandtlMeyer_function is replaced by its (uninterpreted) contract symbol
    paths = extract.run_function('%s::SetupRiemannProblem.expansion_states' % MOD, [ps, STATE], hyps=hy, self_obj=Obj(KEY, {}), opaque={'SetupRiemannProblem.PrandtlMeyer_function': pm_ext})
    O.append(core.structural('C19/expansion/single_path', len(paths) == 1 and paths[0].outcome == 'return', '%d paths' % len(paths), None, 'path-analysis', 'expansion_states is straight-line'))
    if len(paths) != 1: return res
    d, rs, Ms = [sp.sympify(v) for v in paths[0].value]
    O.append(_fin(core.prove_zero('C19/expansion/isentrope', ps / rs ** g - p0 / r0 ** g, hy, goal_text='p / rho^gamma is that of the upstream state'), 'isentrope'))
    O.append(_fin(core.prove_zero('C19/expansion/total_enthalpy', ps / rs * (1 + (g - 1) / 2 * Ms ** 2) - p0 / r0 * (1 + (g - 1) / 2 * M0 ** 2), hy + [Ms ** 2 > 0], goal_text='c^2/(g-1) + q^2/2 is that of the upstream state'), 'enthalpy'))
    Msx = sp.simplify(Ms)
    tgt = PMf(M0, g) - PMf(Ms, g)
    ok = sp.simplify(d - tgt) == 0
    if not ok:
        # the callee may be applied to a syntactically different but equal Mach number (M0 is recomputed from the velocity components): compare arguments
        calls = sorted(d.atoms(sp.Function) & {a for a in d.atoms(sp.Function) if a.func == PMf}, key=str)
        o = core.prove_zero('C19/expansion/turning', d.subs({c: nu(*c.args) for c in calls}) - (nu(M0, g) - nu(Ms, g)), hy + [Ms > 1], goal_text='deflection == PM(M0) - PM(Ms) (callee contract)')
        O.append(_fin(o, 'turning'))
    else:
        O.append(core.structural('C19/expansion/turning', True, 'deflection is PM(M0, g) - PM(Ms, g) with the coded callee', None, 'ring-mod-laws(sympy)', 'deflection == PM(M0) - PM(Ms) (callee contract)'))
    w = sp.Symbol('w_pow', positive=True)        # w = (ps/p0)^((g-1)/g) in (0, 1) for ps < p0, g > 1 (monotonicity of real powers, A3)
    Ms2 = sp.simplify(sp.powdenest(sp.simplify((Ms ** 2).subs(ps, p0 * w ** (g / (g - 1)))), force=True))      # ps = p0 w^(g/(g-1)), so that (ps/p0)^((g-1)/g) = w
    if Ms2.has(ps): O.append(core.Obl('C19/expansion/mach_rises', 'open', 'extraction', 0.0, detail='power atom not isolated: %s' % str(Ms2)[:200]))
    else: O.append(_fin(core.prove_valid('C19/expansion/mach_rises', [g > 1, M0 > 1, w < 1], Ms2 > M0 ** 2, goal_text='Ms > M0 for ps < p0'), 'isentrope'))
    return res


def unit_shock_angle():
    res = {'obligations': [], 'functions': _finfo('determine_shock_angle', 'compression_states'), 'engine_errors': []}; O = res['obligations']
    ang = sp.Symbol('angle', real=True); beta = sp.Symbol('beta', positive=True)
    box = {}
    def fsolve(I, a, k):
        f = a[0]; r_ = I.apply(f, [beta], {}); box['res'] = sp.sympify(r_); box['guess'] = a[1] if len(a) > 1 else None
        return Vec([beta])
    hy = [g > 1, M0 > 1, beta < sp.pi / 2, sp.sin(beta) * M0 > 1]
    paths = _run('determine_shock_angle', [STATE], hy, externals={'scipy.optimize.fsolve': fsolve}, attrs={'deflection_angle_solution': ang})
    if 'res' not in box: O.append(core.Obl('C19/shock_angle/extraction', 'open', 'extraction', 0.0, detail='fsolve not reached')); return res
    spec = 2 / sp.tan(beta) * (M0 ** 2 * sp.sin(beta) ** 2 - 1) / (M0 ** 2 * (g + sp.cos(2 * beta)) + 2)
    th_rad = th * sp.pi / 180
    O.append(core.prove_zero('C19/shock_angle/theta_beta_M', box['res'] - (spec - sp.tan(ang - th_rad)), hy, goal_text='the equation solved for the shock angle beta (relative to the upstream flow) is tan(turning angle) = 2 cot(beta) (M^2 sin^2 beta - 1)/(M^2 (g + cos 2 beta) + 2), turning angle = contact direction - upstream flow angle'))
    O.append(core.prove_zero('C19/shock_angle/returns_root', sp.sympify(paths[0].value) - (th_rad + beta), hy, goal_text='determine_shock_angle returns upstream flow angle + fsolve root (polar angle of the shock)') if len(paths) == 1 else
             core.structural('C19/shock_angle/returns_root', False, '%d paths' % len(paths), None, 'path-analysis', 'single path'))
    # consistency with the state relations: at the pressure ratio of a shock of angle beta, compression_states turns the flow by the same angle
    s = sp.Symbol('s', positive=True)
    alpha = 1 + 2 * g / (g + 1) * (M0 ** 2 * s ** 2 - 1)
    pc, = _run('compression_states', [alpha * p0, STATE], [g > 1, M0 > 1, s < 1, s * M0 > 1])
    d = sp.sympify(pc.value[0])
    if isinstance(d, sp.atan):
        T = d.args[0]
        spec_s = 2 * sp.sqrt(1 - s ** 2) / s * (M0 ** 2 * s ** 2 - 1) / (M0 ** 2 * (g + 1 - 2 * s ** 2) + 2)
        hs = [g > 1, M0 > 1, s < 1, s * M0 > 1]
        O.append(core.prove_zero('C19/shock_angle/consistent_with_compression_states', sp.expand(T ** 2) - spec_s ** 2, hs, goal_text='tan^2(deflection of compression_states at alpha(beta)) == (theta-beta-M relation at beta)^2 (s = sin beta)'))
        O.append(core.prove_valid('C19/shock_angle/consistent_with_compression_states:sign', hs, sp.And(T >= 0, spec_s >= 0), goal_text='both tangents are non-negative for sin(beta) in (1/M, 1), so the squared identity is the identity itself'))
    for o in O: o.pop('cex_raw', None)
    return res


def unit_star(morph):
    res = {'obligations': [], 'functions': _finfo('set_starstate_values', 'compression_states', 'expansion_states'), 'engine_errors': []}; O = res['obligations']
    pB, rB, MB, gB, pT, rT, MT, gT, pst = sp.symbols('pB rB MB gB pT rT MT gT p_star', positive=True)
    thB, thT, cd, muB, muT = sp.symbols('thetaB thetaT cd_angle muB muT', real=True); thBd, thTd = sp.symbols('thetaB_deg thetaT_deg', real=True)
    betaB, betaT = sp.symbols('beta_B beta_T', positive=True)
    cnt = [0]
    def fsolve(I, a, k):
        cnt[0] += 1; return Vec([betaB if cnt[0] == 1 else betaT])
    attrs = {'top_state': (pT, rT, MT, thTd, gT), 'bottom_state': (pB, rB, MB, thBd, gB), 'thetaB_rad': thB, 'thetaT_rad': thT, 'gB': gB, 'gT': gT, 'pressure_solution': pst,
             'deflection_angle_solution': cd, 'morphology': morph, 'muB_rad': muB, 'muT_rad': muT}
    hy = [gB > 1, gT > 1, MB > 1, MT > 1]
    base = 'C19/star/%s' % morph
    obj = Obj(KEY, dict(attrs))
    try:
        paths = extract.run_function('%s::SetupRiemannProblem.set_starstate_values' % MOD, [], hyps=hy, self_obj=obj, externals={'scipy.optimize.fsolve': fsolve})
    except Unsupported as u_:
        O.append(core.Obl(base + '/extraction', 'open', 'extraction', 0.0, detail='extraction: %s' % u_)); return res
    O.append(core.structural(base + '/single_path', len(paths) == 1 and paths[0].outcome == 'return', '%d paths' % len(paths), None, 'path-analysis', 'one path per morphology'))
    if len(paths) != 1: return res
    A = obj.attrs
    for side, g_, r_, M_ in (('bottom', gB, 'rB_star', 'MB_star'), ('top', gT, 'rT_star', 'MT_star')):
        vals = A['%s_star_vals' % side]; vals = list(vals.items) if hasattr(vals, 'items') and not isinstance(vals, dict) else list(vals)
        p_, rr, MM, u_, v_ = [sp.sympify(x) for x in vals]
        O.append(core.prove_zero('%s/%s:pressure_is_star_pressure' % (base, side), p_ - pst, hy, goal_text='pressure on the %s side of the slip line is the solved star pressure' % side))
        O.append(core.prove_zero('%s/%s:flow_direction_is_contact_angle' % (base, side), u_ * sp.sin(cd) - v_ * sp.cos(cd), hy, goal_text='velocity on the %s side of the slip line is parallel to the slip line' % side))
        O.append(core.prove_zero('%s/%s:speed=Mach*sound' % (base, side), u_ ** 2 + v_ ** 2 - MM ** 2 * g_ * p_ / rr, hy + [MM ** 2 > 0, rr > 0], goal_text='u^2 + v^2 == M^2 gamma p / rho'))
        wave = morph[0] if side == 'bottom' else morph[4]
        st = (pB, rB, MB, thBd, gB) if side == 'bottom' else (pT, rT, MT, thTd, gT)
        ref = _run('compression_states' if wave == 'S' else 'expansion_states', [pst, st], hy)[0].value
        O.append(core.prove_zero('%s/%s:density_from_%s_states' % (base, side, 'compression' if wave == 'S' else 'expansion'), rr - sp.sympify(ref[1]), hy, goal_text='star density is the one of the %s relation at the star pressure' % ('shock' if wave == 'S' else 'fan')))
        O.append(core.prove_zero('%s/%s:mach_from_%s_states' % (base, side, 'compression' if wave == 'S' else 'expansion'), MM - sp.sympify(ref[2]), hy, goal_text='star Mach number is the one of the %s relation at the star pressure' % ('shock' if wave == 'S' else 'fan')))
    for o in O: o.pop('cex_raw', None)
    return res


def unit_lineout():
    """assign_lineout_vals: the preamble (state lists) and the two fan-interior blocks, extracted mechanically from the real method body and executed symbolically.
    Dropped by the extraction: the row loop, the region-selection comparisons and the final slice store `vals[3:] = [...]` (its right-hand side is evaluated instead)."""
    import ast
    from vc import sx
    res = {'obligations': [], 'functions': _finfo('assign_lineout_vals', 'expansion_states'), 'engine_errors': []}; O = res['obligations']
    fv = R.func_ref('%s::SetupRiemannProblem.assign_lineout_vals' % MOD)
    body = fv.node.body
    loops = [n for n in body if isinstance(n, ast.For)]
    if len(loops) != 1: O.append(core.Obl('C19/lineout/extraction', 'open', 'extraction', 0.0, detail='%d row loops' % len(loops))); return res
    pre = [n for n in body[:body.index(loops[0])] if not (isinstance(n, ast.Assign) and any(isinstance(t_, ast.Name) and t_.id in ('xy_thetas_rad', 'lineout_vals') for t_ in n.targets))]
    pB, rB, MB, gB, pT, rT, MT, gT, pst = sp.symbols('pB rB MB gB pT rT MT gT p_star', positive=True)
    thBd, thTd = sp.symbols('thetaB_deg thetaT_deg', real=True)
    names = ['uB', 'vB', 'uT', 'vT', 'rB_star', 'MB_star', 'uB_star', 'vB_star', 'rT_star', 'MT_star', 'uT_star', 'vT_star']
    A = {n: sp.Symbol(n, positive=n[0] in 'rM', real=True) for n in names}
    attrs = dict(A, bottom_state=(pB, rB, MB, thBd, gB), top_state=(pT, rT, MT, thTd, gT), pressure_solution=pst,
                 angles={'BR': Vec([sp.Symbol('aBR0', real=True), sp.Symbol('aBR1', real=True)]), 'TR': Vec([sp.Symbol('aTR0', real=True), sp.Symbol('aTR1', real=True)]), 'CD': sp.Symbol('aCD', real=True)}, morphology='R-C-R')
    hy = [gB > 1, gT > 1, MB > 1, MT > 1]
    fans = []
    for n in ast.walk(loops[0]):
        if isinstance(n, ast.If):
            src = ast.unparse(n.test).replace(' ', '')
            for key in ('BR', 'TR'):
                if src == "angles['%s'][0]<vals[2]<angles['%s'][1]" % (key, key): fans.append((key, n.body))
    O.append(core.structural('C19/lineout/two_fan_blocks', sorted(k for k, _ in fans) == ['BR', 'TR'], str([k for k, _ in fans]), None, 'ast-structural', 'one fan-interior block per side'))
    phi = sp.Symbol('polar_angle', real=True); pf = sp.Symbol('p_fan', positive=True)
    for key, blk in fans:
        side = 'bottom' if key == 'BR' else 'top'
        st, g_, thd = ((pB, rB, MB, thBd, gB), gB, thBd) if key == 'BR' else ((pT, rT, MT, thTd, gT), gT, thTd)
        box = {}
        def fsolve(I, a, k, box=box):
            box['res'] = sp.sympify(I.apply(a[0], [pf], {})); return Vec([pf])
        last = blk[-1]
        ok_last = isinstance(last, ast.Assign) and ast.unparse(last.targets[0]).replace(' ', '') == 'vals[3:]'
        def thunk(run, blk=blk, last=last):
            I = sx.Interp(run, externals={'scipy.optimize.fsolve': fsolve})
            obj = Obj(KEY, dict(attrs)); env = sx.Env(fv.module, None, fv)
            env.locals.update({'self': obj, 'xs': Arr(sp.Symbol('xq', real=True)), 'ys': Arr(sp.Symbol('yq', real=True)), 'ii': sp.Symbol('row', integer=True, nonnegative=True),
                               'vals': Vec([sp.Symbol('xq', real=True), sp.Symbol('yq', real=True), phi] + [sp.Symbol('old%d' % i_) for i_ in range(6)]), 'p_low': sp.Symbol('p_low_prev', positive=True), 'p_high': sp.Symbol('p_high_prev', positive=True)})
            I.block(pre, env)
            env.locals['angles'] = attrs['angles']
            I.block(blk[:-1], env)
            return I.eval(last.value, env), {k_: env.locals.get(k_) for k_ in ('bottom_vals', 'top_vals', 'bottom_star_vals', 'top_star_vals')}
        base = 'C19/lineout/%s_fan' % side
        try:
            paths = [p_ for p_ in sx.explore(thunk, hyps=hy, feas=extract.default_feas) if p_.outcome == 'return'] if ok_last else []
        except Unsupported as u_:
            O.append(core.Obl(base + '/extraction', 'open', 'extraction', 0.0, detail=str(u_)[:200])); continue
        if len(paths) != 1 or 'res' not in box:
            O.append(core.Obl(base + '/extraction', 'open', 'extraction', 0.0, detail='%d paths; store is vals[3:]: %s; fsolve reached: %s' % (len(paths), ok_last, 'res' in box))); continue
        row, lists = paths[0].value
        p_, r_, sie_, M_, u_, v_ = [sp.sympify(q) for q in (row.items if hasattr(row, 'items') and not isinstance(row, dict) else row)]
        p0_, r0_ = st[0], st[1]
        ref_d, ref_r, ref_M = [sp.sympify(q) for q in _run('expansion_states', [pf, st], hy)[0].value]
        h2 = hy + [pf < p0_]
        O.append(core.prove_zero(base + '/pressure_is_fsolve_root', p_ - pf, h2, goal_text='pressure inside the fan is the root of the turning-angle equation'))
        sgn = 1 if key == 'BR' else -1          # bottom fan: deflection + this_angle = 0 ; top fan: deflection - this_angle = 0
        ang0 = attrs['angles'][key].items[0 if key == 'BR' else 1]
        O.append(core.prove_zero(base + '/turning_equation', box['res'] - (ref_d + sgn * (phi - ang0)), h2, goal_text='the equation solved is deflection(p; outer %s state) %s (polar angle - fan edge angle) = 0 with the expansion relation of the %s state' % (side, '+' if sgn > 0 else '-', side)))
        O.append(core.prove_zero(base + '/density_on_isentrope', p_ / r_ ** g_ - p0_ / r0_ ** g_, h2, goal_text='p / rho^gamma of the %s state (own gamma)' % side))
        O.append(core.prove_zero(base + '/mach_from_expansion_states', M_ - ref_M, h2, goal_text='Mach number from the expansion relation of the %s state' % side))
        O.append(core.prove_zero(base + '/sie=p/(rho(gamma-1))', sie_ - p_ / r_ / (g_ - 1), h2, goal_text='specific internal energy with the gamma of the %s gas' % side))
        O.append(core.prove_zero(base + '/speed=Mach*sound', u_ ** 2 + v_ ** 2 - M_ ** 2 * g_ * p_ / r_, h2 + [M_ ** 2 > 0], goal_text='u^2 + v^2 == M^2 gamma p / rho with the gamma of the %s gas' % side))
        fl = thd * sp.pi / 180 + (phi - ang0)
        O.append(core.prove_zero(base + '/flow_direction', u_ * sp.sin(fl) - v_ * sp.cos(fl), h2, goal_text='flow angle == upstream flow angle %s deflection' % ('-' if sgn > 0 else '+')))
        if key == 'BR':
            for nm, want in (('bottom_vals', [pB, rB, pB / rB / (gB - 1), MB, A['uB'], A['vB']]), ('top_vals', [pT, rT, pT / rT / (gT - 1), MT, A['uT'], A['vT']]),
                             ('bottom_star_vals', [pst, A['rB_star'], pst / A['rB_star'] / (gB - 1), A['MB_star'], A['uB_star'], A['vB_star']]),
                             ('top_star_vals', [pst, A['rT_star'], pst / A['rT_star'] / (gT - 1), A['MT_star'], A['uT_star'], A['vT_star']])):
                got = lists.get(nm); got = list(got.items) if hasattr(got, 'items') and not isinstance(got, dict) else (list(got) if got is not None else None)
                if got is None or len(got) != 6: O.append(core.structural('C19/lineout/%s' % nm, False, str(got)[:100], None, 'path-analysis', '%s = [p, rho, sie, M, u, v]' % nm)); continue
                for q, (g1, w1) in zip(('p', 'rho', 'sie', 'M', 'u', 'v'), zip(got, want)):
                    O.append(core.prove_zero('C19/lineout/%s:%s' % (nm, q), sp.sympify(g1) - w1, hy, goal_text='%s entry %s (sie with the gamma of its own gas)' % (nm, q)))
    for o in O: o.pop('cex_raw', None)
    return res


BOUNDED = r'''
import json, io, contextlib, warnings, math
import numpy as np
warnings.simplefilter('ignore')
from exactpack.solvers.riemann2D_2section_steadystate.riemann2D_2section_steadystate import SetupRiemannProblem as S
out = {}
cases = %(cases)r
for name, bottom, top in cases:
    bad = []
    try:
        with contextlib.redirect_stdout(io.StringIO()): s = S(list(bottom), list(top))
    except Exception as e:
        out[name] = {'solved': False, 'failures': []}; continue
    xs = np.full(181, 1.0); ys = np.tan(np.linspace(-1.2, 1.2, 181))
    with contextlib.redirect_stdout(io.StringIO()): s.assign_lineout_vals(xs, ys)
    x, y, th, p, r, sie, M, u, v, spd = s.lineout_vals
    cdang = s.angles['CD']
    for i in range(len(x)):
        gam = bottom[4] if th[i] < cdang else top[4]
        if abs(u[i] ** 2 + v[i] ** 2 - M[i] ** 2 * gam * p[i] / r[i]) > 1e-6 * (u[i] ** 2 + v[i] ** 2): bad.append(('speed != M c', float(th[i])))
        if abs(sie[i] - p[i] / r[i] / (gam - 1)) > 1e-9 * sie[i]: bad.append(('sie != p/(rho (g-1))', float(th[i])))
    below = np.where(th < cdang)[0]; above = np.where(th > cdang)[0]
    if len(below) and len(above):
        i, j = below[-1], above[0]
        if abs(p[i] - p[j]) > 1e-6 * p[i]: bad.append(('pressure jump across slip line', float(p[i]), float(p[j])))
        if abs(p[i] - s.pressure_solution) > 1e-6 * p[i]: bad.append(('pressure next to the slip line is not the star pressure', float(p[i]), float(s.pressure_solution)))
        if abs(math.atan2(v[i], u[i]) - math.atan2(v[j], u[j])) > 1e-6: bad.append(('flow direction jump across slip line', float(math.atan2(v[i], u[i])), float(math.atan2(v[j], u[j]))))
    # a wave labelled shock raises the pressure, a wave labelled rarefaction lowers it
    for side, st in ((0, bottom), (4, top)):
        if s.morphology[side] == 'S' and s.pressure_solution < st[0] * (1 - 1e-9): bad.append(('wave labelled shock but p* < p0', s.morphology, float(s.pressure_solution), st[0]))
        if s.morphology[side] == 'R' and s.pressure_solution > st[0] * (1 + 1e-9): bad.append(('wave labelled rarefaction but p* > p0', s.morphology, float(s.pressure_solution), st[0]))
    # fan interior points lie on the isentrope of the adjacent outer state
    for key, st in (('BR', bottom), ('TR', top)):
        if key in s.angles:
            lo, hi = sorted(s.angles[key])
            for i in np.where((th > lo) & (th < hi))[0]:
                if abs(p[i] / r[i] ** st[4] / (st[0] / st[1] ** st[4]) - 1) > 1e-6: bad.append(('fan point off the isentrope', key, float(th[i])))
    out[name] = {'solved': True, 'failures': bad[:6]}
print(json.dumps({'reproduced': any(v['failures'] for v in out.values()), 'cases': out}))
'''


def bounded_cases(tier):
    import random
    rnd = random.Random(core.SEED + 19)
    cases = [('aligned/test_pair_1', (1.0, 1.0, 2.4, 0.0, 1.4), (0.25, 0.5, 7.0, 0.0, 1.4)), ('aligned/test_pair_2', (1.0, 1.0, 4.0, 0.0, 1.4), (1.0, 0.5, 2.4, 0.0, 1.4)),
             ('aligned/test_pair_3', (0.25, 0.5, 4.0, 0.0, 1.4), (1.0, 1.0, 2.4, 0.0, 1.4)), ('aligned/two_gammas', (1.0, 1.0, 3.0, 0.0, 1.4), (0.5, 1.0, 3.0, 0.0, 1.67)), ('aligned/two_gammas_top_fan', (0.25, 0.5, 7.0, 0.0, 1.4), (1.0, 1.0, 2.4, 0.0, 1.67)),
             ('inclined/converging_5deg', (1.0, 1.0, 3.0, 5.0, 1.4), (1.0, 1.0, 3.0, -5.0, 1.4)), ('inclined/diverging_5deg', (1.0, 1.0, 3.0, -5.0, 1.4), (1.0, 1.0, 3.0, 5.0, 1.4)),
             ('inclined/common_3deg', (1.0, 1.0, 2.4, 3.0, 1.4), (0.25, 0.5, 7.0, 3.0, 1.4))]
    for k in range(4 if tier == 'quick' else 40):
        cases.append(('aligned/random%02d' % k, (round(rnd.uniform(0.3, 2), 3), round(rnd.uniform(0.3, 2), 3), round(rnd.uniform(1.8, 5), 3), 0.0, rnd.choice([1.4, 1.67, 1.3])),
                      (round(rnd.uniform(0.3, 2), 3), round(rnd.uniform(0.3, 2), 3), round(rnd.uniform(1.8, 5), 3), 0.0, rnd.choice([1.4, 1.67, 1.3]))))
    return cases


def unit_bounded(tier):
    cases = bounded_cases(tier)
    r_ = native.run_script(BOUNDED % dict(cases=cases), timeout=1200)
    res = {'obligations': [], 'functions': [], 'engine_errors': [], 'bounded': []}
    if r_.get('result') is None:
        res['engine_errors'].append('bounded 2-D Riemann check did not run: ' + (r_.get('stderr_tail') or '')[-300:]); return res
    rr = r_['result']['cases']
    for name, b_, t_ in cases:
        v = rr.get(name, {'solved': False, 'failures': []})
        res['bounded'].append({'name': 'C19/bounded/%s' % name, 'status': 'fail' if v['failures'] else 'pass', 'evaluations': 181 if v['solved'] else 0, 'bound': 'bottom=%s top=%s (state = p, rho, Mach, flow angle in degrees, gamma) x 181 polar angles%s' % (b_, t_, '' if v['solved'] else '; constructor raised: not evaluated'),
                               'tolerance': '1e-6 relative', 'detail': json.dumps(v['failures'])[:300], 'replay': BOUNDED % dict(cases=[(name, b_, t_)]) if v['failures'] else None})
    return res


def units(tier):
    return [('compression', {'kind': 'comp'}), ('prandtl_meyer', {'kind': 'pm'}), ('expansion', {'kind': 'exp'}), ('shock_angle', {'kind': 'ang'})] + \
           [('star/' + m, {'kind': 'star', 'morph': m}) for m in ('S-C-S', 'S-C-R', 'R-C-S', 'R-C-R')] + [('lineout', {'kind': 'line'}), ('bounded', {'kind': 'bd', 'tier': tier})]


def run_unit(name, kind, morph=None, tier='quick'):
    if kind == 'comp': return unit_compression()
    if kind == 'pm': return unit_pm()
    if kind == 'exp': return unit_expansion()
    if kind == 'ang': return unit_shock_angle()
    if kind == 'star': return unit_star(morph)
    if kind == 'line': return unit_lineout()
    return unit_bounded(tier)
