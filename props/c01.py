"""C01 - returned fields satisfy the documented governing PDEs wherever smooth."""
import sympy as sp
from vc import core, propkit, alg
from vc.values import *
from contracts import hydro
from props import riemann_kit as rk

LEVEL = 'proof'
EXPLANATION = ("Obligations: mass, momentum and energy residuals (energy including the heat-flux term F=-(c*lambda0/3) rho^alpha T^beta d(aT^4)/dr where the problem has one) "
               "of the returned density/velocity/pressure/energy/temperature terms are identically zero on every smooth path, for symbolic parameters, each geometry.")
ASSUMPTIONS = ["energy equation used in the form rho(e_t+u e_r)+p(u_r+k u/r)+(F_r+kF/r)=0 with the *returned* e and p (the cog package docstring prints T/(gamma-1) "
               "for the first factor, which is inconsistent with its own EOS e=Gamma T/(gamma-1); read as a typo)",
               "Coggeshall problems 1-7 and 19-21 are the conduction-free ones (F=0); for problems 8-18 without a lambda0 parameter the flux term must vanish for every lambda0, c, a"]

lam0 = sp.Symbol('lambda0', positive=True); cc = sp.Symbol('c_light', positive=True); aa = sp.Symbol('a_rad', positive=True)
alpha = hydro.alpha; beta = hydro.beta; gamma = hydro.gamma

CONDUCTION = {'cog8', 'cog9', 'cog10', 'cog11', 'cog12', 'cog13', 'cog14', 'cog16', 'cog17', 'cog18'}


def exponents(key, k):
    """(alpha, beta) as documented"""
    if key == 'cog10': return beta + 4 - sp.Rational(1, k), beta
    if key == 'cog11': return beta + 4 + (k - 1) / (2 - (gamma - 1) * (k + 1)), beta
    if key == 'cog12': return (beta + 4) * (1 - gamma) + sp.Rational(k - 1, 2 * k) * (gamma + 1), beta
    if key == 'cog16':
        al = 1 - sp.Rational(1, k); return al, al / 2 - 3
    return alpha, beta


def spec(sc, case, locs):
    names = ['density', 'velocity', 'pressure', 'specific_internal_energy'] + (['temperature'] if sc.key.startswith('cog') or sc.key == 'noh2cog' else [])
    r, t = sc.pos, sc.t
    F = propkit.Fields(names, [r, t])
    k = case.get('geometry', 3) - 1
    rho, u, p, e = F['density'], F['velocity'], F['pressure'], F['specific_internal_energy']
    D = sp.diff
    out = [('mass', D(rho, t) + u * D(rho, r) + rho * D(u, r) + k * rho * u / r),
           ('momentum', rho * (D(u, t) + u * D(u, r)) + D(p, r))]
    en = rho * (D(e, t) + u * D(e, r)) + p * (D(u, r) + k * u / r)
    extra = {}
    if sc.key in CONDUCTION:
        T = F['temperature']
        al, be = exponents(sc.key, k)
        c = locs.get('c', cc); a = locs.get('a', aa)
        l0 = sc.params.get('lambda0', lam0)
        flux = -(c * l0 * rho ** al * T ** be / 3) * D(a * T ** 4, r)
        en = en + D(flux, r) + k * flux / r
        extra = {'c_light': 1.0, 'a_rad': 1.0, 'lambda0': 1.0}
    out.append(('energy', en))
    return F, out, extra


def per_path(sc, case, i, p, base):
    out = []
    if p.outcome != 'return' or not isinstance(p.value, Solution):
        return [core.Obl('C01/' + base + '/returns', 'refuted', 'path-analysis', 0.0, goal='in-domain call returns a solution', detail='path %s: %s' % (p.outcome, p.exc), cex=None)]
    actual = p.value.fields()
    locs = {n: v for n, v in getattr(p.run, 'run_locals', {}).items() if isinstance(v, sp.Basic)}
    F, specs, extra = spec(sc, case, locs)
    hyps = sc.all_hyps(case) + list(p.pc)
    T = actual.get('temperature')
    for label, res in specs:
        name = 'C01/%s/pde:%s' % (base, label)
        missing = [n for n in F.f if res.has(F.f[n]) and n not in actual]
        if missing:
            out.append(core.Obl(name, 'refuted', 'structural', 0.0, goal=label, detail='returned solution has no field(s) %s' % missing, cex=None)); continue
        if label == 'energy' and sc.key in CONDUCTION and T == 0:
            res = res.subs(F['temperature'], 0).doit()
        e = propkit.instantiate(res, F, actual)
        mk = lambda pt, res=res, label=label: propkit.replay_script(sc, case, res, F, pt, 'PDE residual: ' + label, tol=2e-3, extra_env=extra)
        o = core.prove_zero(name, e, hyps, goal_text='%s residual == 0 on [%s]' % (label, ' & '.join(str(c) for c in p.pc)[:100]), extra_syms=sc.symbols(),
                            positive=sc.positive.get(sc.case_name(case), []))
        out.append(propkit.finish(o, lambda raw, mk=mk: mk(propkit.sym_point(sc, raw))))
    return out


def units(tier):
    us = []
    for key, sc in hydro.SOLVERS.items():
        for case in sc.cases:
            us.append(('%s/%s' % (key, sc.case_name(case)), {'key': key, 'case': case, 'tier': tier}))
    us += [(n, dict(k, tier=tier, riemann=True)) for n, k in rk.units('C01', ['fan_pde'], tier) if '/SCS/' not in n]
    us.append(('ehep', {'ehep': True}))
    us.append(('guderley', {'gud': True}))
    us += [('sedov/geometry=%d' % j_, {'sedov': j_}) for j_ in (1, 2, 3)]
    return us


def run_unit(name, key=None, case=None, tier='quick', riemann=False, pat=None, fam=None, ehep=False, gud=False, sedov=None):
    if sedov:
        from props import sedov_kit
        return sedov_kit.unit(sedov)
    if gud:
        from props import guderley_kit
        return guderley_kit.unit_pde()
    if ehep:
        from props import ehep_kit
        return ehep_kit.unit('C01')
    if riemann: return rk.run_unit('C01', pat, fam, tier)
    sc = hydro.SOLVERS[key]
    return propkit.solver_unit(sc, case, per_path, tier)
