"""C12 - radiative shocks are steady travelling waves conserving total fluxes."""
import ast, json
import sympy as sp
from vc import core, extract, smt, alg, native, sx, repo as R
from vc.values import *

LEVEL = 'proof'
WR = 'exactpack.solvers.radshocks.nED_radshocks'
CLASSES = {'ED_Solver': ('greyED_RadShock.ED_driver', 'ED_profile'), 'nED_Solver': ('greyNED_RadShock.nED_driver', 'nED_profile'),
           'Sn_Solver': ('greySn_RadShock.Sn_driver', 'Sn_profile'), 'ie_Solver': ('Shock_2Tie.IE_driver', 'IE_profile')}
EXPLANATION = ("Deductive, wrapper level: for each of the four wrapper classes the real constructor chain (ExactSolver.__init__, setup_solver, the real radshock.*Shock.__init__) and the real _run are executed symbolically with the profile driver "
               "replaced by its contract (an object whose attributes are unknown steady profiles on an unknown grid) and numpy.interp by its translation-covariant contract: every returned field is proved to be a function of "
               "x - M0 sqrt(gamma (gamma-1) Cv Tref) t alone, with gamma, Cv, Tref, M0 the instance's parameters (F(x + V d, t + d) == F(x, t) for symbolic d). "
               "Deductive, profile level: RadShockProfile.downstream_equilibrium - the residual whose root defines the far-downstream state is proved equal to the differences of total momentum flux (rho v^2 + p + P0 T^4/3) and total energy flux "
               "(v (rho v^2/2 + rho e + p) + (4/3) P0 T^4 v) between that state and the upstream state at constant mass flux rho v = M0, and speed1, M1, Pr1 are the corresponding derived quantities. "
               "Bounded stand-in (run time, labelled): mass, total momentum and total energy flux along the whole computed profile, far-field equilibrium states, and the time translation on the real solvers for default and non-default parameter sets.")
ASSUMPTIONS = ["A5 numpy.interp(x, xp + s, fp) == numpy.interp(x - s, xp, fp) (translation covariance of linear interpolation); numpy.flip reverses order only (generic-node abstraction of the profile grid)",
               "A5 scipy.optimize.fsolve returns a root of the residual it is given",
               "the ODE integration / Mach-space splicing that builds the interior of the profile (utils.py, fnctn_*.py: ~3000 lines of numerics) is outside the executor: flux constancy in the interior is covered by the bounded run-time check only",
               "ion-electron shock (ie_Solver) has no radiation terms: only its time translation is covered"]

x = sp.Symbol('x', real=True); t = sp.Symbol('t', real=True); dl = sp.Symbol('delta', real=True)
M0, rho0, Tref, Cv, gam = sp.symbols('M0 rho0 Tref Cv gamma', positive=True)


class AnyMembers(dict):
    """profile object known only by contract: every attribute is an unknown steady profile on the (unknown) profile grid"""
    def __contains__(self, k): return True
    def __getitem__(self, k):
        if not dict.__contains__(self, k): dict.__setitem__(self, k, Arr(sp.Symbol('prof_' + k, real=True), None, True))
        return dict.__getitem__(self, k)


def wrapper_paths(cname, box):
    drv, prof = CLASSES[cname]
    def driver(I, a, k):
        obj = a[0]; obj.attrs[prof] = AbstractObj('profile', AnyMembers())
        if prof == 'Sn_profile': obj.attrs['nED_profile'] = obj.attrs[prof]
        return None
    def flip(I, a, k): return a[0]
    def interp(I, a, k):
        xq, xp, fp = a[0], a[1], a[2]
        xe = sp.sympify(xq.elem if isinstance(xq, Arr) else xq)
        if not isinstance(xp, Arr) or not isinstance(fp, Arr): raise Unsupported('interp on non-profile data')
        g = sp.sympify(xp.elem); f = sp.sympify(fp.elem)
        nodes = [s_ for s_ in g.free_symbols if s_.name.startswith('prof_')]
        if len(nodes) != 1: raise Unsupported('interp grid has %d profile symbols' % len(nodes))
        node = nodes[0]; box.setdefault('grids', set()).add(node.name)
        c = sp.diff(g, node)
        if c not in (1, -1) or sp.diff(g, node, 2) != 0: raise Unsupported('interp grid is not +-profile grid + shift: %s' % g)
        shift = sp.expand(g - c * node)
        if shift.has(node): raise Unsupported('interp grid shift depends on the node')
        xi = c * (xe - shift)                       # value of the profile coordinate at the request point
        if xe.has(x): box.setdefault('shifts', []).append((c, shift))      # interpolations of the request points (the constructor may resample profile data onto the profile grid)
        rep = {s_: sp.Function(s_.name)(xi) for s_ in f.free_symbols if s_.name.startswith('prof_')}
        return Arr(f.xreplace(rep), None, False)
    params = {'M0': M0, 'rho0': rho0, 'Tref': Tref, 'Cv': Cv, 'gamma': gam}
    return extract.run_solver(WR + ':' + cname, params, x, t, hyps=[gam > 1], externals={'numpy.flip': flip, 'numpy.interp': interp}, opaque={drv: driver})


TR_NATIVE = r"""
import json, io, contextlib, warnings
import numpy as np
warnings.simplefilter('ignore')
from exactpack.solvers.radshocks import nED_radshocks as R
kw = %(kw)r
with contextlib.redirect_stdout(io.StringIO()): s = getattr(R, %(cls)r)(**kw)
g = kw.get('gamma', 5. / 3.); V = kw.get('M0', s.M0) * np.sqrt(g * (g - 1.) * kw.get('Cv', 1.4472799784454e12) * kw.get('Tref', 100.))
xs = np.linspace(-0.7, 0.3, 41) * float(np.max(np.abs(s.x))) * 0.2; dt = 0.05 * float(np.max(np.abs(s.x))) / V
with contextlib.redirect_stdout(io.StringIO()): a = s(xs, 0.0); b = s(xs + V * dt, dt)
worst = {n: float(np.max(np.abs(a[n] - b[n]) / (np.max(np.abs(a[n])) + 1e-300))) for n in a.dtype.names if n != 'position'}
print(json.dumps({'reproduced': bool(max(worst.values()) > 1e-6), 'worst_relative_change_along_x = x0 + M0 c t': worst, 'parameters': kw, 'wave_speed_from_instance_parameters': float(V), 'sound_speed_used_by_solver': float(s.sound)}))
"""


def unit_translation(cname):
    res = {'obligations': [], 'functions': [], 'engine_errors': []}; O = res['obligations']
    for m in ('__init__', 'setup_solver', '_run'):
        fv = R.find_method(WR + ':' + cname, m)
        if fv is not None: res['functions'].append({'ref': 'exactpack/solvers/radshocks/nED_radshocks.py::%s.%s' % (cname, m), 'sha256_16': R.source_hash(fv)})
    base = 'C12/translation/%s' % cname; box = {}
    try:
        paths = wrapper_paths(cname, box)
    except Unsupported as u_:
        O.append(core.Obl(base + '/extraction', 'open', 'extraction', 0.0, detail=str(u_)[:300])); return res
    rets = [p for p in paths if p.outcome == 'return' and isinstance(p.value, Solution)]
    O.append(core.structural(base + '/single_path', len(rets) == 1 and len(paths) == 1, '%d paths, %d returning' % (len(paths), len(rets)), None, 'path-analysis', 'constructor + _run is one path for admissible parameters'))
    if len(rets) != 1: return res
    V = M0 * sp.sqrt(gam * (gam - 1) * Cv * Tref)
    F = rets[0].value.fields(); n_f = 0
    for n, v in F.items():
        if n == 'position': continue
        v = sp.sympify(v); n_f += 1
        e = v.xreplace({x: x + V * dl, t: t + dl}) - v
        o = core.prove_zero('%s/%s' % (base, n), e, [gam > 1], goal_text='%s(x + M0 c d, t + d) == %s(x, t) for every d, c = sqrt(gamma (gamma-1) Cv Tref) of the instance' % (n, n), extra_syms={dl, x, t})
        if o['status'] == 'refuted':
            o['replay'] = TR_NATIVE % dict(cls=cname, kw={'Tref': 50.0, 'M0': 1.3} if cname != 'ie_Solver' else {'Tref': 50.0})
        o.pop('cex_raw', None); O.append(o)
        dep = v.has(sp.core.function.AppliedUndef)
        O.append(core.structural('%s/%s:is_profile_value' % (base, n), dep, str(v)[:120], None, 'path-analysis', '%s is a profile quantity evaluated at the co-moving coordinate (not a constant)' % n))
    shifts = box.get('shifts', [])
    O.append(core.structural(base + '/all_fields_share_one_shift', len({sp.srepr(s_) for _, s_ in shifts}) == 1 and len(shifts) >= n_f, '%d interp calls, shifts %s' % (len(shifts), {str(s_) for _, s_ in shifts}), None, 'path-analysis',
                             'every field is interpolated on the same displaced grid'))
    return res


UTILS = 'exactpack/solvers/radshocks/utils.py'


def unit_downstream():
    ref = UTILS + '::RadShockProfile.downstream_equilibrium'
    res = {'obligations': [], 'functions': [{'ref': ref, 'sha256_16': R.source_hash(R.func_ref(ref))}], 'engine_errors': []}; O = res['obligations']
    P0 = sp.Symbol('P0', positive=True); r1, T1 = sp.symbols('rho1 T1', positive=True); za, zb = sp.symbols('Tza Tzb', positive=True)
    box = {'n': 0}
    def fsolve(I, a, k):
        box['n'] += 1
        if box['n'] == 1: box['disc_a'] = sp.sympify(I.apply(a[0], [za], {})); return Vec([za])
        if box['n'] == 2: box['disc_b'] = sp.sympify(I.apply(a[0], [zb], {})); return Vec([zb])
        r_ = I.apply(a[0], [Vec([r1, T1])], {}); box['res'] = [sp.sympify(q) for q in (r_.items if hasattr(r_, 'items') and not isinstance(r_, dict) else r_)]
        box['guess'] = a[1]
        return Vec([r1, T1])
    obj = Obj('exactpack.solvers.radshocks.utils:RadShockProfile', {'M0': M0, 'gamma': gam, 'P0': P0})
    try:
        paths = extract.run_function(ref, [], hyps=[gam > 1], self_obj=obj, externals={'scipy.optimize.fsolve': fsolve})
    except Unsupported as u_:
        O.append(core.Obl('C12/downstream/extraction', 'open', 'extraction', 0.0, detail=str(u_)[:300])); return res
    if 'res' not in box:
        O.append(core.Obl('C12/downstream/extraction', 'open', 'extraction', 0.0, detail='momentum_and_energy not reached')); return res
    A = obj.attrs
    v = lambda r_: M0 / r_                                           # constant mass flux rho v = M0 (upstream rho = 1, v = M0)
    mom = lambda r_, T_: r_ * v(r_) ** 2 + r_ * T_ / gam + P0 * T_ ** 4 / 3
    en = lambda r_, T_: v(r_) * (r_ * v(r_) ** 2 / 2 + r_ * T_ / (gam * (gam - 1)) + r_ * T_ / gam) + sp.Rational(4, 3) * P0 * T_ ** 4 * v(r_)
    O.append(core.prove_zero('C12/downstream/momentum_residual', box['res'][0] - r1 * (mom(r1, T1) - mom(1, 1)), [gam > 1], goal_text='residual[0] == rho1 * (total momentum flux downstream - upstream), flux = rho v^2 + rho T/gamma + P0 T^4/3, rho v = M0'))
    O.append(core.prove_zero('C12/downstream/energy_residual', box['res'][1] - r1 ** 2 / M0 * (en(r1, T1) - en(1, 1)), [gam > 1],
                             goal_text='residual[1] == rho1^2/M0 * (total energy flux downstream - upstream), flux = v (rho v^2/2 + rho e + p) + (4/3) P0 T^4 v'))
    for nm, want, text in (('rho1', r1, 'rho1 is the root'), ('T1', T1, 'T1 is the root'), ('speed1', M0 / r1, 'speed1 == M0/rho1 (mass flux)'), ('M1', M0 / r1 / sp.sqrt(T1), 'M1 == speed1/sqrt(T1) (sound speed^2 = T in these units)'),
                           ('Pr1', T1 ** 4 / 3, 'Pr1 == T1^4/3'), ('Er1', T1 ** 4, 'Er1 == T1^4')):
        if nm not in A: O.append(core.structural('C12/downstream/%s' % nm, False, 'attribute not set', None, 'path-analysis', text)); continue
        O.append(core.prove_zero('C12/downstream/%s' % nm, sp.sympify(A[nm]) - want, [gam > 1], goal_text=text))
    # the upstream state (1, 1) is a root of the same residual: the two far states are related by the jump conditions
    O.append(core.prove_zero('C12/downstream/upstream_state_is_root:momentum', box['res'][0].subs({r1: 1, T1: 1}), [gam > 1], goal_text='(rho, T) = (1, 1) satisfies the momentum balance'))
    O.append(core.prove_zero('C12/downstream/upstream_state_is_root:energy', box['res'][1].subs({r1: 1, T1: 1}), [gam > 1], goal_text='(rho, T) = (1, 1) satisfies the energy balance'))
    for o in O: o.pop('cex_raw', None)
    # nondimensionalisation constants of the problem object
    ref2 = 'exactpack/solvers/radshocks/radshock.py::RadShock.__init__'
    res['functions'].append({'ref': ref2, 'sha256_16': R.source_hash(R.func_ref(ref2))})
    try:
        o2 = Obj('exactpack.solvers.radshocks.radshock:RadShock', {})
        extract.run_function(ref2, [], kwargs={'M0': M0, 'rho0': rho0, 'Tref': Tref, 'Cv': Cv, 'gamma': gam}, hyps=[gam > 1], self_obj=o2)
        B = o2.attrs
        O.append(core.prove_zero('C12/problem/sound', sp.sympify(B['sound']) ** 2 - gam * (gam - 1) * Cv * Tref, [gam > 1], goal_text='sound^2 == gamma (gamma-1) Cv Tref'))
        O.append(core.prove_zero('C12/problem/C0', sp.sympify(B['C0']) * sp.sympify(B['sound']) - sp.sympify(B['c']), [gam > 1], goal_text='C0 == c / sound'))
        O.append(core.prove_zero('C12/problem/P0', sp.sympify(B['P0']) - sp.sympify(B['ar']) * Tref ** 4 / (rho0 * gam * (gam - 1) * Cv * Tref), [gam > 1], goal_text='P0 == a_r Tref^4 / (rho0 sound^2)'))
        for o in O:
            o.pop('cex_raw', None)
            if o['status'] == 'refuted' and o['name'].startswith('C12/problem/') and not o.get('replay'): o['replay'] = BOUNDED % dict(cases=[('ED/rho0=0.5', 'ED_Solver', {'rho0': 0.5}), ('ED/Tref=50_gamma=1.4', 'ED_Solver', {'Tref': 50.0, 'gamma': 1.4})])
    except Unsupported as u_:
        O.append(core.Obl('C12/problem/extraction', 'open', 'extraction', 0.0, detail=str(u_)[:300]))
    return res


BOUNDED = r'''
import json, io, contextlib, warnings
import numpy as np
warnings.simplefilter('ignore')
from exactpack.solvers.radshocks import nED_radshocks as R
def rel(a): return float((np.max(a) - np.min(a)) / np.max(np.abs(a)))
out = {}
for name, cls, kw in %(cases)r:
    bad = []
    try:
        with contextlib.redirect_stdout(io.StringIO()): s = getattr(R, cls)(**kw)
    except Exception as e:
        out[name] = {'solved': False, 'failures': [], 'error': type(e).__name__}; continue
    prob = getattr(s, '_%%s__prob' %% cls); pr = getattr(prob, {'ED_Solver': 'ED_profile', 'nED_Solver': 'nED_profile', 'Sn_Solver': 'Sn_profile'}[cls]); g = prob.gamma
    rho, v, p, T, Fr = pr.Density, pr.Speed, pr.Pressure, pr.Tm, pr.Fr
    Tr = getattr(pr, 'Tr', T); Pr = getattr(pr, 'Pr', Tr ** 4 / 3.)
    # nondimensional constants recomputed here from the instance parameters (not read from the solver)
    cs2 = g * (g - 1.) * prob.Cv * prob.Tref; P0 = 137.20172 * prob.Tref ** 4 / (prob.rho0 * cs2); C0 = 2.99792458e10 / np.sqrt(cs2)
    mass = rho * v; mom = rho * v * v + p + P0 * Pr
    en = v * (0.5 * rho * v * v + rho * T / (g * (g - 1.)) + p) + P0 * C0 * Fr
    for lab, q in (('mass flux', mass), ('total momentum flux', mom), ('total energy flux', en)):
        if rel(q) > 1e-8: bad.append((lab, rel(q), int(np.argmax(np.abs(q - q[0]))), len(q)))
    if abs(mass[0] - prob.M0) > 1e-9 * prob.M0: bad.append(('mass flux != M0', float(mass[0])))
    if abs(T[0] - 1.) > 1e-5 or abs(rho[0] - 1.) > 1e-4: bad.append(('far upstream state is not (1, 1)', float(rho[0]), float(T[0])))
    M02 = prob.M0 ** 2; r1, T1 = float(rho[-1]), float(T[-1])
    m_ = M02 + r1 * r1 * T1 / g + P0 * r1 * T1 ** 4 / 3. - r1 * (M02 + 1. / g + P0 / 3.)
    e_ = M02 / 2. + r1 * r1 * T1 / (g - 1.) + 4. * P0 * r1 * T1 ** 4 / 3. - r1 * r1 * (M02 / 2. + 1. / (g - 1.) + 4. * P0 / 3.)
    if max(abs(m_), abs(e_)) > 1e-5 * M02: bad.append(('far downstream state violates the radiation-modified jump conditions', m_, e_))
    # time translation on the wrapper, with the wave speed computed from the instance parameters
    V = prob.M0 * np.sqrt(g * (g - 1.) * prob.Cv * prob.Tref)
    L = float(np.max(np.abs(s.x))); xs = np.linspace(-0.7, 0.3, 41) * 0.2 * L; dt = 0.05 * L / V
    with contextlib.redirect_stdout(io.StringIO()): a = s(xs, 0.0); b = s(xs + V * dt, dt)
    w = max(float(np.max(np.abs(a[n] - b[n]) / (np.max(np.abs(a[n])) + 1e-300))) for n in a.dtype.names if n != 'position')
    if w > 1e-6: bad.append(('profile not displaced by M0 c t', w))
    out[name] = {'solved': True, 'failures': bad[:6], 'points': int(len(rho))}
print(json.dumps({'reproduced': any(v['failures'] for v in out.values()), 'cases': out}))
'''


def bounded_cases(tier):
    cs = [('ED/default', 'ED_Solver', {}), ('ED/M0=1.5_embedded_shock', 'ED_Solver', {'M0': 1.5}), ('ED/M0=2_gamma=1.4_Tref=50', 'ED_Solver', {'M0': 2.0, 'gamma': 1.4, 'Tref': 50.0}),
          ('nED/default', 'nED_Solver', {}), ('nED/M0=3', 'nED_Solver', {'M0': 3.0}), ('nED/M0=1.4_Tref=50_Cv=2e12', 'nED_Solver', {'M0': 1.4, 'Tref': 50.0, 'Cv': 2.0e12}),
          ('ED/rho0=0.5', 'ED_Solver', {'rho0': 0.5}), ('nED/rho0=2', 'nED_Solver', {'rho0': 2.0})]
    if tier != 'quick': cs += [('Sn/default', 'Sn_Solver', {}), ('ED/M0=1.05', 'ED_Solver', {'M0': 1.05}), ('nED/M0=1.05', 'nED_Solver', {'M0': 1.05}), ('nED/M0=5', 'nED_Solver', {'M0': 5.0})]
    return cs


def unit_bounded(tier):
    cases = bounded_cases(tier)
    r_ = native.run_script(BOUNDED % dict(cases=cases), timeout=2400)
    res = {'obligations': [], 'functions': [], 'engine_errors': [], 'bounded': []}
    if r_.get('result') is None:
        res['engine_errors'].append('bounded radiative-shock check did not run: ' + (r_.get('stderr_tail') or '')[-300:]); return res
    rr = r_['result']['cases']
    for name, cls, kw in cases:
        v = rr.get(name, {'solved': False, 'failures': []})
        res['bounded'].append({'name': 'C12/bounded/%s' % name, 'status': 'fail' if v['failures'] else 'pass', 'evaluations': v.get('points', 0), 'bound': '%s(%s): every point of the computed profile (%s points); 41 points x 1 time shift for the translation%s' % (cls, kw, v.get('points', 0), '' if v['solved'] else '; constructor raised %s: not evaluated' % v.get('error')),
                               'tolerance': '1e-8 relative (fluxes), 1e-6 (translation)', 'detail': json.dumps(v['failures'])[:300], 'replay': BOUNDED % dict(cases=[(name, cls, kw)]) if v['failures'] else None})
    return res


def units(tier):
    return [('translation/' + c, {'kind': 'tr', 'cname': c}) for c in CLASSES] + [('downstream', {'kind': 'down'}), ('bounded', {'kind': 'bd', 'tier': tier})]


def run_unit(name, kind, cname=None, tier='quick'):
    if kind == 'tr': return unit_translation(cname)
    if kind == 'down': return unit_downstream()
    return unit_bounded(tier)


def unit_eos(cname):
    """C03: thermodynamic consistency of the fields returned by the radiative-shock wrappers (profiles abstract): sie = p/((gamma-1) rho) with the instance's gamma, radiation energy density = a_r T_rad^4."""
    res = {'obligations': [], 'functions': [], 'engine_errors': []}; O = res['obligations']
    for m in ('setup_solver', '_run'):
        fv = R.find_method(WR + ':' + cname, m)
        if fv is not None: res['functions'].append({'ref': 'exactpack/solvers/radshocks/nED_radshocks.py::%s.%s' % (cname, m), 'sha256_16': R.source_hash(fv)})
    base = 'C03/radshock/%s' % cname
    try:
        paths = wrapper_paths(cname, {})
    except Unsupported as u_:
        O.append(core.Obl(base + '/extraction', 'open', 'extraction', 0.0, detail=str(u_)[:300])); return res
    rets = [p for p in paths if p.outcome == 'return' and isinstance(p.value, Solution)]
    if len(rets) != 1: O.append(core.Obl(base + '/extraction', 'open', 'extraction', 0.0, detail='%d returning paths' % len(rets))); return res
    F = {k: sp.sympify(v) for k, v in rets[0].value.fields().items()}
    O.append(core.prove_zero(base + '/eos:p=(gamma-1)*rho*e', F['pressure'] - (gam - 1) * F['density'] * F['specific_internal_energy'], [gam > 1], goal_text='pressure == (gamma - 1) density sie with the gamma of the instance'))
    if 'rade' in F:
        Tn = 'temperature_rad' if 'temperature_rad' in F else 'temperature'
        ar = sp.Rational('137.20172')
        O.append(core.prove_zero(base + '/rade=ar*T^4', F['rade'] - ar * F[Tn] ** 4, [gam > 1], goal_text='radiation energy density == a_r (%s)^4, a_r = 137.20172 erg/cm^3/eV^4' % Tn))
    for o in O: o.pop('cex_raw', None)
    return res
