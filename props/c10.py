"""C10 - self-similar problems return self-similar fields with the documented exponents."""
import sympy as sp
from vc import core, propkit, alg
from vc.values import *
from contracts import hydro
from props import riemann_kit as rk

LEVEL = 'proof'
EXPLANATION = ("Riemann (IGEOS), Noh, Coggeshall 19: every returned field on every path is invariant along rays x - x0 = xi t (d/dt at fixed xi == 0), the star-pressure equation and wave speeds are time free, "
               "the shock location is proportional to t.")
ASSUMPTIONS = list(rk.ASSUMPTIONS) + ["Sedov, Guderley, Mader and EHEP self-similarity are not yet under contract in this check (see MANIFEST level_note)"]
SS = ['noh', 'cog19']


def per_path(sc, case, i, p, base):
    out = []
    if p.outcome != 'return' or not isinstance(p.value, Solution): return out
    r, t = sc.pos, sc.t; xi = sp.Symbol('xi', positive=True)
    hyps = sc.all_hyps(case) + [c.subs(r, xi * t) for c in p.pc]
    for n, v in p.value.fields().items():
        if n == 'position': continue
        e = sp.diff(sp.sympify(v).subs(r, xi * t), t)
        F = propkit.Fields([n], [r, t])
        res = t * sp.diff(F[n], t) + r * sp.diff(F[n], r)      # Euler operator: homogeneous of degree 0 in (r, t)
        o = core.prove_zero('C10/%s/selfsimilar:%s' % (base, n), e, hyps, goal_text='%s depends on r/t only' % n, extra_syms=sc.symbols() | {xi})
        if o['status'] == 'refuted' and o.get('cex_raw'):
            raw = dict(o['cex_raw']); raw['r'] = str(sp.sympify(raw.get('xi', 1)) * sp.sympify(raw.get('t', 1)))
            o['cex_raw'] = raw
        out.append(propkit.finish(o, lambda raw, res=res, F=F, n=n: propkit.replay_script(sc, case, res, F, propkit.sym_point(sc, raw), 't d/dt + r d/dr of %s == 0' % n, tol=1e-4)))
    loc = getattr(p.run, 'run_locals', {}).get('shock_location')
    if isinstance(loc, sp.Basic):
        out.append(core.prove_zero('C10/%s/shock_location_proportional_to_t' % base, sp.diff(loc / t, t), sc.all_hyps(case), goal_text='shock_location / t is constant'))
    return out


def units(tier):
    us = []
    for key in SS:
        sc = hydro.SOLVERS[key]
        for case in sc.cases: us.append(('%s/%s' % (key, sc.case_name(case)), {'key': key, 'case': case, 'tier': tier}))
    us += [(n, dict(k, tier=tier, riemann=True)) for n, k in rk.units('C10', ['selfsimilar'], tier)]
    us.append(('guderley', {'gud': True}))
    us += [('sedov/geometry=%d' % j_, {'sedov': j_}) for j_ in (1, 2, 3)]
    us.append(('mader', {'mader': True}))
    return us


def run_unit(name, key=None, case=None, tier='quick', riemann=False, pat=None, fam=None, mader=False, gud=False, sedov=None):
    if sedov:
        from props import sedov_kit
        return sedov_kit.unit_similarity(sedov)
    if gud:
        from props import guderley_kit
        return guderley_kit.unit('C10')
    if mader:
        from props import mader_kit
        return mader_kit.unit('C10')
    if riemann: return rk.run_unit('C10', pat, fam, tier)
    return propkit.solver_unit(hydro.SOLVERS[key], case, per_path, tier)
