"""Sedov: the coded similarity functions satisfy the Euler equations (C01).  Built on the extraction of props/c11.py.
Method: every similarity function of the code is a product of powers of four linear functions of v, so its v-derivative is the function times a rational
log-derivative psi (proved on the real expressions: d F/dv == F psi_F); the PDE residuals divided by the field itself are then rational identities in v
(the functions lambda and g cancel; h/(g lambda^2) is eliminated by Sedov's energy integral, which is proved on the coded functions)."""
import sympy as sp
from vc import core, extract, repo as R
from vc.values import *
from props import c11
from props.c11 import gam, om, rho0, eb, v, t, SRC, KEY


def psi(F):
    out = 0
    for b, e in sp.sympify(F).as_powers_dict().items():
        if b.free_symbols & {v}: out += e * sp.diff(b, v) / b
    return out


def unit(j):
    res = {'obligations': [], 'functions': [], 'engine_errors': []}; O = res['obligations']
    for m in ('__init__', 'sedov_funcs_standard', 'physical', '_run'):
        res['functions'].append({'ref': '%s::Sedov.%s' % (SRC, m), 'sha256_16': R.source_hash(R.func_ref('%s::Sedov.%s' % (SRC, m)))})
    try:
        paths = c11.ctor_paths(j, {})
    except Unsupported as u_:
        O.append(core.Obl('C01/sedov/geometry=%d/extraction' % j, 'open', 'extraction', 0.0, detail=str(u_)[:300])); return res
    nat = c11.NATIVE                      # (the C11 replay integrates the returned fields; a PDE violation of the similarity functions shows there as a drifting energy / mass)
    done = 0
    for p in paths:
        if p.outcome != 'return': continue
        o = p.value; A = o.attrs; typ, sing = A.get('solution_type'), A.get('special_singularity')
        if sing != 'none' or typ not in ('standard', 'vacuum'): continue
        base = 'C01/sedov/geometry=%d/%s' % (j, typ); hy = [gam > 1, om < j] + list(p.pc)
        ALPHA = sp.Symbol('alpha_norm', positive=True); A['alpha'] = ALPHA
        try:
            c11.shock_prefix(o)
            fp = c11.interior(extract.run_function(SRC + '::Sedov.sedov_funcs_standard', [v], hyps=hy, self_obj=o))
            if len(fp) != 1: raise Unsupported('%d interior paths' % len(fp))
            F_, G_, H_ = sp.symbols('Ff Gg Hh', positive=True)
            ph = [z for z in extract.run_function(SRC + '::Sedov.physical', [F_, G_, H_], hyps=hy, self_obj=o) if z.outcome == 'return' and sp.sympify(z.value[3]) != 0]
            if len(ph) != 1: raise Unsupported('physical(): %d paths' % len(ph))
        except Unsupported as u_:
            O.append(core.Obl(base + '/extraction', 'open', 'extraction', 0.0, detail=str(u_)[:300])); continue
        done += 1
        r2, us, u2, rho2, p2 = [sp.sympify(A[n]) for n in ('r2', 'us', 'u2', 'rho2', 'p2')]
        q = fp[0]; lam, dl, f, g, h = [sp.sympify(z) for z in q.value]; hh = hy + list(q.pc)
        x1 = sp.sympify(A['a_val']) * v; x2 = sp.sympify(A['b_val']) * (sp.sympify(A['c_val']) * v - 1); x3 = sp.sympify(A['d_val']) * (1 - sp.sympify(A['e_val']) * v); x4 = sp.sympify(A['b_val']) * (1 - sp.sympify(A['xg2']) * v / 2)
        pos = [x1, x2, x3, x4]
        den, vel, prs = [sp.sympify(z) for z in ph[0].value[:3]]
        O.append(core.prove_zero(base + '/fields', (den - rho2 * G_) ** 2 + (vel - u2 * F_) ** 2 + (prs - p2 * H_) ** 2, hy, goal_text='physical(): density = rho2 g, velocity = u2 f, pressure = p2 h'))
        pl, pg, phh = psi(lam), psi(g), psi(h)
        for nm, Fx, ps_ in (('lambda', lam, pl), ('g', g, pg), ('h', h, phh)):
            O.append(core.prove_zero('%s/logderiv:%s' % (base, nm), sp.diff(Fx, v) - Fx * ps_, hh, positive=pos, goal_text='d %s / dv == %s * (sum of exponent * slope / base)' % (nm, nm)))
        O.append(core.prove_zero(base + '/f=x1*lambda', f - x1 * lam, hh, positive=pos, goal_text='f == a_val v lambda'))
        # Sedov's energy integral on the coded functions, solved for h/(g lambda^2)
        HGL2 = (rho2 / p2) * (u2 * x1) ** 2 * (us - u2 * x1) * (gam - 1) / (2 * (gam * u2 * x1 - us))
        O.append(core.prove_zero(base + '/energy_integral', h - g * lam ** 2 * HGL2, hh, positive=pos + [ALPHA], goal_text='p/rho == u^2 (lambda us - u)(gamma-1)/(2 (gamma u - lambda us)) for the coded f, g, h (no energy flux through lambda = const)'))
        lt = lambda Fx: sp.simplify(sp.diff(Fx, t) / Fx)
        r2t, rho2t, u2t, p2t = lt(r2), lt(rho2), lt(u2), lt(p2)
        k = j - 1; vt = -r2t / pl; px1 = 1 / v; uo = u2 * x1 / r2
        eqs = {'pde:mass': (rho2t + pg * vt + uo * (pg + px1 + pl) / pl + k * uo, '(rho_t + (rho u)_r + (j-1) rho u / r)/rho == 0'),
               'pde:entropy': ((p2t - gam * rho2t) + (phh - gam * pg) * (vt + uo / pl), 'D/Dt log(p/rho^gamma) == 0'),
               'pde:momentum': ((u2t + (px1 + pl) * vt) + uo * (px1 + pl) / pl + (p2 / rho2) * HGL2 * phh / (r2 * pl * u2 * x1), '(u_t + u u_r + p_r/rho)/u == 0 (h/(g lambda^2) from the energy integral)')}
        for nm, (e, text) in eqs.items():
            O.append(core.prove_zero('%s/%s' % (base, nm), e, hh, positive=[ALPHA], goal_text=text + '; r- and t-derivatives through v: d/dr = (1/(r2 lambda psi_lambda)) d/dv, dv/dt|_r = -(r2\'/r2)/psi_lambda'))
    for o_ in O:
        if o_['status'] == 'refuted' and not o_.get('replay'):
            o_['replay'] = nat % dict(kw={'geometry': j, 'gamma': 1.4, 'omega': {1: 0.3, 2: 0.5, 3: 1.0}[j], 'rho0': 1.3, 'eblast': 0.7}, t=0.8, tol=2e-3)
        o_.pop('cex_raw', None)
    O.append(core.structural('C01/sedov/geometry=%d/types' % j, done >= (2 if j > 1 else 1), '%d constructor paths checked' % done, None, 'path-analysis', 'standard (and, for j > 1, vacuum) type reached'))
    return res


def unit_eos():
    """C03: the two statements of Sedov._run that derive specific internal energy and sound speed from the (interpolated) pressure and density (mechanical extraction)."""
    import ast
    from vc import sx
    res = {'obligations': [], 'functions': [{'ref': SRC + '::Sedov._run', 'sha256_16': R.source_hash(R.func_ref(SRC + '::Sedov._run'))}], 'engine_errors': []}; O = res['obligations']
    fv = R.func_ref(SRC + '::Sedov._run')
    st = [n for n in fv.node.body if isinstance(n, ast.Assign) and isinstance(n.targets[0], ast.Name) and n.targets[0].id in ('specific_internal_energy', 'sound_speed')]
    if [n.targets[0].id for n in st] != ['specific_internal_energy', 'sound_speed']:
        O.append(core.Obl('C03/sedov/extraction', 'open', 'extraction', 0.0, detail='statements not found')); return res
    P_, D_ = sp.symbols('p_interp rho_interp', positive=True)
    o = Obj(KEY, {'gamma': gam, 'gamm1': gam - 1})
    def thunk(run):
        I = sx.Interp(run); env = sx.Env(fv.module, None, fv); env.locals.update({'self': o, 'pressure': P_, 'density': D_}); I.block(st, env)
        return env.locals['specific_internal_energy'], env.locals['sound_speed']
    ps = [p for p in sx.explore(thunk, hyps=[gam > 1], feas=extract.default_feas) if p.outcome == 'return']
    if len(ps) != 1: O.append(core.Obl('C03/sedov/extraction', 'open', 'extraction', 0.0, detail='%d paths' % len(ps))); return res
    e_, c_ = [sp.sympify(q) for q in ps[0].value]
    O.append(core.prove_zero('C03/sedov/eos:p=(gamma-1)*rho*e', P_ - (gam - 1) * D_ * e_, [gam > 1], goal_text='pressure == (gamma-1) density sie'))
    O.append(core.prove_zero('C03/sedov/eos:cs^2=gamma*p/rho', c_ ** 2 * D_ - gam * P_, [gam > 1], goal_text='sound_speed^2 == gamma pressure / density'))
    for o_ in O: o_.pop('cex_raw', None)
    return res


SHOCK_NATIVE = r"""
import json, io, contextlib, warnings
import numpy as np
warnings.simplefilter('ignore')
from exactpack.solvers.sedov.sedov import Sedov
bad = {}
for kw in (dict(geometry=3, gamma=1.4, omega=1.0), dict(geometry=2, gamma=1.6, omega=0.5, rho0=1.3, eblast=0.4), dict(geometry=1, gamma=1.4, omega=0.3), dict(geometry=3, gamma=1.4, omega=2.4)):
    with contextlib.redirect_stdout(io.StringIO()): s = Sedov(**kw); s(np.array([0.2, 0.5]), 0.3)
    g = kw['gamma']; us, u2, r1, r2_, p2 = float(s.us), float(s.u2), float(s.rho1), float(s.rho2), float(s.p2)
    with contextlib.redirect_stdout(io.StringIO()): ra = float(s.r2); s(np.array([0.2, 0.5]), 0.3001); rb = float(s.r2)
    res = {'mass': r2_ * (us - u2) / (r1 * us) - 1, 'momentum': (p2 + r2_ * (us - u2) ** 2) / (r1 * us ** 2) - 1, 'energy': (g / (g - 1) * p2 / r2_ + (us - u2) ** 2 / 2) / (us ** 2 / 2) - 1, 'shock speed = d r2/dt': (rb - ra) / 1e-4 / us - 1}
    for k, v in res.items():
        if abs(v) > 1e-3: bad['%s %s' % (k, kw)] = float(v)
print(json.dumps({'reproduced': bool(bad), 'relative residuals above 1e-3 at t = 0.3': bad}))
"""


def unit_shock(pid, j):
    """C02 / C17: the shock state computed by the prefix of Sedov._run (r2, us, rho1, rho2, u2, p2), every constructor path without special singularity."""
    res = {'obligations': [], 'functions': [{'ref': SRC + '::Sedov._run', 'sha256_16': R.source_hash(R.func_ref(SRC + '::Sedov._run'))}, {'ref': SRC + '::Sedov.__init__', 'sha256_16': R.source_hash(R.func_ref(SRC + '::Sedov.__init__'))}], 'engine_errors': []}; O = res['obligations']
    try: paths = c11.ctor_paths(j, {})
    except Unsupported as u_:
        O.append(core.Obl('%s/sedov/geometry=%d/extraction' % (pid, j), 'open', 'extraction', 0.0, detail=str(u_)[:300])); return res
    gm1 = gam - 1; cnt = {}
    for p in paths:
        if p.outcome != 'return': continue
        o = p.value; A = o.attrs; typ, sing = A.get('solution_type'), A.get('special_singularity')
        if sing != 'none': continue
        cnt[typ] = cnt.get(typ, 0) + 1
        base = '%s/sedov/geometry=%d/%s%s' % (pid, j, typ, '' if cnt[typ] == 1 else '~path%d' % cnt[typ]); hy = [gam > 1, om < j] + list(p.pc)
        ALPHA = sp.Symbol('alpha_norm', positive=True); A['alpha'] = ALPHA
        try: c11.shock_prefix(o)
        except Unsupported as u_:
            O.append(core.Obl(base + '/extraction', 'open', 'extraction', 0.0, detail=str(u_)[:300])); continue
        r2, rho1, us, u2, rho2, p2 = [sp.sympify(A[n]) for n in ('r2', 'rho1', 'us', 'u2', 'rho2', 'p2')]
        if pid == 'C02':
            O.append(core.prove_zero(base + '/shock_speed', us - sp.diff(r2, t), hy, goal_text='us == d r2 / dt'))
            O.append(core.prove_zero(base + '/rh:mass', rho2 * (us - u2) - rho1 * us, hy, goal_text='rho2 (us - u2) == rho1 us'))
            O.append(core.prove_zero(base + '/rh:momentum', p2 + rho2 * (us - u2) ** 2 - rho1 * us ** 2, hy, goal_text='p2 + rho2 (us-u2)^2 == rho1 us^2 (p1 = 0)'))
            O.append(core.prove_zero(base + '/rh:energy', gam / gm1 * p2 / rho2 + (us - u2) ** 2 / 2 - us ** 2 / 2, hy, goal_text='h2 + (us-u2)^2/2 == us^2/2 (cold gas ahead)'))
            jm = A.get('jumps')
        else:
            O.append(core.prove_valid(base + '/shock:density_rises', hy, sp.simplify(rho2 / rho1) > 1, goal_text='rho2 / rho1 > 1 (compressive)'))
            O.append(core.prove_valid(base + '/shock:pressure_rises', hy, p2 > 0, goal_text='p2 > p1 = 0'))
            O.append(core.prove_valid(base + '/shock:moves_outwards', hy, sp.And(us > 0, u2 > 0, u2 < us), goal_text='0 < u2 < us'))
    for o_ in O:
        if o_['status'] == 'refuted' and not o_.get('replay'): o_['replay'] = SHOCK_NATIVE
        o_.pop('cex_raw', None)
    return res


def unit_scaling(j):
    """C08: the shock state of Sedov._run under a change of units (rho0 has dimension M L^(omega-3), eblast M L^(j-1) T^-2, alpha is dimensionless)"""
    res = {'obligations': [], 'functions': [{'ref': SRC + '::Sedov._run', 'sha256_16': R.source_hash(R.func_ref(SRC + '::Sedov._run'))}], 'engine_errors': []}; O = res['obligations']
    try: paths = c11.ctor_paths(j, {})
    except Unsupported as u_:
        O.append(core.Obl('C08/sedov/geometry=%d/extraction' % j, 'open', 'extraction', 0.0, detail=str(u_)[:300])); return res
    lM, lL, lT = sp.symbols('lambda_M lambda_L lambda_T', positive=True); cnt = {}
    for p in paths:
        if p.outcome != 'return': continue
        o = p.value; A = o.attrs; typ, sing = A.get('solution_type'), A.get('special_singularity')
        if sing != 'none': continue
        cnt[typ] = cnt.get(typ, 0) + 1
        base = 'C08/sedov/geometry=%d/%s%s' % (j, typ, '' if cnt[typ] == 1 else '~path%d' % cnt[typ]); hy = [gam > 1, om < j] + list(p.pc)
        ALPHA = sp.Symbol('alpha_norm', positive=True); A['alpha'] = ALPHA
        try: c11.shock_prefix(o)
        except Unsupported as u_:
            O.append(core.Obl(base + '/extraction', 'open', 'extraction', 0.0, detail=str(u_)[:300])); continue
        sub = {rho0: rho0 * lM * lL ** (om - 3), eb: eb * lM * lL ** (j - 1) / lT ** 2, t: t * lT}
        for nm, f in (('r2', lL), ('us', lL / lT), ('u2', lL / lT), ('rho1', lM / lL ** 3), ('rho2', lM / lL ** 3), ('p2', lM / (lL * lT ** 2))):
            v = sp.sympify(A[nm])
            o_ = core.prove_zero('%s/%s' % (base, nm), v.subs(sub, simultaneous=True) - f * v, hy, goal_text='%s(scaled inputs) == %s * %s(inputs)' % (nm, f, nm), extra_syms={lM, lL, lT}, positive=[ALPHA])
            o_.pop('cex_raw', None); O.append(o_)
    return res


def unit_similarity(j):
    """C10: the shock state of Sedov._run follows the documented power laws in t: r2 ~ t^(2/(j+2-omega)), u2 ~ t^(2/(j+2-omega)-1), rho2 ~ t^(-2 omega/(j+2-omega)), p2 ~ rho2 u2^2;
    the interior is a function of lambda = r/r2 alone by construction (sedov_funcs_standard has no other argument)."""
    res = {'obligations': [], 'functions': [{'ref': SRC + '::Sedov._run', 'sha256_16': R.source_hash(R.func_ref(SRC + '::Sedov._run'))}], 'engine_errors': []}; O = res['obligations']
    try: paths = c11.ctor_paths(j, {})
    except Unsupported as u_:
        O.append(core.Obl('C10/sedov/geometry=%d/extraction' % j, 'open', 'extraction', 0.0, detail=str(u_)[:300])); return res
    cnt = {}; d = 2 / (j + 2 - om)
    for p in paths:
        if p.outcome != 'return': continue
        o = p.value; A = o.attrs; typ, sing = A.get('solution_type'), A.get('special_singularity')
        if sing != 'none': continue
        cnt[typ] = cnt.get(typ, 0) + 1
        base = 'C10/sedov/geometry=%d/%s%s' % (j, typ, '' if cnt[typ] == 1 else '~path%d' % cnt[typ]); hy = [gam > 1, om < j] + list(p.pc)
        ALPHA = sp.Symbol('alpha_norm', positive=True); A['alpha'] = ALPHA
        try: c11.shock_prefix(o)
        except Unsupported as u_:
            O.append(core.Obl(base + '/extraction', 'open', 'extraction', 0.0, detail=str(u_)[:300])); continue
        for nm, ex in (('r2', d), ('us', d - 1), ('u2', d - 1), ('rho2', -om * d), ('p2', -om * d + 2 * (d - 1))):
            v = sp.sympify(A[nm])
            o_ = core.prove_zero('%s/exponent:%s' % (base, nm), t * sp.diff(v, t) - ex * v, hy, goal_text='d log %s / d log t == %s' % (nm, ex), positive=[ALPHA])
            o_.pop('cex_raw', None); O.append(o_)
    return res
