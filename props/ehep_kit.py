"""Escape of HE products: the region formulas of EscapeOfHEProducts._run under contract.
Mechanical extraction (every run, from the real source): the body of each `if/elif` branch of the per-point region chain plus the trailing
`if rho != 0: e = ...` statement.  Dropped by the extraction: the point loop, the polygon membership tests (matplotlib Path.contains_point,
point_on_boundary) that select the region, the index stores and the region label list."""
import ast
import sympy as sp
from vc import core, extract, sx, repo as R
from vc.values import *

SRC = 'exactpack/solvers/ehep/ehep.py'; KEY = 'exactpack.solvers.ehep.ehep:EscapeOfHEProducts'
x = sp.Symbol('x', real=True); t = sp.Symbol('t', positive=True)
D, rho_0, xtilde = sp.symbols('D rho_0 xtilde', positive=True); up = sp.Symbol('up', nonnegative=True)
gam = sp.Integer(3)                       # documented: 'adiabatic index, must be 3.0'
NATIVE = r"""
import json, io, contextlib, warnings
import numpy as np
warnings.simplefilter('ignore')
from exactpack.solvers.ehep.ehep import EscapeOfHEProducts as E
worst = {}; n = 0
def cons(q):
    E_ = q['density'] * (q['specific_internal_energy'] + q['velocity'] ** 2 / 2)
    return (q['density'], q['density'] * q['velocity'], E_), (q['density'] * q['velocity'], q['density'] * q['velocity'] ** 2 + q['pressure'], q['velocity'] * (E_ + q['pressure']))
for kw in (dict(), dict(xtilde=2.5), dict(D=1.2, rho_0=2.0, up=0.1, xtilde=0.4)):
    with contextlib.redirect_stdout(io.StringIO()): s = E(**kw)
    def F(x_, t_):
        with contextlib.redirect_stdout(io.StringIO()): r = s(np.array([x_]), t_)
        return {k: (float(r[k][0]) if k != 'region' else r[k][0]) for k in r.dtype.names}
    sx_ = kw.get('xtilde', 1.0); st_ = sx_ / kw.get('D', 0.85)
    for t0 in np.array([0.5, 0.85, 1.45, 2.1, 3.4]) * st_:
        for x0 in np.linspace(-2.0, 4.0, 61) * sx_:
            h = 1e-4 * sx_; ht = 1e-4 * st_; c = F(x0, t0)
            if c['region'] not in ('I', 'II', 'III', 'IV', 'V'): continue
            nb = [F(x0 + h, t0), F(x0 - h, t0), F(x0, t0 + ht), F(x0, t0 - ht)]
            if any(q['region'] != c['region'] for q in nb): continue
            n += 1
            U = [cons(q)[0] for q in nb]; Fl = [cons(q)[1] for q in nb]
            for k, nm in enumerate(('mass', 'momentum', 'energy')):
                res = (U[2][k] - U[3][k]) / (2 * ht) + (Fl[0][k] - Fl[1][k]) / (2 * h)
                sc = abs(cons(c)[0][k]) / t0 + 1e-12
                worst[(nm, c['region'])] = max(worst.get((nm, c['region']), 0.0), abs(res) / sc)
            eos = abs(c['pressure'] - (s.gamma - 1) * c['density'] * c['specific_internal_energy']) / (abs(c['pressure']) + 1e-300)
            ss = abs(c['sound_speed'] ** 2 - s.gamma * c['pressure'] / c['density']) / (c['sound_speed'] ** 2 + 1e-300) if c['density'] > 0 else 0.0
            worst[('eos', c['region'])] = max(worst.get(('eos', c['region']), 0.0), eos, ss)
bad = {'%s in region %s' % k: v for k, v in worst.items() if v > 1e-4}
print(json.dumps({'reproduced': bool(bad), 'interior_points': n, 'relative_residuals_above_1e-4': bad}))
"""


def regions():
    """{region label: {field: expression}} for the five flow regions, list of extraction notes"""
    fv = R.func_ref(SRC + '::EscapeOfHEProducts._run')
    loops = [n for n in fv.node.body if isinstance(n, ast.For)]
    if len(loops) != 1: raise Unsupported('EHEP: %d point loops' % len(loops))
    chain = [n for n in loops[0].body if isinstance(n, ast.If) and "corners['I']" in ast.unparse(n.test)]
    tail = [n for n in loops[0].body if isinstance(n, ast.If) and ast.unparse(n.test).replace(' ', '') == 'rho!=0']
    if len(chain) != 1 or len(tail) != 1: raise Unsupported('EHEP: region chain / energy statement not found')
    branches = {}; node = chain[0]
    while isinstance(node, ast.If):
        src = ast.unparse(node.test)
        for lab in ('I', 'II', 'III', 'IV', 'V'):
            if "corners['%s']" % lab in src and lab not in branches: branches[lab] = node.body
        node = node.orelse[0] if len(node.orelse) == 1 and isinstance(node.orelse[0], ast.If) else None
    if sorted(branches) != ['I', 'II', 'III', 'IV', 'V']: raise Unsupported('EHEP: regions found %s' % sorted(branches))
    out = {}
    for lab, body in branches.items():
        def thunk(run, body=body):
            I = sx.Interp(run)
            o = Obj(KEY, {'D': D, 'rho_0': rho_0, 'up': up, 'xtilde': xtilde, 'ttilde': xtilde / D, 'gamma': gam})
            env = sx.Env(fv.module, None, fv)
            env.locals.update({'self': o, 'x': x, 't': t, 'D': D, 'rho_0': rho_0, 'up': up, 'xtilde': xtilde, 'ttilde': xtilde / D, 'gamma': gam})
            I.block(body, env); I.block(tail, env)
            return {k: env.locals[k] for k in ('cs', 'u', 'p', 'rho', 'e', 'reg')}
        ps = [p for p in sx.explore(thunk, hyps=[up < D / 4, t > 0], feas=extract.default_feas) if p.outcome == 'return']
        # the flowing branch: positive sound speed (the max(., 0) clamp of region II and the rho == 0 alternative are the vacuum edge)
        good = [p for p in ps if sp.sympify(p.value['rho']) != 0 and sp.sympify(p.value['e']) != 0]
        if len(good) != 1: raise Unsupported('EHEP region %s: %d flowing paths' % (lab, len(good)))
        out[lab] = ({k: sp.sympify(v) for k, v in good[0].value.items() if k != 'reg'}, list(good[0].pc), good[0].value['reg'])
    return out


TV_NAT = r"""
import json, io, contextlib, warnings
import numpy as np
warnings.simplefilter('ignore')
from exactpack.solvers.ehep.ehep import EscapeOfHEProducts as E
kw = dict(D=0.85, rho_0=1.6, up=0.05, xtilde=1.3)
with contextlib.redirect_stdout(io.StringIO()): s = E(**kw)
rows = []
for t0 in (0.8, 1.9, 2.7, 4.4, 6.3):
    xs = np.linspace(-2.5, 6.0, 35) + 0.0071
    with contextlib.redirect_stdout(io.StringIO()): r = s(xs, t0)
    for i in range(len(xs)):
        if r['region'][i] in ('I', 'II', 'III', 'IV', 'V'):
            rows.append([float(xs[i]), t0, r['region'][i]] + [float(r[k][i]) for k in ('density', 'velocity', 'pressure', 'specific_internal_energy', 'sound_speed')])
print(json.dumps({'reproduced': False, 'kw': kw, 'rows': rows}))
"""


def translation_validation(reg):
    """the extracted region formulas against the real solver: every sampled point the solver assigns to region L is compared with the formulas of region L"""
    from vc import native, alg
    r_ = native.run_script(TV_NAT, timeout=300)
    if r_.get('result') is None: return 0, ['translation validation did not run: ' + (r_.get('stderr_tail') or '')[-200:]]
    kw = r_['result']['kw']; mism = []; n = 0; seen = set()
    for row in r_['result']['rows']:
        xx, tt, lab = row[:3]; F, pc, rl = reg[lab]
        pt = {x: sp.Rational(repr(xx)), t: sp.Rational(repr(tt)), D: sp.Rational(str(kw['D'])), rho_0: sp.Rational(str(kw['rho_0'])), up: sp.Rational(str(kw['up'])), xtilde: sp.Rational(str(kw['xtilde']))}
        n += 1; seen.add(lab)
        for k, real in zip(('rho', 'u', 'p', 'e', 'cs'), row[3:]):
            mine = float(alg.numeric(F[k], pt, 20))
            if abs(mine - real) > 1e-9 * max(abs(mine), abs(real)) + 1e-300:
                mism.append('region %s field %s at (x=%s, t=%s): extracted %.12g real %.12g' % (lab, k, xx, tt, mine, real)); break
    if len(seen) < 4: mism.append('translation validation reached only regions %s' % sorted(seen))
    return n, mism


def functions():
    return [{'ref': '%s::EscapeOfHEProducts.%s' % (SRC, m), 'sha256_16': R.source_hash(R.func_ref('%s::EscapeOfHEProducts.%s' % (SRC, m)))} for m in ('_run', 'p_rho')]


def unit(pid):
    res = {'obligations': [], 'functions': functions(), 'engine_errors': []}; O = res['obligations']
    try:
        reg = regions()
    except Unsupported as u_:
        O.append(core.Obl('%s/ehep/extraction' % pid, 'open', 'extraction', 0.0, detail=str(u_)[:300])); return res
    n_, mm = translation_validation(reg)
    res['tv'] = {'functions': 1, 'points': n_, 'mismatches': len(mm)}
    for m_ in mm[:4]: res['engine_errors'].append('translation validation: ' + m_)
    hy = [up < D / 4]
    for lab, (F, pc, rl) in sorted(reg.items()):
        base = '%s/ehep/region_%s' % (pid, lab); h = hy + pc
        rho, u, p, e, cs = F['rho'], F['u'], F['p'], F['e'], F['cs']
        obs = []
        if pid == 'C01':
            E_ = rho * (e + u ** 2 / 2)
            obs = [('pde:mass', sp.diff(rho, t) + sp.diff(rho * u, x), 'rho_t + (rho u)_x == 0'), ('pde:momentum', sp.diff(rho * u, t) + sp.diff(rho * u ** 2 + p, x), '(rho u)_t + (rho u^2 + p)_x == 0'),
                   ('pde:energy', sp.diff(E_, t) + sp.diff(u * (E_ + p), x), 'E_t + (u (E + p))_x == 0, E = rho (e + u^2/2)')]
        elif pid == 'C03':
            obs = [('eos:p=(gamma-1)*rho*e', p - (gam - 1) * rho * e, 'p == (gamma - 1) rho e'), ('eos:cs^2=gamma*p/rho', cs ** 2 * rho - gam * p, 'sound_speed^2 == gamma p / rho'),
                   ('eos:isentrope', p / rho ** 3 - sp.Rational(27, 256) * D ** 2 / rho_0 ** 2, 'p / rho^3 == 27 D^2 / (256 rho_0^2): the CJ isentrope of the gamma = 3 products')]
        for nm, ex, text in obs:
            o = core.prove_zero('%s/%s' % (base, nm), ex, h, goal_text=text)
            if o['status'] == 'refuted': o['replay'] = NATIVE
            o.pop('cex_raw', None); O.append(o)
        O.append(core.structural(base + '/label', rl == lab, 'reg = %r' % (rl,), None, 'path-analysis', 'the branch selected by corners[%r] reports region %r' % (lab, lab)))
    return res


BOUND_NATIVE = r"""
import json, io, contextlib, warnings
import numpy as np
warnings.simplefilter('ignore')
from exactpack.solvers.ehep.ehep import EscapeOfHEProducts as E
bad = []
for kw in (dict(), dict(D=1.2, rho_0=2.0, up=0.1, xtilde=1.7)):
    with contextlib.redirect_stdout(io.StringIO()): s = E(**kw)
    D, r0 = s.D, s.rho_0
    for t0 in np.array([0.4, 0.9, 1.6, 2.7, 4.1]) * s.xtilde / D:
        xs = np.linspace(-1.0, 1.5, 5001) * max(D * t0, s.xtilde)
        with contextlib.redirect_stdout(io.StringIO()): r = s(xs, t0)
        lab = r['region']; u = r['velocity']; c = r['sound_speed']; rho = r['density']; p = r['pressure']
        for i in range(len(xs) - 1):
            a, b = lab[i], lab[i + 1]
            if a == b or a not in ('I', 'II', 'III', 'IV', 'V') or b not in ('I', 'II', 'III', 'IV', 'V'): continue
            h = xs[i + 1] - xs[i]
            if abs(u[i + 1] - u[i]) > 50 * h * (abs(u[i]) / max(abs(xs[i]), 1e-3) + D / (D * t0)) + 1e-9 or abs(c[i + 1] - c[i]) > 50 * h * D / (D * t0) + 1e-9:
                bad.append(('jump across %s|%s' % (a, b), kw, float(xs[i]), float(t0), float(u[i]), float(u[i + 1]), float(c[i]), float(c[i + 1])))
        if t0 < s.xtilde / D:
            j = int(np.searchsorted(xs, D * t0)) - 2
            if lab[j] == 'I':
                m = rho[j] * (D - u[j]); mom = p[j] + rho[j] * (D - u[j]) ** 2
                if abs(m - r0 * D) > 2e-3 * r0 * D or abs(mom - r0 * D * D) > 2e-3 * r0 * D * D: bad.append(('detonation front mass/momentum', kw, float(t0), float(m), float(r0 * D), float(mom), float(r0 * D * D)))
print(json.dumps({'reproduced': bool(bad), 'failures': bad[:5]}))
"""


def unit_boundaries():
    """C02: the five flow regions fit together along the polygon edges computed by the real constructor: continuity of velocity and sound speed across
    every edge shared by two flow regions (weak discontinuities), the detonation front I|0H satisfies the mass and momentum jump conditions at speed D,
    the escape front II|0V has zero sound speed, the piston face (edges of III and V with region 00) moves with the piston."""
    from vc import extract
    res = {'obligations': [], 'functions': functions() + [{'ref': SRC + '::EscapeOfHEProducts.__init__', 'sha256_16': R.source_hash(R.func_ref(SRC + '::EscapeOfHEProducts.__init__'))}], 'engine_errors': []}; O = res['obligations']
    hy = [up < D / 4, up > 0]
    try:
        reg = regions()
        ps = [p for p in extract.run_ctor(KEY, {'D': D, 'rho_0': rho_0, 'up': up, 'xtilde': xtilde}, hyps=hy) if p.outcome == 'return']
        if len(ps) != 1: raise Unsupported('constructor: %d accepting paths' % len(ps))
        cor = ps[0].value.attrs.get('corners'); hy = hy + list(ps[0].pc)
        if not isinstance(cor, dict): raise Unsupported('corners is not a dict')
    except Unsupported as u_:
        O.append(core.Obl('C02/ehep/extraction', 'open', 'extraction', 0.0, detail=str(u_)[:300])); return res
    def pts(v):
        out = []
        for q in (v.items if hasattr(v, 'items') and not isinstance(v, dict) else v):
            a, b = (q.items if hasattr(q, 'items') and not isinstance(q, dict) else q)
            out.append((sp.simplify(sp.sympify(a)), sp.simplify(sp.sympify(b))))
        return out
    P = {k: pts(v) for k, v in cor.items()}
    def edges(poly):
        return [(poly[i], poly[(i + 1) % len(poly)]) for i in range(len(poly))]
    def same(e1, e2):
        z = lambda a, b: sp.simplify(a[0] - b[0]) == 0 and sp.simplify(a[1] - b[1]) == 0
        return (z(e1[0], e2[0]) and z(e1[1], e2[1])) or (z(e1[0], e2[1]) and z(e1[1], e2[0]))
    s_ = sp.Symbol('s_edge', positive=True)
    def on(e):      # generic interior point of the edge
        (xa, ta), (xb, tb) = e
        return {x: xa + s_ * (xb - xa), t: ta + s_ * (tb - ta)}
    flow = ['I', 'II', 'III', 'IV', 'V']; nshared = 0
    for i, a in enumerate(flow):
        for b in flow[i + 1:]:
            for ea in edges(P[a]):
                for eb in edges(P[b]):
                    if not same(ea, eb): continue
                    nshared += 1; sub = on(ea)
                    for f in ('u', 'cs'):
                        o = core.prove_zero('C02/ehep/edge_%s|%s/continuity:%s' % (a, b, f), (reg[a][0][f] - reg[b][0][f]).subs(sub), hy + [s_ < 1], goal_text='%s is continuous across the edge shared by regions %s and %s' % (f, a, b), extra_syms={s_})
                        if o['status'] == 'refuted': o['replay'] = NATIVE
                        o.pop('cex_raw', None); O.append(o)
    O.append(core.structural('C02/ehep/shared_edges', nshared >= 5, '%d shared edges between flow regions' % nshared, None, 'path-analysis', 'the five flow regions share at least five edges (vacuity)'))
    def shared(a, b):
        return [ea for ea in edges(P[a]) for eb in edges(P[b]) if same(ea, eb)]
    for e in shared('I', '0H'):
        sub = on(e); F = reg['I'][0]
        O.append(core.prove_zero('C02/ehep/detonation_front/speed', ((e[1][0] - e[0][0]) - D * (e[1][1] - e[0][1])), hy, goal_text='the edge I|0H is the line x = D t'))
        O.append(core.prove_zero('C02/ehep/detonation_front/rh:mass', (F['rho'] * (D - F['u'])).subs(sub) - rho_0 * D, hy + [s_ < 1], goal_text='rho (D - u) == rho_0 D', extra_syms={s_}))
        O.append(core.prove_zero('C02/ehep/detonation_front/rh:momentum', (F['p'] + F['rho'] * (D - F['u']) ** 2).subs(sub) - rho_0 * D ** 2, hy + [s_ < 1], goal_text='p + rho (D - u)^2 == rho_0 D^2 (p_0 = 0)', extra_syms={s_}))
        O.append(core.prove_zero('C02/ehep/detonation_front/cj:sonic', (F['u'] + F['cs']).subs(sub) - D, hy + [s_ < 1], goal_text='u + c == D behind the front (Chapman-Jouguet)', extra_syms={s_}))
    O.append(core.structural('C02/ehep/detonation_front/edge', len(shared('I', '0H')) == 1, '%d edges I|0H' % len(shared('I', '0H')), None, 'path-analysis', 'regions I and 0H share exactly one edge'))
    for e in shared('II', '0V'):
        O.append(core.prove_zero('C02/ehep/escape_front/cs=0', (sp.together(2 * (x / t - (x - xtilde) / (t - xtilde / D)) / 4)).subs(on(e)), hy + [s_ < 1], goal_text='x/t - (x - xtilde)/(t - ttilde) == 0 on the edge II|0V (sound speed vanishes at the escape front)', extra_syms={s_}))
    for a in ('III', 'V'):
        for e in [e_ for e_ in edges(P[a]) if sp.simplify(e_[0][0] - up * e_[0][1]) == 0 and sp.simplify(e_[1][0] - up * e_[1][1]) == 0]:      # edges lying on the piston path x = up t
            O.append(core.prove_zero('C02/ehep/piston/%s:u=up' % a, reg[a][0]['u'].subs(on(e)) - up, hy + [s_ < 1], goal_text='velocity on the piston face (edge %s|00) equals the piston velocity' % a, extra_syms={s_}))
            O.append(core.prove_zero('C02/ehep/piston/%s:path' % a, (e[1][0] - e[0][0]) - up * (e[1][1] - e[0][1]), hy, goal_text='the edge %s|00 is the piston path x = up t' % a))
    npist = len([o_ for o_ in O if '/piston/' in o_['name']])
    O.append(core.structural('C02/ehep/piston/edges', npist >= 4, '%d piston obligations' % npist, None, 'path-analysis', 'regions III and V each have an edge on the piston path (vacuity)'))
    for o_ in O:
        if o_['status'] == 'refuted': o_['replay'] = BOUND_NATIVE
    for o_ in O: o_.pop('cex_raw', None)
    return res


def unit_admissible():
    """C17: sound speed (hence density and pressure, which are positive multiples of cs and cs^3) is non-negative on each flow region.
    Each sign condition is written as (positive factor) x (function linear in (x, t)); a linear function on a polygon attains its minimum at a vertex
    (cited lemma: the polygon lies in the convex hull of its vertices), so it is proved at the vertices computed by the real constructor."""
    from vc import extract
    res = {'obligations': [], 'functions': functions() + [{'ref': SRC + '::EscapeOfHEProducts.__init__', 'sha256_16': R.source_hash(R.func_ref(SRC + '::EscapeOfHEProducts.__init__'))}], 'engine_errors': []}; O = res['obligations']
    hy = [up < D / 4, up > 0]
    try:
        reg = regions()
        ps = [p for p in extract.run_ctor(KEY, {'D': D, 'rho_0': rho_0, 'up': up, 'xtilde': xtilde}, hyps=hy) if p.outcome == 'return']
        if len(ps) != 1: raise Unsupported('constructor: %d accepting paths' % len(ps))
        cor = ps[0].value.attrs.get('corners'); hy = hy + list(ps[0].pc)
    except Unsupported as u_:
        O.append(core.Obl('C17/ehep/extraction', 'open', 'extraction', 0.0, detail=str(u_)[:300])); return res
    def pts(v):
        out = []
        for q in (v.items if hasattr(v, 'items') and not isinstance(v, dict) else v):
            a_, b_ = (q.items if hasattr(q, 'items') and not isinstance(q, dict) else q)
            out.append((sp.simplify(sp.sympify(a_)), sp.simplify(sp.sympify(b_))))
        return out
    tt = xtilde / D
    # cs = factor * linear(x, t) with factor > 0 inside the region (t > 0; t > ttilde in II, V; D t > xtilde in IV)
    lin = {'I': (x + D * t / 2, 1 / (2 * t)), 'III': (sp.Integer(1) * (up + D / 2), sp.Integer(1)), 'IV': ((up + D / 4) * (D * t - xtilde) - D * (x - xtilde) / 2, 1 / (D * t - xtilde)),
           'V': ((D - up) * tt + 0 * x, 1 / (t - tt)), 'II': (x * (t - tt) - (x - xtilde) * t, 1 / (2 * t * (t - tt)))}
    for lab, (L_, fac) in sorted(lin.items()):
        F = reg[lab][0]
        # the decomposition is the code's formula (the max(., 0) clamp of region II is the flowing branch)
        o = core.prove_zero('C17/ehep/region_%s/cs=factor*linear' % lab, F['cs'] - fac * L_, hy + reg[lab][1], goal_text='sound speed of region %s == (%s) * (function linear in x and t)' % (lab, fac))
        o.pop('cex_raw', None); O.append(o)
        for vi, (xv, tv) in enumerate(pts(cor[lab])):
            o = core.prove_valid('C17/ehep/region_%s/vertex%d:linear>=0' % (lab, vi), hy, L_.subs({x: xv, t: tv}) >= 0, goal_text='the linear function is non-negative at vertex %d of the region polygon' % vi)
            o.pop('cex_raw', None); O.append(o)
    # assumption (stated, not proved here): the factors are positive inside their regions (t > 0; t > ttilde in II and V; D t > xtilde in IV), which needs the window
    # (xmax, tmax) to contain the corner points of the x-t diagram - the constructor does not validate that
    O.append(core.prove_valid('C17/ehep/rho,p_from_cs', [], sp.And(sp.Rational(16, 9) > 0, sp.Rational(16, 27) > 0), goal_text='p_rho(): density and pressure are positive multiples of cs and cs^3'))
    return res
