"""Escape of HE products: the region formulas of EscapeOfHEProducts._run under contract.
Mechanical extraction (every run, from the real source): the body of each `if/elif` branch of the per-point region chain plus the trailing
`if rho != 0: e = ...` statement.  Dropped by the extraction: the point loop, the polygon membership tests (matplotlib Path.contains_point,
point_on_boundary) that select the region, the index stores and the region label list."""
import ast
import sympy as sp
from vc import core, extract, sx, repo as R
from vc.values import *

SRC = 'exactpack/solvers/ehep/ehep.py'; KEY = 'exactpack.solvers.ehep.ehep:EscapeOfHEProducts'
x = sp.Symbol('x', real=True); t = sp.Symbol('t', positive=True)
D, rho_0, xtilde = sp.symbols('D rho_0 xtilde', positive=True); up = sp.Symbol('up', nonnegative=True)
gam = sp.Integer(3)                       # documented: 'adiabatic index, must be 3.0'
NATIVE = r"""
import json, io, contextlib, warnings
import numpy as np
warnings.simplefilter('ignore')
from exactpack.solvers.ehep.ehep import EscapeOfHEProducts as E
worst = {}; n = 0
def cons(q):
    E_ = q['density'] * (q['specific_internal_energy'] + q['velocity'] ** 2 / 2)
    return (q['density'], q['density'] * q['velocity'], E_), (q['density'] * q['velocity'], q['density'] * q['velocity'] ** 2 + q['pressure'], q['velocity'] * (E_ + q['pressure']))
for kw in (dict(), dict(xtilde=2.5), dict(D=1.2, rho_0=2.0, up=0.1, xtilde=0.4)):
    with contextlib.redirect_stdout(io.StringIO()): s = E(**kw)
    def F(x_, t_):
        with contextlib.redirect_stdout(io.StringIO()): r = s(np.array([x_]), t_)
        return {k: (float(r[k][0]) if k != 'region' else r[k][0]) for k in r.dtype.names}
    sx_ = kw.get('xtilde', 1.0); st_ = sx_ / kw.get('D', 0.85)
    for t0 in np.array([0.5, 0.85, 1.45, 2.1, 3.4]) * st_:
        for x0 in np.linspace(-2.0, 4.0, 61) * sx_:
            h = 1e-4 * sx_; ht = 1e-4 * st_; c = F(x0, t0)
            if c['region'] not in ('I', 'II', 'III', 'IV', 'V'): continue
            nb = [F(x0 + h, t0), F(x0 - h, t0), F(x0, t0 + ht), F(x0, t0 - ht)]
            if any(q['region'] != c['region'] for q in nb): continue
            n += 1
            U = [cons(q)[0] for q in nb]; Fl = [cons(q)[1] for q in nb]
            for k, nm in enumerate(('mass', 'momentum', 'energy')):
                res = (U[2][k] - U[3][k]) / (2 * ht) + (Fl[0][k] - Fl[1][k]) / (2 * h)
                sc = abs(cons(c)[0][k]) / t0 + 1e-12
                worst[(nm, c['region'])] = max(worst.get((nm, c['region']), 0.0), abs(res) / sc)
            eos = abs(c['pressure'] - (s.gamma - 1) * c['density'] * c['specific_internal_energy']) / (abs(c['pressure']) + 1e-300)
            ss = abs(c['sound_speed'] ** 2 - s.gamma * c['pressure'] / c['density']) / (c['sound_speed'] ** 2 + 1e-300) if c['density'] > 0 else 0.0
            worst[('eos', c['region'])] = max(worst.get(('eos', c['region']), 0.0), eos, ss)
bad = {'%s in region %s' % k: v for k, v in worst.items() if v > 1e-4}
print(json.dumps({'reproduced': bool(bad), 'interior_points': n, 'relative_residuals_above_1e-4': bad}))
"""


def regions():
    """{region label: {field: expression}} for the five flow regions, list of extraction notes"""
    fv = R.func_ref(SRC + '::EscapeOfHEProducts._run')
    loops = [n for n in fv.node.body if isinstance(n, ast.For)]
    if len(loops) != 1: raise Unsupported('EHEP: %d point loops' % len(loops))
    chain = [n for n in loops[0].body if isinstance(n, ast.If) and "corners['I']" in ast.unparse(n.test)]
    tail = [n for n in loops[0].body if isinstance(n, ast.If) and ast.unparse(n.test).replace(' ', '') == 'rho!=0']
    if len(chain) != 1 or len(tail) != 1: raise Unsupported('EHEP: region chain / energy statement not found')
    branches = {}; node = chain[0]
    while isinstance(node, ast.If):
        src = ast.unparse(node.test)
        for lab in ('I', 'II', 'III', 'IV', 'V'):
            if "corners['%s']" % lab in src and lab not in branches: branches[lab] = node.body
        node = node.orelse[0] if len(node.orelse) == 1 and isinstance(node.orelse[0], ast.If) else None
    if sorted(branches) != ['I', 'II', 'III', 'IV', 'V']: raise Unsupported('EHEP: regions found %s' % sorted(branches))
    out = {}
    for lab, body in branches.items():
        def thunk(run, body=body):
            I = sx.Interp(run)
            o = Obj(KEY, {'D': D, 'rho_0': rho_0, 'up': up, 'xtilde': xtilde, 'ttilde': xtilde / D, 'gamma': gam})
            env = sx.Env(fv.module, None, fv)
            env.locals.update({'self': o, 'x': x, 't': t, 'D': D, 'rho_0': rho_0, 'up': up, 'xtilde': xtilde, 'ttilde': xtilde / D, 'gamma': gam})
            I.block(body, env); I.block(tail, env)
            return {k: env.locals[k] for k in ('cs', 'u', 'p', 'rho', 'e', 'reg')}
        ps = [p for p in sx.explore(thunk, hyps=[up < D / 4, t > 0], feas=extract.default_feas) if p.outcome == 'return']
        # the flowing branch: positive sound speed (the max(., 0) clamp of region II and the rho == 0 alternative are the vacuum edge)
        good = [p for p in ps if sp.sympify(p.value['rho']) != 0 and sp.sympify(p.value['e']) != 0]
        if len(good) != 1: raise Unsupported('EHEP region %s: %d flowing paths' % (lab, len(good)))
        out[lab] = ({k: sp.sympify(v) for k, v in good[0].value.items() if k != 'reg'}, list(good[0].pc), good[0].value['reg'])
    return out


TV_NAT = r"""
import json, io, contextlib, warnings
import numpy as np
warnings.simplefilter('ignore')
from exactpack.solvers.ehep.ehep import EscapeOfHEProducts as E
kw = dict(D=0.85, rho_0=1.6, up=0.05, xtilde=1.3)
with contextlib.redirect_stdout(io.StringIO()): s = E(**kw)
rows = []
for t0 in (0.8, 1.9, 2.7, 4.4, 6.3):
    xs = np.linspace(-2.5, 6.0, 35) + 0.0071
    with contextlib.redirect_stdout(io.StringIO()): r = s(xs, t0)
    for i in range(len(xs)):
        if r['region'][i] in ('I', 'II', 'III', 'IV', 'V'):
            rows.append([float(xs[i]), t0, r['region'][i]] + [float(r[k][i]) for k in ('density', 'velocity', 'pressure', 'specific_internal_energy', 'sound_speed')])
print(json.dumps({'reproduced': False, 'kw': kw, 'rows': rows}))
"""


def translation_validation(reg):
    """the extracted region formulas against the real solver: every sampled point the solver assigns to region L is compared with the formulas of region L"""
    from vc import native, alg
    r_ = native.run_script(TV_NAT, timeout=300)
    if r_.get('result') is None: return 0, ['translation validation did not run: ' + (r_.get('stderr_tail') or '')[-200:]]
    kw = r_['result']['kw']; mism = []; n = 0; seen = set()
    for row in r_['result']['rows']:
        xx, tt, lab = row[:3]; F, pc, rl = reg[lab]
        pt = {x: sp.Rational(repr(xx)), t: sp.Rational(repr(tt)), D: sp.Rational(str(kw['D'])), rho_0: sp.Rational(str(kw['rho_0'])), up: sp.Rational(str(kw['up'])), xtilde: sp.Rational(str(kw['xtilde']))}
        n += 1; seen.add(lab)
        for k, real in zip(('rho', 'u', 'p', 'e', 'cs'), row[3:]):
            mine = float(alg.numeric(F[k], pt, 20))
            if abs(mine - real) > 1e-9 * max(abs(mine), abs(real)) + 1e-300:
                mism.append('region %s field %s at (x=%s, t=%s): extracted %.12g real %.12g' % (lab, k, xx, tt, mine, real)); break
    if len(seen) < 4: mism.append('translation validation reached only regions %s' % sorted(seen))
    return n, mism


def functions():
    return [{'ref': '%s::EscapeOfHEProducts.%s' % (SRC, m), 'sha256_16': R.source_hash(R.func_ref('%s::EscapeOfHEProducts.%s' % (SRC, m)))} for m in ('_run', 'p_rho')]


def unit(pid):
    res = {'obligations': [], 'functions': functions(), 'engine_errors': []}; O = res['obligations']
    try:
        reg = regions()
    except Unsupported as u_:
        O.append(core.Obl('%s/ehep/extraction' % pid, 'open', 'extraction', 0.0, detail=str(u_)[:300])); return res
    n_, mm = translation_validation(reg)
    res['tv'] = {'functions': 1, 'points': n_, 'mismatches': len(mm)}
    for m_ in mm[:4]: res['engine_errors'].append('translation validation: ' + m_)
    hy = [up < D / 4]
    for lab, (F, pc, rl) in sorted(reg.items()):
        base = '%s/ehep/region_%s' % (pid, lab); h = hy + pc
        rho, u, p, e, cs = F['rho'], F['u'], F['p'], F['e'], F['cs']
        obs = []
        if pid == 'C01':
            E_ = rho * (e + u ** 2 / 2)
            obs = [('pde:mass', sp.diff(rho, t) + sp.diff(rho * u, x), 'rho_t + (rho u)_x == 0'), ('pde:momentum', sp.diff(rho * u, t) + sp.diff(rho * u ** 2 + p, x), '(rho u)_t + (rho u^2 + p)_x == 0'),
                   ('pde:energy', sp.diff(E_, t) + sp.diff(u * (E_ + p), x), 'E_t + (u (E + p))_x == 0, E = rho (e + u^2/2)')]
        elif pid == 'C03':
            obs = [('eos:p=(gamma-1)*rho*e', p - (gam - 1) * rho * e, 'p == (gamma - 1) rho e'), ('eos:cs^2=gamma*p/rho', cs ** 2 * rho - gam * p, 'sound_speed^2 == gamma p / rho'),
                   ('eos:isentrope', p / rho ** 3 - sp.Rational(27, 256) * D ** 2 / rho_0 ** 2, 'p / rho^3 == 27 D^2 / (256 rho_0^2): the CJ isentrope of the gamma = 3 products')]
        for nm, ex, text in obs:
            o = core.prove_zero('%s/%s' % (base, nm), ex, h, goal_text=text)
            if o['status'] == 'refuted': o['replay'] = NATIVE
            o.pop('cex_raw', None); O.append(o)
        O.append(core.structural(base + '/label', rl == lab, 'reg = %r' % (rl,), None, 'path-analysis', 'the branch selected by corners[%r] reports region %r' % (lab, lab)))
    return res
