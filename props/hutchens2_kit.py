"""Hutchens 2 (steady heat conduction in a finite cylinder with uniform heat generation): the series of Hutchens2._run under contract.
Mechanical extraction: the right-hand sides of the `sum += ...` statements of the term loop (executed once on a symbolic index), the static part, and the
position of the statement that adds the series to the temperature.  scipy.special.i0 is an uninterpreted function I0 with I0' = I1, I1' = I0 - I1/z."""
import ast, json
import sympy as sp
from vc import core, extract, sx, native, repo as R
from vc.values import *

SRC = 'exactpack/solvers/heat/hutchens2.py'; KEY = 'exactpack.solvers.heat.hutchens2:Hutchens2'


class BI0(sp.Function):
    nargs = 1
    def fdiff(self, argindex=1): return BI1(self.args[0])


class BI1(sp.Function):
    nargs = 1
    def fdiff(self, argindex=1): return BI0(self.args[0]) - BI1(self.args[0]) / self.args[0]


r, z, kk, g0, Tb, T0, TL, b, L = sp.symbols('r z k g0 Tb T0 TL b L', positive=True); n = sp.Symbol('n', integer=True, nonnegative=True)
NATIVE = r"""
import json, io, contextlib, warnings
import numpy as np
warnings.simplefilter('ignore')
from exactpack.solvers.heat import Hutchens2
out = {}
for N in (20, 100):
    with contextlib.redirect_stdout(io.StringIO()): s = Hutchens2(Nsum=N)
    rr = np.array([1.0, 1.0, 1.0]); zz = np.array([0.5, 1.0, 1.5])
    with contextlib.redirect_stdout(io.StringIO()): T = s([rr, zz], 0.0)['temperature']
    out['Nsum=%d: T(r=b, z=0.5, 1.0, 1.5) (boundary value Tb = 5)' % N] = [float(q) for q in T]
bad = any(abs(q - 5.0) > 0.5 for v in out.values() for q in v)
print(json.dumps(dict(out, reproduced=bool(bad))))
"""


def unit():
    res = {'obligations': [], 'functions': [{'ref': SRC + '::Hutchens2._run', 'sha256_16': R.source_hash(R.func_ref(SRC + '::Hutchens2._run'))}], 'engine_errors': []}; O = res['obligations']
    fv = R.func_ref(SRC + '::Hutchens2._run')
    loops = [q for q in fv.node.body if isinstance(q, ast.For)]
    if len(loops) != 1: O.append(core.Obl('C14/hutchens2/extraction', 'open', 'extraction', 0.0, detail='%d loops' % len(loops))); return res
    loop = loops[0]
    adds_in = [q for q in loop.body if isinstance(q, ast.AugAssign) and isinstance(q.target, ast.Name) and q.target.id == 'temperature']
    adds_out = [q for q in fv.node.body if isinstance(q, ast.AugAssign) and isinstance(q.target, ast.Name) and q.target.id == 'temperature']
    O.append(core.structural('C14/hutchens2/series:added_once', not adds_in and len(adds_out) == 1, 'temperature += sum inside the term loop: %d, after it: %d' % (len(adds_in), len(adds_out)), NATIVE, 'ast-structural',
                             'the accumulated series is added to the temperature once, after the term loop (inside the loop every partial sum is added again)'))
    terms = [q for q in loop.body if isinstance(q, ast.AugAssign) and isinstance(q.target, ast.Name) and q.target.id == 'sum']
    pre = [q for q in loop.body if isinstance(q, ast.Assign)]
    stat = [q for q in fv.node.body if isinstance(q, ast.Assign) and isinstance(q.targets[0], ast.Name) and q.targets[0].id == 'temperature']
    obj = Obj(KEY, {'k': kk, 'g0': g0, 'Tb': Tb, 'T0': T0, 'TL': TL, 'b': b, 'L': L})
    ext = {'scipy.special.i0': lambda I, a_, k_: BI0(sp.sympify(a_[0]))}
    def thunk(run):
        I = sx.Interp(run, externals=ext); env = sx.Env(fv.module, None, fv); env.locals.update({'self': obj, 'r': r, 'z': z, 'n': n})
        I.block(stat, env); I.block(pre, env)
        return [I.eval(q.value, env) for q in terms], env.locals['temperature']
    try:
        ps = [p for p in sx.explore(thunk, hyps=[], feas=extract.default_feas) if p.outcome == 'return']
        if len(ps) != 1: raise Unsupported('%d paths' % len(ps))
    except Unsupported as u_:
        O.append(core.Obl('C14/hutchens2/extraction', 'open', 'extraction', 0.0, detail=str(u_)[:300])); return res
    tv, st = ps[0].value; tv = [sp.sympify(q) for q in tv]; st = sp.sympify(st)
    lap = lambda F: sp.diff(F, r, 2) + sp.diff(F, r) / r + sp.diff(F, z, 2)
    def zero(name, e, text):
        o = core.prove_zero(name, sp.expand(e), [], goal_text=text)
        if o['status'] == 'open':
            conc = sp.expand(e).replace(lambda q: isinstance(q, BI0), lambda q: sp.besseli(0, q.args[0])).replace(lambda q: isinstance(q, BI1), lambda q: sp.besseli(1, q.args[0]))
            P_ = {r: 0.4, z: 0.7, kk: 1.3, g0: 2.1, Tb: 5.0, T0: 2.0, TL: 1.0, b: 1.0, L: 2.0, n: 1}
            v = abs(complex(sp.N(conc.subs(P_), 30)))
            if v > 1e-12: o = core.Obl(name, 'refuted', 'exact-evaluation(bessel)', 0.0, goal=text, cex={str(s_): float(v_) for s_, v_ in P_.items()}, detail='value %.6g (real modified Bessel functions, 30 digits)' % v, replay=NATIVE)
        if o['status'] == 'refuted' and not o.get('replay'): o['replay'] = NATIVE
        o.pop('cex_raw', None); return o
    O.append(zero('C14/hutchens2/static:poisson', lap(st) + g0 / kk, 'static part: Laplacian(T) + g0/k == 0'))
    O.append(zero('C14/hutchens2/static:bc_z=0', st.subs(z, 0) - T0, 'static part equals T0 at z = 0'))
    O.append(zero('C14/hutchens2/static:bc_z=L', st.subs(z, L) - TL, 'static part equals TL at z = L'))
    for i, tm in enumerate(tv):
        O.append(zero('C14/hutchens2/term%d:harmonic' % i, lap(tm), 'series term %d is harmonic (I0(lambda r) sin(lambda z))' % i))
        O.append(zero('C14/hutchens2/term%d:bc_z=0' % i, tm.subs(z, 0), 'series term %d vanishes at z = 0' % i))
        O.append(zero('C14/hutchens2/term%d:bc_z=L' % i, tm.subs(z, L), 'series term %d vanishes at z = L' % i))
    # radial boundary: sum of the terms at r = b must be the sine-series coefficient of Tb - static(z): b_n = (2/L) int_0^L (Tb - static) sin(lambda_n z) dz
    lamn = (2 * n + 1) * sp.pi / L
    coef = sp.simplify(2 / L * sp.integrate((Tb - st) * sp.sin(lamn * z), (z, 0, L)))
    tot = sum(tv).subs(r, b)
    O.append(zero('C14/hutchens2/radial:coefficient', tot - coef * sp.sin(lamn * z), 'sum of the three terms at r = b == b_n sin(lambda_n z), b_n the odd sine coefficient of Tb - static(z) (even modes are not in the series: they vanish only if T0 + TL = 2 Tb ... see DESIGN)'))
    # bounded: boundary values on the real solver
    r_ = native.run_script(NATIVE, timeout=300)
    rr = r_.get('result')
    res['bounded'] = [{'name': 'C14/bounded/hutchens2:boundary_value_at_r=b', 'status': 'fail' if (rr or {}).get('reproduced') else 'pass', 'evaluations': 6, 'bound': 'default parameters, Nsum = 20 and 100, three points on r = b',
                       'tolerance': '0.5 eV', 'detail': json.dumps(rr)[:300] if rr else (r_.get('stderr_tail') or '')[-200:], 'replay': NATIVE if (rr or {}).get('reproduced') else None}]
    if rr is None: res['engine_errors'].append('bounded Hutchens 2 check did not run')
    return res
