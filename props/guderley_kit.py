"""Guderley: ramsey.state() under contract.  The ODE integrations (solve_ivp) are replaced by their contract: the similarity variables at the end point are
unknown functions of the end point (and of the start values); everything else of state() is executed from the real source."""
import sympy as sp
from vc import core, extract, sx, repo as R
from vc.values import *

REF = 'exactpack/solvers/guderley/ramsey.py::state'
r = sp.Symbol('r', positive=True); rho0 = sp.Symbol('rho0', positive=True); gam = sp.Symbol('gamma', positive=True); lam = sp.Symbol('lambda_', positive=True)
B = sp.Symbol('B', positive=True); xi = sp.Symbol('xi', real=True); n = sp.Symbol('n', integer=True, positive=True)


NATIVE = r"""
import json, io, contextlib, warnings
import numpy as np
warnings.simplefilter('ignore')
from exactpack.solvers.guderley import Guderley
pid = %(pid)r; g = 1.4; bad = {}
with contextlib.redirect_stdout(io.StringIO()):
    s = Guderley(gamma=g, rho0=1.3); r = np.array([0.4, 0.9, 1.6]); a = s(r, -0.5)
if pid in ('C03', 'C02'):
    e1 = np.abs(a['pressure'] - (g - 1) * a['density'] * a['specific_internal_energy']) / (np.abs(a['pressure']) + 1e-300)
    e2 = np.abs(a['sound_speed'] ** 2 * a['density'] - g * a['pressure']) / (np.abs(g * a['pressure']) + 1e-300)
    if max(e1.max(), e2.max()) > 1e-8: bad['eos'] = [float(e1.max()), float(e2.max())]
if pid == 'C08':
    with contextlib.redirect_stdout(io.StringIO()): b = Guderley(gamma=g, rho0=2.6)(r, -0.5)
    for n, f in (('density', 2.0), ('pressure', 2.0), ('velocity', 1.0), ('sound_speed', 1.0), ('specific_internal_energy', 1.0)):
        d = np.abs(b[n] - f * a[n]) / (np.abs(a[n]).max() + 1e-300)
        if d.max() > 1e-6: bad[n] = float(d.max())
if pid == 'C10':
    from exactpack.solvers.guderley.eexp import eexp
    lam = eexp(3, g); k = 1.3; C = 0.750024322
    t2 = C * (1 + k ** lam * (-0.5 / C - 1.0))
    with contextlib.redirect_stdout(io.StringIO()): b = s(k * r, t2)
    for n, ex in (('density', 0), ('velocity', 1), ('sound_speed', 1), ('pressure', 2), ('specific_internal_energy', 2)):
        d = np.abs(b[n] - k ** (ex * (1 - lam)) * a[n]) / (np.abs(a[n]).max() + 1e-300)
        if d.max() > 1e-5: bad[n] = float(d.max())
print(json.dumps({'reproduced': bool(bad), 'failures': bad}))
"""


def paths():
    calls = []
    def solve_ivp(I, a, k):
        span = a[1]; y0 = a[2]
        t0, t1 = sp.sympify(span[0] if not isinstance(span, Vec) else span.items[0]), sp.sympify(span[1] if not isinstance(span, Vec) else span.items[1])
        i = len(calls); ys = [sp.sympify(q) for q in (y0.items if isinstance(y0, Vec) else y0)]
        calls.append((t0, t1, ys))
        # contract: the state at the end point; for the first integration (from the incoming shock) a function of the end point only
        out = [sp.Function('Y%d_%d' % (j, i))(t1) for j in range(3)]
        return AbstractObj('soln', {'y': Vec([Vec([q]) for q in out])})
    ps = extract.run_function(REF, [r, rho0, n, gam, lam, B, xi], hyps=[gam > 1], externals={'scipy.integrate.solve_ivp': solve_ivp})
    return [p for p in ps if p.outcome == 'return'], calls


def functions():
    return [{'ref': REF, 'sha256_16': R.source_hash(R.func_ref(REF))}]


def classify(p):
    v = [sp.sympify(q) for q in p.value]
    if v[1] == 0 and v[2] == 0: return 'ahead'
    nf = len({f.func for q in v for f in q.atoms(sp.core.function.AppliedUndef)})
    return 'flow'


TIME_NATIVE = r"""
import json, io, contextlib, warnings
import numpy as np
warnings.simplefilter('ignore')
from exactpack.solvers.guderley import Guderley
g = 3.0
with contextlib.redirect_stdout(io.StringIO()): s = Guderley(gamma=g, geometry=3, rho0=1.0)
r0 = np.array([1.2, 1.6]); t0 = -0.3; h = 1e-4
def F(r, t):
    with contextlib.redirect_stdout(io.StringIO()): a = s(np.array(r, dtype=float), t)
    return a['density'], a['velocity']
d0, u0 = F(r0, t0); dp, up_ = F(r0 + h, t0); dm, um = F(r0 - h, t0); dtp, _ = F(r0, t0 + h); dtm, _ = F(r0, t0 - h)
res_user = (dtp - dtm) / (2 * h) + (dp * up_ - dm * um) / (2 * h) + 2 * d0 * u0 / r0                      # mass equation in the wrapper's own (r, t)
res_laz = 0.750024322 * (dtp - dtm) / (2 * h) + (dp * up_ - dm * um) / (2 * h) + 2 * d0 * u0 / r0        # the same with d/dt_Lazarus = 0.750024322 d/dt
sc = np.abs(d0 * u0 / r0) + 1e-300
print(json.dumps({'reproduced': bool(np.max(np.abs(res_user) / sc) > 1e-3), 'normalised mass residual in the wrapper time t': [float(q) for q in np.abs(res_user) / sc],
                  'normalised mass residual in Lazarus time': [float(q) for q in np.abs(res_laz) / sc], 'points r': [float(q) for q in r0], 't': t0}))
"""


PDE_NATIVE = r"""
import json, io, contextlib, warnings
import numpy as np
warnings.simplefilter('ignore')
from exactpack.solvers.guderley import Guderley
g = 3.0; C = 0.750024322; bad = {}; n = 0
for geom in (2, 3):
    with contextlib.redirect_stdout(io.StringIO()): s = Guderley(gamma=g, geometry=geom, rho0=1.0)
    def F(r, t):
        with contextlib.redirect_stdout(io.StringIO()): a = s(np.array(r, dtype=float), t)
        return a['density'], a['velocity'], a['pressure']
    r0 = np.array([1.45, 1.6, 1.8]); t0 = -0.3; h = 1e-4
    d0, u0, p0 = F(r0, t0); dp, up_, pp = F(r0 + h, t0); dm, um, pm = F(r0 - h, t0); dtp, utp, ptp = F(r0, t0 + h); dtm, utm, ptm = F(r0, t0 - h)
    ddt = lambda a, b: C * (a - b) / (2 * h)          # derivative with respect to Lazarus time (documented unit of the returned fields)
    mass = ddt(dtp, dtm) + (dp * up_ - dm * um) / (2 * h) + (geom - 1) * d0 * u0 / r0
    mom = ddt(utp, utm) + u0 * (up_ - um) / (2 * h) + (pp - pm) / (2 * h) / d0
    ent = ddt(ptp / dtp ** g, ptm / dtm ** g) + u0 * (pp / dp ** g - pm / dm ** g) / (2 * h)
    for nm, res, sc in (('mass', mass, np.abs(d0 * u0 / r0)), ('momentum', mom, np.abs(u0 * u0 / r0)), ('entropy', ent, np.abs(u0 * p0 / d0 ** g / r0))):
        w = np.abs(res) / (sc + 1e-300); ok = d0 > 1.0 + 1e-9          # only points behind the converging shock
        n += int(np.sum(ok))
        if np.any(ok) and np.max(w[ok]) > 1e-4: bad['%s geometry=%d' % (nm, geom)] = float(np.max(w[ok]))
print(json.dumps({'reproduced': bool(bad), 'points_behind_the_shock': n, 'normalised residuals above 1e-4': bad}))
"""


def unit_pde():
    """C01: the ODE right-hand side g(xi, y) is the similarity reduction of the Euler equations for the physical fields that state() builds from (V, C, R):
    substituting rho = rho0 R(xi), u = V(xi) r^(1-lambda)/(-xi lambda), c = C(xi) r^(1-lambda)/(-xi lambda), p = rho c^2/gamma, xi = tau / r^lambda into the PDEs
    and replacing (V', C', R') by the coded right-hand side gives identically zero.  Time variable: the documented Lazarus time tau = t/0.750024322 - 1."""
    import ast
    from vc import sx
    MODN = 'exactpack.solvers.guderley.ramsey'
    res = {'obligations': [], 'functions': functions() + [{'ref': 'exactpack/solvers/guderley/ramsey.py::g', 'sha256_16': R.source_hash(R.func_ref('exactpack/solvers/guderley/ramsey.py::g'))},
                                                          {'ref': 'exactpack/solvers/guderley/ramsey.py::guderley_1d', 'sha256_16': R.source_hash(R.func_ref('exactpack/solvers/guderley/ramsey.py::guderley_1d'))}], 'engine_errors': []}
    O = res['obligations']
    tau = sp.Symbol('tau', negative=True); nu = sp.Symbol('nu', integer=True, nonnegative=True); xs = sp.Symbol('xi_', negative=True)
    Vs, Cs, Rs = sp.symbols('V_ C_ R_', real=True)
    fv = R.func_ref('exactpack/solvers/guderley/ramsey.py::g')
    def thunk(run):
        run.gstore[(MODN, 'gamma')] = gam; run.gstore[(MODN, 'lambda_')] = lam; run.gstore[(MODN, 'nu')] = nu
        I = sx.Interp(run); return I.call_func(fv, [xs, Vec([Vs, Cs, Rs])], {})
    try:
        gp = [p for p in sx.explore(thunk, hyps=[gam > 1], feas=extract.default_feas) if p.outcome == 'return']
        if len(gp) != 1: raise Unsupported('g(): %d paths' % len(gp))
        yp = [sp.sympify(q) for q in gp[0].value.items]
        ps, calls = paths()
    except Unsupported as u_:
        O.append(core.Obl('C01/guderley/extraction', 'open', 'extraction', 0.0, detail=str(u_)[:300])); return res
    from vc import propkit
    items = []; exp = []
    for (x_, V_, C_, R_, g_, l_, nu_) in ((-0.7, -0.6, 0.5, 3.0, 1.4, 1.395, 2), (0.3, -0.2, 0.9, 7.0, 1.67, 1.22, 1)):
        pt = {xs: sp.Rational(str(x_)), Vs: sp.Rational(str(V_)), Cs: sp.Rational(str(C_)), Rs: sp.Rational(str(R_)), gam: sp.Rational(str(g_)), lam: sp.Rational(str(l_)), nu: sp.Integer(nu_)}
        ex = propkit.expected_from_paths(gp, pt)
        if ex is None: continue
        items.append({'module': MODN, 'name': 'g', 'args': [x_, [V_, C_, R_]], 'globals': {'gamma': g_, 'lambda_': l_, 'nu': nu_}}); exp.append(ex)
    n_, mm = propkit.tv_functions(items, exp, rtol=1e-9)
    propkit.tv_report(res, 1, n_, mm)
    V = sp.Function('V'); C = sp.Function('C'); Rf = sp.Function('R'); X = tau / r ** lam
    flows = [p for p in ps if classify(p) == 'flow']
    for i, p in enumerate(flows):
        den, vel, pres, snd, sie = [sp.sympify(q) for q in p.value]
        # the end state of the (last) integration of this branch is the similarity solution at xi: Y_j(xi) -> (V, C, R)(xi)
        fs = sorted({f for q in (den, vel, pres) for f in q.atoms(sp.core.function.AppliedUndef)}, key=str)
        rep = {}
        for f in fs:
            j = int(f.func.__name__[1]); rep[f] = (V, C, Rf)[j](X)
        rho, u, pr = [q.subs(rep).subs(xi, X) for q in (den, vel, pres)]
        eqs = {'pde:mass': sp.diff(rho, tau) + sp.diff(rho * u, r) + nu * rho * u / r, 'pde:momentum': sp.diff(u, tau) + u * sp.diff(u, r) + sp.diff(pr, r) / rho,
               'pde:entropy': sp.diff(pr / rho ** gam, tau) + u * sp.diff(pr / rho ** gam, r)}
        for nm, e in eqs.items():
            e = e.doit()
            for F, ypi in ((V, yp[0]), (C, yp[1]), (Rf, yp[2])):
                e = e.replace(lambda z: isinstance(z, sp.Subs) and z.expr.func == sp.Derivative and z.expr.args[0].func == F, lambda z: ypi.subs({xs: X, Vs: V(X), Cs: C(X), Rs: Rf(X)}))
            e = e.subs({V(X): Vs, C(X): Cs, Rf(X): Rs})
            if e.atoms(sp.Subs, sp.Derivative):
                O.append(core.Obl('C01/guderley/branch%d/%s' % (i, nm), 'open', 'extraction', 0.0, detail='derivative atoms left')); continue
            o = core.prove_zero('C01/guderley/branch%d/%s' % (i, nm), e, [gam > 1, Rs > 0, sp.Ne(Cs ** 2 - (Vs + 1) ** 2, 0)] + [c for c in p.pc if not c.has(xi)], extra_syms={Vs, Cs, Rs},
                                goal_text={'pde:mass': 'rho_tau + (rho u)_r + nu rho u / r == 0', 'pde:momentum': 'u_tau + u u_r + p_r / rho == 0', 'pde:entropy': '(p/rho^gamma)_tau + u (p/rho^gamma)_r == 0'}[nm] + ' with (V, C, R)\' = g(xi, (V, C, R))')
            if o['status'] == 'refuted': o['replay'] = PDE_NATIVE
            o.pop('cex_raw', None); O.append(o)
    # the driver: xi = (t/factorC - 1)/r^lambda and state() gets the caller's rho0, geometry, gamma
    fd = R.func_ref('exactpack/solvers/guderley/ramsey.py::guderley_1d'); src = ast.unparse(fd.node).replace(' ', '')
    ok = all(q in src for q in ('tee=t/factorC-1.0', 'targetx=tee/rpos**lambda_', 'rpos=r[i]', 'state(rpos,rho0,ngeom,gamma,lambda_,B,targetx)', 'lambda_=eexp(ngeom,gamma)', 'den[i]=deni', 'vel[i]=veli', 'pres[i]=presi'))
    # the time variable of the returned fields vs the time argument of the solver (documented equations are written in (r, t))
    try:
        st = [n_ for n_ in fd.node.body if isinstance(n_, ast.Assign) and isinstance(n_.targets[0], ast.Name) and n_.targets[0].id in ('factorC', 'tee')]
        tt = sp.Symbol('t_user', real=True)
        def thunk2(run):
            I = sx.Interp(run); env = sx.Env(fd.module, None, fd); env.locals['t'] = tt; I.block(st, env); return env.locals['tee']
        tee = sp.sympify([p_ for p_ in sx.explore(thunk2, hyps=[], feas=extract.default_feas) if p_.outcome == 'return'][0].value)
        o = core.prove_zero('C01/guderley/time_variable', sp.diff(tee, tt) - 1, [], goal_text='d(similarity time)/d(solver time argument) == 1: the returned velocity, sound speed, pressure and energy are expressed in the time unit of the argument t, so that the documented equations hold in (r, t)')
        if o['status'] == 'refuted': o['replay'] = TIME_NATIVE
        o.pop('cex_raw', None); O.append(o)
    except Exception as e_:
        O.append(core.Obl('C01/guderley/time_variable', 'open', 'extraction', 0.0, detail=str(e_)[:200]))
    O.append(core.structural('C01/guderley/driver', ok, 'guderley_1d(): tee, targetx, state call, index stores', None, 'ast-structural', 'xi = (t/factorC - 1)/r^lambda with the similarity exponent of (geometry, gamma); every point goes through state() with the caller\'s parameters'))
    return res


def unit(pid):
    res = {'obligations': [], 'functions': functions(), 'engine_errors': []}; O = res['obligations']
    try: ps, calls = paths()
    except Unsupported as u_:
        O.append(core.Obl('%s/guderley/extraction' % pid, 'open', 'extraction', 0.0, detail=str(u_)[:300])); return res
    flows = [p for p in ps if classify(p) == 'flow']; ahead = [p for p in ps if classify(p) == 'ahead']
    O.append(core.structural('%s/guderley/paths' % pid, len(flows) == 3 and len(ahead) == 1, '%d flowing branches, %d undisturbed' % (len(flows), len(ahead)), None, 'path-analysis', 'undisturbed gas, converging flow, flow before and after the reflected shock'))
    hy = [gam > 1]
    for i, p in enumerate(flows):
        den, vel, pres, snd, sie = [sp.sympify(q) for q in p.value]; h = hy + list(p.pc); base = '%s/guderley/branch%d' % (pid, i)
        if pid == 'C03':
            O.append(core.prove_zero(base + '/eos:p=(gamma-1)*rho*e', pres - (gam - 1) * den * sie, h, goal_text='pressure == (gamma-1) density sie'))
            O.append(core.prove_zero(base + '/eos:cs^2=gamma*p/rho', snd ** 2 * den - gam * pres, h, goal_text='sound_speed^2 == gamma pressure / density'))
        if pid == 'C10':
            k = sp.Symbol('k_sim', positive=True)
            # similarity: xi = tee / r^lambda is held fixed; r -> k r
            for nm, q, ex in (('density', den, 0), ('velocity', vel, 1), ('sound_speed', snd, 1), ('pressure', pres, 2), ('specific_internal_energy', sie, 2)):
                O.append(core.prove_zero('%s/selfsimilar:%s' % (base, nm), q.subs(r, k * r) - k ** (ex * (1 - lam)) * q, h, goal_text='%s(k r, xi) == k^(%d (1-lambda)) %s(r, xi): power law in r times a function of xi = (t/C - 1)/r^lambda' % (nm, ex, nm), extra_syms={k}))
        if pid == 'C08':
            lM, lL = sp.symbols('lambda_M lambda_L', positive=True)
            for nm, q, f in (('density', den, lM / lL ** 3), ('pressure', pres, lM / lL ** 3), ('velocity', vel, 1), ('sound_speed', snd, 1), ('specific_internal_energy', sie, 1)):
                O.append(core.prove_zero('%s/rho0_scaling:%s' % (base, nm), q.subs(rho0, rho0 * lM / lL ** 3) - f * q, h, goal_text='%s under rho0 -> rho0 lambda_M/lambda_L^3 (the solver is written in fixed length/time units: only the density scale is a parameter)' % nm, extra_syms={lM, lL}))
    if pid == 'C02':
        # incoming strong shock at xi = -1 (start values of the first integration) and reflected shock at xi = B (restart values of the last one), in similarity variables:
        # relative velocity ~ (1 + V), sound speed ~ C, density ~ R  (common factor r/(lambda t) dropped)
        def jump(name, pre, post, cold):
            V0, C0, R0 = pre; V1, C1, R1 = post      # C0, C1 are the SQUARES of the similarity sound speeds
            O.append(core.prove_zero('C02/guderley/%s/rh:mass' % name, R0 * (1 + V0) - R1 * (1 + V1), hy, goal_text='R (1+V) continuous'))
            O.append(core.prove_zero('C02/guderley/%s/rh:momentum' % name, (R0 * C0 / gam + R0 * (1 + V0) ** 2) - (R1 * C1 / gam + R1 * (1 + V1) ** 2), hy, goal_text='R C^2/gamma + R (1+V)^2 continuous'))
            O.append(core.prove_zero('C02/guderley/%s/rh:energy' % name, (C0 / (gam - 1) + (1 + V0) ** 2 / 2) - (C1 / (gam - 1) + (1 + V1) ** 2 / 2), hy, goal_text='C^2/(gamma-1) + (1+V)^2/2 continuous'))
        first = [c for c in calls if c[0] == -1]
        if first:
            y0 = first[0][2]
            jump('incoming_shock', (sp.Integer(0), sp.Integer(0), sp.Integer(1)), (y0[0], y0[1] ** 2, y0[2]), True)
        refl = [c for c in calls if c[0] == B]
        pre = [c for c in calls if c[1] == B]
        if refl and pre:
            i_pre = calls.index(pre[0]); Yp = [sp.Function('Y%d_%d' % (j, i_pre))(B) for j in range(3)]
            y1 = refl[0][2]
            # the code sets C_post = z * sign(C_pre): the jump conditions involve C^2 only
            c1sq = (y1[1] ** 2).replace(lambda e_: isinstance(e_, sp.sign), lambda e_: sp.Integer(1))      # (z sign(C))^2 = z^2 for C != 0
            jump('reflected_shock', (Yp[0], Yp[1] ** 2, Yp[2]), (y1[0], c1sq, y1[2]), False)
        else:
            O.append(core.Obl('C02/guderley/reflected_shock/extraction', 'open', 'extraction', 0.0, detail='restart at B not found among %d integrations' % len(calls)))
    for o in O:
        o.pop('cex_raw', None)
        if o['status'] == 'refuted' and not o.get('replay'): o['replay'] = NATIVE % dict(pid=pid)
    return res
