"""Steady detonation reaction zone: the state relations of SteadyDetonationReactionZone.run_tvec under contract.
Mechanical extraction: the real constructor (executed symbolically) and the statements of run_tvec that define gvec, pvec, rhovec, uvec, csvec from the reaction
progress, plus the closed forms of the reaction progress and of the particle path for t <= 1.  Dropped: array bookkeeping, the numerically integrated alternative
(useExactLambda=False), the interpolation of _run back to positions."""
import ast
import sympy as sp
from vc import core, extract, sx, repo as R
from vc.values import *

SRC = 'exactpack/solvers/sdrz/sdrz.py'; KEY = 'exactpack.solvers.sdrz.sdrz:SteadyDetonationReactionZone'
D, rho_0, gam = sp.symbols('D rho_0 gamma', positive=True); lam = sp.Symbol('lam', nonnegative=True); t = sp.Symbol('t', positive=True)
NATIVE = r"""
import json, io, contextlib, warnings
import numpy as np
warnings.simplefilter('ignore')
from exactpack.solvers.sdrz import SteadyDetonationReactionZone as Z
bad = {}
for kw in (dict(), dict(D=1.3, rho_0=2.2, gamma=2.4)):
    with contextlib.redirect_stdout(io.StringIO()): s = Z(**kw); r = s.run_tvec(np.linspace(0.0, 1.4, 57))
    D, r0, g = s.D, s.rho_0, s.gamma; p, u, rho, c, lm = r['pressure'], r['velocity'], r['density'], r['sound_speed'], r['reaction_progress']
    q = D * D / (2 * (g * g - 1))
    res = {'mass': rho * (D - u) / (r0 * D) - 1, 'momentum': p / (r0 * D * u) - 1, 'energy': (p / ((g - 1) * rho) - lm * q) / (0.5 * p * (1 / r0 - 1 / rho)) - 1, 'sound': c * c * rho / (g * p) - 1}
    for k, v in res.items():
        if np.max(np.abs(v)) > 1e-9: bad['%s %s' % (k, kw)] = float(np.max(np.abs(v)))
print(json.dumps({'reproduced': bool(bad), 'relative residuals above 1e-9': bad}))
"""


def states():
    ps = [p for p in extract.run_ctor(KEY, {'D': D, 'rho_0': rho_0, 'gamma': gam}, hyps=[gam > 1]) if p.outcome == 'return']
    if len(ps) != 1: raise Unsupported('constructor: %d accepting paths' % len(ps))
    obj = ps[0].value; hy = [gam > 1] + list(ps[0].pc)
    fv = R.func_ref(SRC + '::SteadyDetonationReactionZone.run_tvec')
    want = ['gvec', 'pvec', 'rhovec', 'uvec', 'csvec']
    st = [n for n in fv.node.body if isinstance(n, ast.Assign) and isinstance(n.targets[0], ast.Name) and n.targets[0].id in want]
    if [n.targets[0].id for n in st] != want: raise Unsupported('state statements of run_tvec not found: %s' % [n.targets[0].id for n in st])
    lamst = [n for n in ast.walk(fv.node) if isinstance(n, ast.Assign) and isinstance(n.targets[0], ast.Name) and n.targets[0].id == 'lamvec' and 'tvec*(2.0-tvec)' in ast.unparse(n.value).replace(' ', '')]
    xst = [n for n in ast.walk(fv.node) if isinstance(n, ast.Assign) and ast.unparse(n.targets[0]).replace(' ', '') == 'xvec_rel[i]']
    def thunk(run):
        I = sx.Interp(run); env = sx.Env(fv.module, None, fv); env.locals.update({'self': obj, 'lamvec': lam, 'tvec': t, 't': t})
        I.block(st, env)
        lt = I.eval(lamst[0].value, env) if lamst else None
        xr = I.eval(xst[0].value, env) if xst else None
        return {k: env.locals[k] for k in want}, lt, xr
    pp = [p for p in sx.explore(thunk, hyps=hy + [lam <= 1], feas=extract.default_feas) if p.outcome == 'return']
    if len(pp) != 1: raise Unsupported('state block: %d paths' % len(pp))
    F, lt, xr = pp[0].value
    return {k: sp.sympify(v) for k, v in F.items()}, (sp.sympify(lt) if lt is not None else None), (sp.sympify(xr) if xr is not None else None), hy + list(pp[0].pc), obj


def functions():
    return [{'ref': '%s::SteadyDetonationReactionZone.%s' % (SRC, m), 'sha256_16': R.source_hash(R.func_ref('%s::SteadyDetonationReactionZone.%s' % (SRC, m)))} for m in ('__init__', 'run_tvec')]


def unit(pid):
    res = {'obligations': [], 'functions': functions(), 'engine_errors': []}; O = res['obligations']
    try: F, lt, xr, hy, obj = states()
    except Unsupported as u_:
        O.append(core.Obl('%s/sdrz/extraction' % pid, 'open', 'extraction', 0.0, detail=str(u_)[:300])); return res
    p, rho, u, c = F['pvec'], F['rhovec'], F['uvec'], F['csvec']; h = hy + [lam <= 1]
    def z(name, e, text, hh=None):
        o = core.prove_zero('%s/sdrz/%s' % (pid, name), e, hh or h, goal_text=text)
        if o['status'] == 'refuted': o['replay'] = NATIVE
        o.pop('cex_raw', None); O.append(o)
    if pid == 'C03':
        z('eos:cs^2=gamma*p/rho', c ** 2 * rho - gam * p, 'sound_speed^2 == gamma pressure / density')
        return res
    q = D ** 2 / (2 * (gam ** 2 - 1))
    z('zone/rh:mass', rho * (D - u) - rho_0 * D, 'rho (D - u) == rho_0 D for every reaction progress (steady in the front frame)')
    z('zone/rh:momentum', p - rho_0 * D * u, 'p == rho_0 D u: every state lies on the Rayleigh line (p_0 = 0)')
    z('zone/rh:energy', p / ((gam - 1) * rho) - lam * q - p * (1 / rho_0 - 1 / rho) / 2, 'e(p, rho) - lambda q == p (1/rho_0 - 1/rho)/2 with q = D^2/(2 (gamma^2 - 1)): partial-reaction Hugoniot')
    z('spike:density', rho.subs(lam, 0) - rho_0 * (gam + 1) / (gam - 1), 'von Neumann spike: rho = rho_0 (gamma+1)/(gamma-1) at lambda = 0', hy)
    z('spike:pressure', p.subs(lam, 0) - 2 * rho_0 * D ** 2 / (gam + 1), 'von Neumann spike: p = 2 rho_0 D^2/(gamma+1) at lambda = 0', hy)
    z('cj:sonic', ((D - u) - c).subs(lam, 1), 'end of the reaction zone is sonic: D - u == c at lambda = 1', hy)
    if lt is not None:
        z('rate_law', sp.diff(lt, t) ** 2 - 4 * (1 - lt), 'the closed-form reaction progress satisfies (d lambda/dt)^2 == 4 (1 - lambda) (rate law 2 sqrt(1 - lambda))', hy)
        O.append(core.prove_valid('%s/sdrz/rate_law:sign' % pid, hy + [t <= 1], sp.diff(lt, t) >= 0, goal_text='d lambda / dt >= 0 for t <= 1'))
        if xr is not None:
            z('particle_path', sp.diff(xr, t) - (D - u).subs(lam, lt), 'd x_rel / dt == D - u(lambda(t)): the particle falls behind the front at its own velocity', hy + [t < 1])
    else:
        O.append(core.Obl('%s/sdrz/rate_law' % pid, 'open', 'extraction', 0.0, detail='closed-form lambda statement not found'))
    for o in O: o.pop('cex_raw', None)
    return res


def unit_admissible():
    """C17: states of the reaction zone for 0 <= lambda <= 1: positive pressure and density, particle velocity between 0 and D, pressure and density fall monotonically from the spike to the CJ state"""
    res = {'obligations': [], 'functions': functions(), 'engine_errors': []}; O = res['obligations']
    try: F, lt, xr, hy, obj = states()
    except Unsupported as u_:
        O.append(core.Obl('C17/sdrz/extraction', 'open', 'extraction', 0.0, detail=str(u_)[:300])); return res
    p, rho, u, c = F['pvec'], F['rhovec'], F['uvec'], F['csvec']; h = hy + [lam < 1]
    for nm, goal, text in (('pressure>0', p > 0, 'pressure > 0'), ('density>0', rho > 0, 'density > 0'), ('velocity_in_[0,D]', sp.And(u >= 0, u <= D), '0 <= u <= D'),
                           ('pressure_falls', sp.diff(p, lam) <= 0, 'd p / d lambda <= 0'), ('density_falls', sp.diff(rho, lam) <= 0, 'd rho / d lambda <= 0'), ('subsonic_zone', (D - u) <= c, 'D - u <= c: the reaction zone is subsonic relative to the front')):
        o = core.prove_valid('C17/sdrz/%s' % nm, h, goal, goal_text=text)
        if o['status'] == 'refuted': o['replay'] = NATIVE
        o.pop('cex_raw', None); O.append(o)
    return res


def unit_scaling():
    """C08: zone states under a change of units (D: L/T, rho_0: M/L^3; reaction progress dimensionless)"""
    res = {'obligations': [], 'functions': functions(), 'engine_errors': []}; O = res['obligations']
    try: F, lt, xr, hy, obj = states()
    except Unsupported as u_:
        O.append(core.Obl('C08/sdrz/extraction', 'open', 'extraction', 0.0, detail=str(u_)[:300])); return res
    lM, lL, lT = sp.symbols('lambda_M lambda_L lambda_T', positive=True)
    sub = {D: D * lL / lT, rho_0: rho_0 * lM / lL ** 3}
    for nm, f in (('pvec', lM / (lL * lT ** 2)), ('rhovec', lM / lL ** 3), ('uvec', lL / lT), ('csvec', lL / lT)):
        o = core.prove_zero('C08/sdrz/%s' % nm, F[nm].subs(sub, simultaneous=True) - f * F[nm], hy + [lam <= 1], goal_text='%s(scaled inputs) == %s * %s(inputs)' % (nm, f, nm), extra_syms={lM, lL, lT})
        o.pop('cex_raw', None); O.append(o)
    return res
