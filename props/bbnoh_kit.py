"""Black-box Noh: the residual functions whose root defines the post-shock state are the Rankine-Hugoniot conditions of the Noh shock, for an abstract EOS
(contract only: e = E(rho, P), P = P(rho, e)).  Built on the extraction of props/c16.py (real residual classes executed symbolically)."""
import sympy as sp
from vc import core, repo as R
from vc.values import *
from props import c16


def unit(cls, m):
    res = {'obligations': [], 'functions': [], 'engine_errors': []}; O = res['obligations']
    fv = R.find_method(c16.RM + cls, 'F')
    if fv: res['functions'].append({'ref': '%s::%s' % (c16.RESF, fv.name), 'sha256_16': R.source_hash(fv)})
    base = 'C02/nohblackbox/%s/symmetry=%d' % (cls, m); state = c16.RES[cls]['state']
    try:
        Fp, hyps = c16.res_call(cls, m, 'F', lambda I, o: [Vec(list(state))])
        Fp = [p for p in Fp if p.outcome == 'return']
        if len(Fp) != 1: raise Unsupported('%d paths of F' % len(Fp))
    except Unsupported as u_:
        O.append(core.Obl(base + '/extraction', 'open', 'extraction', 0.0, detail=str(u_)[:300])); return res
    F = [sp.sympify(q) for q in Fp[0].value.items]
    rho, u0, r0, D = c16.rho, c16.u0, c16.r0, c16.Dd
    simplified = cls.startswith('simplified')
    P0 = sp.Integer(0) if (m != 0 or simplified) else c16.p0
    Pp = sp.Symbol('P_post', real=True); ep = sp.Symbol('e_post', real=True)
    # post-shock pressure / energy as the residual sees them
    if 'energy' in cls: P_post, e_post = c16.P_, c16.Ef(rho, c16.P_)
    else: P_post, e_post = c16.Pf(rho, c16.e_), c16.e_
    if len(state) < 3:
        O.append(core.structural(base + '/covered_by_full_residual', True, 'the simplified residual (shock speed eliminated) is compared with the full one in C16; its jump conditions follow from those of the full residual', None, 'path-analysis', 'simplified residual')); return res
    Rp = r0 * (1 - u0 / D) ** m                       # density of the converging gas when it reaches the shock at r = D t
    e_pre = c16.Ef(r0, P0)
    M = rho * D - Rp * (D - u0)
    Mo = (P_post + rho * D ** 2) - (P0 + Rp * (D - u0) ** 2)
    hy = list(hyps) + [D > 0]
    O.append(core.prove_zero(base + '/rh:mass', F[0] * D - M, hy, goal_text='F[0] D == rho D - rho_pre (D - u0), rho_pre = rho_0 (1 - u0/D)^m'))
    O.append(core.prove_zero(base + '/rh:momentum', F[1] - (Mo - (D - u0) * M), hy, goal_text='F[1] == [P + rho D^2 - P_0 - rho_pre (D-u0)^2] - (D - u0) [mass]: zero together with the mass condition iff momentum is conserved'))
    # energy: on the solution set of mass and momentum (rho_pre = rho D/(D-u0), P = P_0 - rho D u0) the residual is the total-enthalpy jump
    Rs = rho * D / (D - u0); Ps = P0 - rho * D * u0
    En = (e_post + Pp / rho + D ** 2 / 2) - (e_pre + P0 / Rs + (D - u0) ** 2 / 2)
    F2 = F[2]
    O.append(core.prove_zero(base + '/rh:energy', (F2 - En.subs(Pp, Ps)), hy, goal_text='F[2] == [e + P/rho + D^2/2] - [e_pre + P_0/rho_pre + (D-u0)^2/2] on the solution set of the mass and momentum conditions'))
    for o in O: o.pop('cex_raw', None)
    return res
