"""C17 - solutions are admissible: positive, compressive shocks, monotone fans, bounded."""
import json
import sympy as sp
from vc import core, propkit, alg, smt, native, repo as R
from vc.values import *
from contracts import hydro

LEVEL = 'proof'
EXPLANATION = ("Deductive (z3 / sign analysis on the extracted terms): Noh and Coggeshall 19 - positive density, non-negative p and e on every path, density and pressure rise across the shock in the direction the material crosses it; "
               "ideal-gas Riemann - (R1) the shock and rarefaction wave-curve functions are strictly monotone in the star pressure, (R2) the pattern-selection conditions put the root on the documented side of pl and pr "
               "(f(pl), f(pr) have the required signs), hence px >= p0 behind shocks and px <= p0 behind fans, shocks compress (rho* > rho0), every region state is positive, the fan similarity variable stays in (0,1] and "
               "p, rho, u are monotone across each fan, wave speeds are ordered. Mader rare() at the documented gamma = 3: every branch (constant state, transition cell, fan) positive, monotone in x and between the constant state and the fan value at the cell edge. Bounded stand-ins (run time, not proofs): Mader driver at default parameters, SDRZ, EHEP, Su-Olson, Sedov, elastic-plastic piston on the real solvers.")
ASSUMPTIONS = ["cited lemma: a continuous strictly monotone function with f(a) <= 0 = f(px) has px >= a (R1 + R2 => side of the root)", "monotonicity of real powers (A3) for the fan variable",
               "Mader: gamma = 3 only (the fan slope 1/(2 c_cj t) in rare() is specific to gamma = 3), sound-speed factor positive at the cell's rear edge (A(x1) > 0), -D/2 < u_piston <= D/4; the per-cell driver loop is covered pointwise (generic cell); SDRZ, EHEP, Su-Olson, Sedov interior, piston ordering: bounded run-time checks only"]


def unit_hydro(key):
    sc = hydro.SOLVERS[key]; res = {'obligations': [], 'functions': sc.function_info(), 'engine_errors': []}
    O = res['obligations']
    for case in sc.cases:
        base = 'C17/%s/%s' % (key, sc.case_name(case)); hyps = sc.all_hyps(case)
        paths = [p for p in sc.paths(case) if p.outcome == 'return']
        loc = None
        for i, p in enumerate(paths):
            F = p.value.fields(); h = hyps + list(p.pc)
            O.append(core.prove_valid('%s/path%d/density>0' % (base, i), h, sp.sympify(F['density']) > 0, goal_text='density > 0'))
            for n in ('pressure', 'specific_internal_energy') + (('temperature',) if 'temperature' in F else ()):
                O.append(core.prove_valid('%s/path%d/%s>=0' % (base, i, n), h, sp.sympify(F[n]) >= 0, goal_text='%s >= 0' % n))
            l_ = getattr(p.run, 'run_locals', {}).get('shock_location')
            if isinstance(l_, sp.Basic): loc = l_
        if loc is not None:
            r = sc.pos
            ins = [p for p in paths if any(c == sp.Lt(r, loc) for c in p.pc)]; outs = [p for p in paths if p not in ins]
            if len(ins) == 1 and len(outs) == 1:
                A = {n: sp.sympify(v).subs(r, loc) for n, v in ins[0].value.fields().items()}; B = {n: sp.sympify(v).subs(r, loc) for n, v in outs[0].value.fields().items()}
                # material moves inwards (u0 < 0) through the outward-moving shock: it crosses from the outside state to the inside state
                O.append(core.prove_valid(base + '/shock:density_rises', hyps + [loc > 0], A['density'] > B['density'], goal_text='post-shock density > pre-shock density (compressive)'))
                O.append(core.prove_valid(base + '/shock:pressure_rises', hyps + [loc > 0], A['pressure'] > B['pressure'], goal_text='post-shock pressure > pre-shock pressure'))
    for o in O: o.pop('cex_raw', None)
    return res


def unit_riemann(pat, fam):
    from props import riemann_kit as rk
    from contracts import riemann as cr
    from contracts.riemann import pl, pr, rl, rr, ul, ur, gl, gr, px, x, t, xd0
    res = {'obligations': [], 'functions': rk.info(), 'engine_errors': [], 'assumptions': list(rk.ASSUMPTIONS)}
    O = res['obligations']
    if fam == 'curves':
        p0, r0, g0, p = sp.symbols('p0 r0 g0 p', positive=True)
        fs = rk.phi_shock(p, p0, r0, g0); fr = rk.phi_rare(p, p0, r0, g0)
        O.append(core.prove_valid('C17/riemann/R1/shock_curve_increasing', [g0 > 1], sp.together(sp.diff(fs, p)) > 0, goal_text='d/dp [(p-p0) sqrt(A/(p+B))] > 0'))
        d = sp.diff(fr, p)
        O.append(core.prove_valid('C17/riemann/R1/rarefaction_curve_increasing', [g0 > 1], d > 0, goal_text='d/dp [2 a0/(g-1) ((p/p0)^((g-1)/2g) - 1)] > 0'))
        O.append(core.prove_zero('C17/riemann/R1/curves_vanish_at_p0:shock', fs.subs(p, p0), [g0 > 1], goal_text='phi_shock(p0) == 0'))
        O.append(core.prove_zero('C17/riemann/R1/curves_vanish_at_p0:rarefaction', fr.subs(p, p0), [g0 > 1], goal_text='phi_rarefaction(p0) == 0'))
        for o in O: o.pop('cex_raw', None)
        return res
    sc, ctxs, others, paths = rk.build()
    if pat not in ctxs:
        O.append(core.Obl('C17/riemann/%s/extraction' % pat, 'open', 'extraction', 0.0, detail='pattern not found')); return res
    c = ctxs[pat]; base = 'C17/riemann/%s' % pat
    if fam == 'side':
        # R2: under the pattern condition the root equation has the sign at pl and at pr that puts the root on the documented side
        cond = sp.And(*rk.group_pc(c)); f = c.res; sgn = sp.diff(f, ur)        # f = sgn*(u*_R - u*_L): increasing in p when sgn > 0
        want = {'SCS': ('>=', '>='), 'SCR': ('>=', '<='), 'RCS': ('<=', '>='), 'RCR': ('<=', '<=')}[pat]
        ab = rk.Abstraction({ul, ur}, cr.HYPS)
        for side, p0, rel in (('pl', pl, want[0]), ('pr', pr, want[1])):
            val = sgn * f.subs(px, p0)       # value of (u*_R - u*_L) at p = p0 ; root >= p0 iff value <= 0 (increasing)
            goal = (val <= 0) if rel == '>=' else (val >= 0)
            ga = ab.rel(sp.Implies(cond, goal))
            gt = 'pattern %s selected  =>  (u*_R - u*_L)(%s) %s 0, i.e. px %s %s' % (pat, side, '<=' if rel == '>=' else '>=', rel, side)
            o = core.prove_valid('%s/R2/root_%s_%s' % (base, rel, side), cr.HYPS + ab.lemmas, ga, goal_text=gt)
            if o['status'] != 'discharged':
                # the abstraction over-approximates: a failure there decides nothing. Search a counterexample of the concrete implication
                # (sampling + margin descent, exact confirmation) and replay it on the real solver.
                o2 = core.prove_valid('%s/R2/root_%s_%s' % (base, rel, side), cr.HYPS + [cond], goal, goal_text=gt)
                if o2['status'] in ('refuted', 'discharged'): o = o2
                if o['status'] == 'refuted' and o.get('cex_raw'):
                    raw = o['cex_raw']; par = {n: float(sp.sympify(raw.get(n, 1))) for n in ('pl', 'rl', 'ul', 'gl', 'pr', 'rr', 'ur', 'gr')}
                    o['replay'] = R2_NATIVE % dict(par=par, side=side, rel=rel, pat=pat)
            o.pop('cex_raw', None); O.append(o)
        return res
    hy = c.hyps
    if fam == 'states':
        w = rk.WAVES[pat]; ci = w.index('C')
        for k in sorted(c.regions):
            F = c.fields(k); h = hy + rk.region_hyps(c, k)
            fan = k in rk.fan_regions(c)
            pos = []
            if fan:
                left = k <= ci
                p0_, r0_, g0_, u0_, sg_ = (pl, rl, gl, ul, 1) if left else (pr, rr, gr, c.ur_star, -1)
                ysp = 2 / (g0_ + 1) + sg_ * (g0_ - 1) / (sp.sqrt(g0_ * p0_ / r0_) * (g0_ + 1)) * (u0_ - (x - xd0) / t)
                pos = [ysp]
            for n in ('density', 'pressure', 'specific_internal_energy'):
                o = core.prove_valid('%s/region%d/%s>0' % (base, k, n), h + [q > 0 for q in pos], sp.sympify(F[n]) > 0, goal_text='%s > 0 in region %d' % (n, k)); o.pop('cex_raw', None); O.append(o)
            if fan:
                # monotone across the fan: sign of d/dx fixed (left fan: p, rho decrease with x, u increases; right fan: p, rho increase, u increases)
                for n, s_ in (('pressure', -1 if left else 1), ('density', -1 if left else 1), ('velocity', 1)):
                    dv = sp.diff(sp.sympify(F[n]), x)
                    o = core.prove_valid('%s/fan%d/monotone:%s' % (base, k, n), h + [q > 0 for q in pos] + [t > 0], (s_ * dv) > 0, goal_text='%s is strictly monotone across the fan' % n); o.pop('cex_raw', None); O.append(o)
        # shocks compress
        for i, kind in enumerate(w):
            if kind != 'S': continue
            inner, outer = (i + 1, i) if i < ci else (i, i + 1)
            Fi, Fo = c.fields(inner), c.fields(outer)
            o = core.prove_valid('%s/shock%d/compressive:density' % (base, i), hy, sp.sympify(Fi['density']) >= sp.sympify(Fo['density']), goal_text='density behind the shock >= density ahead (px >= p0)'); o.pop('cex_raw', None); O.append(o)
            o = core.prove_valid('%s/shock%d/compressive:pressure' % (base, i), hy, sp.sympify(Fi['pressure']) >= sp.sympify(Fo['pressure']), goal_text='pressure behind the shock >= pressure ahead'); o.pop('cex_raw', None); O.append(o)
        O.extend(rk.ob_ordering(c, 'C17'))
    for o in O: o.pop('cex_raw', None)
    return res


R2_NATIVE = r"""
import json, io, contextlib, warnings
import numpy as np
warnings.simplefilter('ignore')
from exactpack.solvers.riemann.ep_riemann import IGEOS_Solver
P = %(par)r
par = dict(xmin=0.0, xd0=0.5, xmax=1.0, t=0.05, rl=P['rl'], ul=P['ul'], pl=P['pl'], gl=P['gl'], rr=P['rr'], ur=P['ur'], pr=P['pr'], gr=P['gr'])
with contextlib.redirect_stdout(io.StringIO()):
    s = IGEOS_Solver(**par); r = s(np.linspace(0.0, 1.0, 2001), 0.05)
pat_built = str(s.soln_type).split('-')[-1]; ic = 1 if pat_built[0] == 'S' else 2
Vc = float(np.array(s.Vregs)[ic]); xc = 0.5 + 0.05 * Vc
with contextlib.redirect_stdout(io.StringIO()): px = float(s(np.array([xc - 1e-6]), 0.05)['pressure'][0])
p0 = P['p' + %(side)r[1]]
# pattern actually built by the solver: a wave is a shock when the solver lists a single speed for it
out = {'px': px, 'p0': p0, 'pattern_selected_by_the_contract': %(pat)r, 'pattern_built_by_the_solver': pat_built}
bad = (px < p0 * (1 - 1e-9)) if %(rel)r == '>=' else (px > p0 * (1 + 1e-9))
# the admissibility consequence on the returned profile: across every pressure discontinuity pressure and density rise in the direction the material crosses
x = r['position']; p = r['pressure']; d = r['density']; u = r['velocity']
jumps = [i for i in range(len(x) - 1) if abs(p[i + 1] - p[i]) > 1e-3 * max(p[i], p[i + 1])]
out['expansion_shock'] = False
for i in jumps:
    if i + 2 < len(x) and i - 1 >= 0 and abs(p[i + 2] - p[i + 1]) < 1e-6 * p[i + 1] and abs(p[i] - p[i - 1]) < 1e-6 * p[i]:
        # isolated jump between two flat states: a shock.  Material crosses from the low-pressure side for an admissible shock.
        W = (d[i + 1] * u[i + 1] - d[i] * u[i]) / (d[i + 1] - d[i]) if d[i + 1] != d[i] else 0.0
        crosses_from_left = (u[i] - W) > 0
        rises = (p[i + 1] > p[i] and d[i + 1] > d[i]) if crosses_from_left else (p[i] > p[i + 1] and d[i] > d[i + 1])
        if not rises: out['expansion_shock'] = True
print(json.dumps(dict(out, reproduced=bool(bad or out['expansion_shock']))))
"""

MADER_REF = 'exactpack/solvers/mader/rarefaction.py::rare'
MADER_NATIVE = r"""
import json
from exactpack.solvers.mader.rarefaction import rare
P = %(pt)r; q = %(q)r; kind = %(kind)r
def f(xlab): return dict(zip(('u', 'p', 'c', 'rho'), rare(P['time'], xlab, P['dx'], P['p_cj'], P['d_cj'], 3.0, P['u_piston'])[:4]))
D = P['d_cj']; ucj = D / 4; ccj = 3 * D / 4; K = 1 + (P['u_piston'] - ucj) / ccj; rcj = 16 * P['p_cj'] / (3 * D ** 2)
const = dict(u=P['u_piston'], p=P['p_cj'] * K ** 3, c=ccj * K, rho=rcj * K)
x2 = D * P['time'] - P['xlab'] + P['dx'] / 2; A2 = x2 / (2 * ccj * P['time']) + (2 - 2 * ucj / ccj) / 4
edge = dict(u=2 * x2 / (4 * P['time']) - D / 4, p=P['p_cj'] * A2 ** 3, c=ccj * A2, rho=rcj * A2)
v = f(P['xlab'])[q]; sc = max(abs(v), abs(const[q]), 1e-300); tol = 1e-9 * sc
if kind == 'ge_const': bad = v < const[q] - tol
elif kind == 'eq_const': bad = abs(v - const[q]) > tol
elif kind == 'le_edge': bad = v > edge[q] + tol
elif kind == 'pos': bad = not v > 0
else:
    h = 1e-6 * P['dx']; bad = f(P['xlab'] + h)[q] - f(P['xlab'] - h)[q] > 1e-6 * sc
print(json.dumps({'reproduced': bool(bad), 'value': v, 'constant_state': const[q], 'fan_value_at_cell_edge': edge[q], 'point': P}))
"""


def unit_mader():
    """rare() of the Mader solver at the documented gamma = 3 (b = 3, d = 1: the cell averages are polynomials): every branch under contract."""
    from vc import extract
    res = {'obligations': [], 'functions': [], 'engine_errors': []}; O = res['obligations']
    fv = R.func_ref(MADER_REF); res['functions'].append({'ref': MADER_REF, 'sha256_16': R.source_hash(fv)})
    t, x, dx, p, d, up = sp.symbols('time xlab dx p_cj d_cj u_piston', real=True)
    ucj = d / 4; ccj = 3 * d / 4
    # admissible: positive time, cell width, CJ pressure and speed; piston between the escape speed and the CJ particle speed (K > 0, fan not overdriven)
    hy = [t > 0, dx > 0, p > 0, d > 0, up > -d / 2, up <= d / 4]
    try:
        paths = extract.run_function(MADER_REF, [t, x, dx, p, d, sp.Integer(3), up], hyps=hy)
    except Unsupported as u_:
        O.append(core.Obl('C17/mader/extraction', 'open', 'extraction', 0.0, detail='extraction: %s' % u_)); return res
    aa = 1 / (2 * ccj * t); bb = (2 - 2 * ucj / ccj) / 4; A = lambda z: aa * z + bb
    um = (2 * ucj - 2 * ccj) / 4; xp = 2 * t * (up - um); xdet = d * t - x; x1 = xdet - dx / 2; x2 = xdet + dx / 2
    K = 1 + (up - ucj) / ccj; rcj = sp.Rational(16, 3) * p / d ** 2
    const = dict(u=up, p=p * K ** 3, c=ccj * K, rho=rcj * K)
    edge = dict(u=2 * x2 / (4 * t) + um, p=p * A(x2) ** 3, c=ccj * A(x2), rho=rcj * A(x2))
    dist = sp.Abs(xdet - xp)
    kinds = {'const': 0, 'transition': 0, 'fan': 0}
    spec = {'transition': dist <= dx / 10, 'fan': sp.And(dist > dx / 10, xdet > xp), 'const': sp.And(dist > dx / 10, xdet <= xp)}      # the documented partition (tail of the Taylor wave at xp)
    for pi_, pa in enumerate(paths):
        if pa.outcome != 'return':
            O.append(core.structural('C17/mader/raises', False, 'rare() raises %s under %s' % (pa.exc, pa.pc), None, 'path-analysis', 'no exception for admissible input')); continue
        pc = list(pa.pc)
        vals = dict(zip(('u', 'p', 'c', 'rho'), [sp.sympify(v) for v in pa.value[:4]]))
        # every code path is checked on each part of the documented partition it can be taken in (on the unchanged tree: exactly one)
        for br, bcond in spec.items():
            h = hy + pc + [bcond, A(x1) > 0]
            if not smt.feasible(h, 8000): continue
            kinds[br] += 1
            tag = br if kinds[br] == 1 else '%s~path%d' % (br, pi_)
            for n, v in vals.items():
                goals = []
                if br == 'const': goals.append(('eq_const', sp.Eq(v, const[n]), '%s equals the constant (piston) state' % n))
                else:
                    goals.append(('ge_const', v >= const[n], '%s >= constant-state value' % n))
                    goals.append(('le_edge', v <= edge[n], '%s <= fan value at the cell edge towards the front (hence <= the neighbouring fan cell)' % n))
                    goals.append(('mono', sp.diff(v, x) <= 0, 'd %s / d x_lab <= 0 (monotone through the fan)' % n))
                if n != 'u': goals.append(('pos', v > 0, '%s > 0' % n))
                for kind, goal, text in goals:
                    if kind == 'eq_const': o = core.prove_zero('C17/mader/%s/%s:%s' % (tag, n, kind), v - const[n], h, goal_text=text)
                    else: o = core.prove_valid('C17/mader/%s/%s:%s' % (tag, n, kind), h, goal, goal_text=text)
                    if o['status'] == 'refuted' and o.get('cex_raw'):
                        pt = {s_.name: float(sp.sympify(o['cex_raw'].get(s_.name, 1))) for s_ in (t, x, dx, p, d, up)}
                        o['replay'] = MADER_NATIVE % dict(pt=pt, q=n, kind=kind)
                    o.pop('cex_raw', None); O.append(o)
    from vc import propkit
    items = []; exp = []
    for xl in (1.0, 2.5, 2.4951, 4.0):
        pt = {t: sp.Rational('6.25e-6'), x: sp.Rational(str(xl)), dx: sp.Rational('0.05'), p: sp.Integer(3 * 10 ** 11), d: sp.Integer(8 * 10 ** 5), up: sp.Integer(10 ** 4)}
        ex = propkit.expected_from_paths([q_ for q_ in paths if q_.outcome == 'return'], pt)
        if ex is None: continue
        items.append({'module': 'exactpack.solvers.mader.rarefaction', 'name': 'rare', 'args': [6.25e-6, xl, 0.05, 3.0e11, 8.0e5, 3.0, 1.0e4]}); exp.append(ex)
    n_, mm = propkit.tv_functions(items, exp, rtol=1e-9)
    propkit.tv_report(res, 1, n_, mm)
    O.append(core.structural('C17/mader/branches', all(kinds[k] == 1 for k in kinds), 'code paths per documented region: %s' % kinds, None, 'path-analysis', 'each documented region (constant state, transition cell, fan) is served by exactly one code path (vacuity / partition)'))
    return res


BOUNDED = r'''
import json, io, contextlib, warnings
import numpy as np
warnings.simplefilter('ignore')
out = {}
def q(f):
    with contextlib.redirect_stdout(io.StringIO()): return f()
def mono(a, tol=1e-9): d = np.diff(a); return bool(np.all(d <= tol * (np.max(np.abs(a)) + 1)) or np.all(d >= -tol * (np.max(np.abs(a)) + 1)))
try:
    from exactpack.solvers.suolson import SuOlson
    bad = []
    for opac in (1.0, 2.5):
        s = q(lambda: SuOlson(opac=opac)); xs = np.linspace(0.05, 1.5, 8)
        prev = None
        for t in (1e-10, 3e-10):
            r = q(lambda: s(xs, t)); tr, tm = r['temperature_rad'], r['temperature_mat']
            if not (np.all(tm >= -1e-9) and np.all(tm <= tr * (1 + 1e-6) + 1e-9) and np.all(tr <= s.trad_bc_ev * (1 + 1e-6))): bad.append(('order', opac, t))
            if not (mono(tr, 1e-6) and mono(tm, 1e-6)): bad.append(('monotone_x', opac, t))
            if prev is not None and not np.all(tr >= prev * (1 - 1e-6)): bad.append(('monotone_t', opac, t))
            prev = tr
    out['suolson'] = bad
except Exception as e: out['suolson'] = ['did not run: ' + str(e)[:80]]
try:
    from exactpack.solvers.mader import Mader
    bad = []
    for up in (0.0, 1.0e4):
        s = q(lambda: Mader(u_piston=up)); xs = np.linspace(0.0, 5.0, 101)
        r = q(lambda: s(xs, 6.25e-6))
        for n in ('pressure', 'density', 'velocity'):
            a = r[n]
            if not (np.all(a >= -1e-9)): bad.append(('negative', n, up))
            if not mono(a, 1e-7): bad.append(('not between neighbouring states / not monotone', n, up))
    out['mader'] = bad
except Exception as e: out['mader'] = ['did not run: ' + str(e)[:80]]
try:
    from exactpack.solvers.sdrz import SteadyDetonationReactionZone as Z
    s = q(lambda: Z()); r = q(lambda: s.run_tvec(np.linspace(0, 1.5, 61)))
    bad = []
    if not (np.all(r['reaction_progress'] >= 0) and np.all(r['reaction_progress'] <= 1)): bad.append('lambda range')
    if not (np.all(r['density'] > 0) and np.all(r['pressure'] > 0) and np.all(r['velocity'] >= -1e-12) and np.all(r['velocity'] <= s.D)): bad.append('positivity / u in [0, D]')
    out['sdrz'] = bad
except Exception as e: out['sdrz'] = ['did not run: ' + str(e)[:80]]
try:
    from exactpack.solvers.ehep import EscapeOfHEProducts as E
    s = q(lambda: E()); bad = []
    for t in (0.5, 2.0, 5.0):
        r = q(lambda: s(np.linspace(-3.0, 9.0, 121), t))
        if not (np.all(r['density'] >= 0) and np.all(r['pressure'] >= 0) and np.all(r['sound_speed'] >= 0) and np.all(r['specific_internal_energy'] >= 0)): bad.append(('negative', t))
    out['ehep'] = bad
except Exception as e: out['ehep'] = ['did not run: ' + str(e)[:80]]
try:
    from exactpack.solvers.sedov import Sedov
    bad = []
    for kw in ({}, {'geometry': 2, 'gamma': 1.6, 'eblast': 0.3}, {'geometry': 1, 'eblast': 0.07}):
        s = q(lambda: Sedov(**kw)); r = q(lambda: s(np.linspace(0.02, 1.2, 60), 0.5))
        if not (np.all(r['density'] >= 0) and np.all(r['pressure'] >= 0) and np.all(r['specific_internal_energy'] >= 0)): bad.append(('negative', str(kw)))
    out['sedov'] = bad
except Exception as e: out['sedov'] = ['did not run: ' + str(e)[:80]]
try:
    from exactpack.solvers.ep_piston.ep_piston import EPpiston
    bad = []
    for m in ('hypo', 'hyperIfin', 'hyperFin'):
        s = q(lambda: EPpiston(model=m))
        if not (s.rho_y > s.rho0 and s.rho2 > s.rho_y and s.p_y >= 0 and s.p2 >= s.p_y and s.wv_pl < s.wv_el and s.e_y >= 0 and s.e2 >= 0): bad.append(m)
    out['ep_piston'] = bad
except Exception as e: out['ep_piston'] = ['did not run: ' + str(e)[:80]]
print(json.dumps({'reproduced': any(bool(v) for v in out.values()), 'failures': out}))
'''


def unit_bounded(tier):
    r_ = native.run_script(BOUNDED, timeout=2400)
    res = {'obligations': [], 'functions': [], 'engine_errors': [], 'bounded': []}
    if r_.get('result') is None:
        res['engine_errors'].append('bounded admissibility check did not run: ' + (r_.get('stderr_tail') or '')[-300:]); return res
    for k, v in r_['result']['failures'].items():
        res['bounded'].append({'name': 'C17/bounded/%s' % k, 'status': 'fail' if v else 'pass', 'evaluations': 3, 'bound': 'default and one or two non-default parameter sets, fine point sequences', 'tolerance': '1e-6 relative',
                               'detail': json.dumps(v)[:300], 'replay': BOUNDED if v else None})
    return res


def units(tier):
    us = [('noh', {'kind': 'hy', 'key': 'noh'}), ('cog19', {'kind': 'hy', 'key': 'cog19'}), ('riemann/curves', {'kind': 'ri', 'pat': None, 'fam': 'curves'})]
    for pat in ('SCS', 'SCR', 'RCS', 'RCR'):
        us += [('riemann/%s/side' % pat, {'kind': 'ri', 'pat': pat, 'fam': 'side'}), ('riemann/%s/states' % pat, {'kind': 'ri', 'pat': pat, 'fam': 'states'})]
    us.append(('mader', {'kind': 'ma'}))
    us.append(('sdrz', {'kind': 'sdrz'}))
    us.append(('ehep', {'kind': 'ehep'}))
    us += [('sedov/geometry=%d' % j_, {'kind': 'sedov', 'key': j_}) for j_ in (1, 2, 3)]
    us.append(('bounded', {'kind': 'bd', 'tier': tier}))
    return us


def run_unit(name, kind, key=None, pat=None, fam=None, tier='quick'):
    if kind == 'hy': return unit_hydro(key)
    if kind == 'ri': return unit_riemann(pat, fam)
    if kind == 'ma': return unit_mader()
    if kind == 'sdrz':
        from props import sdrz_kit
        return sdrz_kit.unit_admissible()
    if kind == 'ehep':
        from props import ehep_kit
        return ehep_kit.unit_admissible()
    if kind == 'sedov':
        from props import sedov_kit
        return sedov_kit.unit_shock('C17', key)
    return unit_bounded(tier)
