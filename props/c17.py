"""C17 - solutions are admissible: positive, compressive shocks, monotone fans, bounded."""
import json
import sympy as sp
from vc import core, propkit, alg, smt, native, repo as R
from vc.values import *
from contracts import hydro

LEVEL = 'proof'
EXPLANATION = ("Deductive (z3 / sign analysis on the extracted terms): Noh and Coggeshall 19 - positive density, non-negative p and e on every path, density and pressure rise across the shock in the direction the material crosses it; "
               "ideal-gas Riemann - (R1) the shock and rarefaction wave-curve functions are strictly monotone in the star pressure, (R2) the pattern-selection conditions put the root on the documented side of pl and pr "
               "(f(pl), f(pr) have the required signs), hence px >= p0 behind shocks and px <= p0 behind fans, shocks compress (rho* > rho0), every region state is positive, the fan similarity variable stays in (0,1] and "
               "p, rho, u are monotone across each fan, wave speeds are ordered. Bounded stand-ins (run time, not proofs): Mader, SDRZ, EHEP, Su-Olson, Sedov, elastic-plastic piston on the real solvers.")
ASSUMPTIONS = ["cited lemma: a continuous strictly monotone function with f(a) <= 0 = f(px) has px >= a (R1 + R2 => side of the root)", "monotonicity of real powers (A3) for the fan variable",
               "Mader (cell straddling the Taylor-wave tail), SDRZ, EHEP, Su-Olson, Sedov interior, piston ordering: bounded run-time checks only"]


def unit_hydro(key):
    sc = hydro.SOLVERS[key]; res = {'obligations': [], 'functions': sc.function_info(), 'engine_errors': []}
    O = res['obligations']
    for case in sc.cases:
        base = 'C17/%s/%s' % (key, sc.case_name(case)); hyps = sc.all_hyps(case)
        paths = [p for p in sc.paths(case) if p.outcome == 'return']
        loc = None
        for i, p in enumerate(paths):
            F = p.value.fields(); h = hyps + list(p.pc)
            O.append(core.prove_valid('%s/path%d/density>0' % (base, i), h, sp.sympify(F['density']) > 0, goal_text='density > 0'))
            for n in ('pressure', 'specific_internal_energy') + (('temperature',) if 'temperature' in F else ()):
                O.append(core.prove_valid('%s/path%d/%s>=0' % (base, i, n), h, sp.sympify(F[n]) >= 0, goal_text='%s >= 0' % n))
            l_ = getattr(p.run, 'run_locals', {}).get('shock_location')
            if isinstance(l_, sp.Basic): loc = l_
        if loc is not None:
            r = sc.pos
            ins = [p for p in paths if any(c == sp.Lt(r, loc) for c in p.pc)]; outs = [p for p in paths if p not in ins]
            if len(ins) == 1 and len(outs) == 1:
                A = {n: sp.sympify(v).subs(r, loc) for n, v in ins[0].value.fields().items()}; B = {n: sp.sympify(v).subs(r, loc) for n, v in outs[0].value.fields().items()}
                # material moves inwards (u0 < 0) through the outward-moving shock: it crosses from the outside state to the inside state
                O.append(core.prove_valid(base + '/shock:density_rises', hyps + [loc > 0], A['density'] > B['density'], goal_text='post-shock density > pre-shock density (compressive)'))
                O.append(core.prove_valid(base + '/shock:pressure_rises', hyps + [loc > 0], A['pressure'] > B['pressure'], goal_text='post-shock pressure > pre-shock pressure'))
    for o in O: o.pop('cex_raw', None)
    return res


def unit_riemann(pat, fam):
    from props import riemann_kit as rk
    from contracts import riemann as cr
    from contracts.riemann import pl, pr, rl, rr, ul, ur, gl, gr, px, x, t, xd0
    res = {'obligations': [], 'functions': rk.info(), 'engine_errors': [], 'assumptions': list(rk.ASSUMPTIONS)}
    O = res['obligations']
    if fam == 'curves':
        p0, r0, g0, p = sp.symbols('p0 r0 g0 p', positive=True)
        fs = rk.phi_shock(p, p0, r0, g0); fr = rk.phi_rare(p, p0, r0, g0)
        O.append(core.prove_valid('C17/riemann/R1/shock_curve_increasing', [g0 > 1], sp.together(sp.diff(fs, p)) > 0, goal_text='d/dp [(p-p0) sqrt(A/(p+B))] > 0'))
        d = sp.diff(fr, p)
        O.append(core.prove_valid('C17/riemann/R1/rarefaction_curve_increasing', [g0 > 1], d > 0, goal_text='d/dp [2 a0/(g-1) ((p/p0)^((g-1)/2g) - 1)] > 0'))
        O.append(core.prove_zero('C17/riemann/R1/curves_vanish_at_p0:shock', fs.subs(p, p0), [g0 > 1], goal_text='phi_shock(p0) == 0'))
        O.append(core.prove_zero('C17/riemann/R1/curves_vanish_at_p0:rarefaction', fr.subs(p, p0), [g0 > 1], goal_text='phi_rarefaction(p0) == 0'))
        for o in O: o.pop('cex_raw', None)
        return res
    sc, ctxs, others, paths = rk.build()
    if pat not in ctxs:
        O.append(core.Obl('C17/riemann/%s/extraction' % pat, 'open', 'extraction', 0.0, detail='pattern not found')); return res
    c = ctxs[pat]; base = 'C17/riemann/%s' % pat
    if fam == 'side':
        # R2: under the pattern condition the root equation has the sign at pl and at pr that puts the root on the documented side
        cond = sp.And(*rk.group_pc(c)); f = c.res; sgn = sp.diff(f, ur)        # f = sgn*(u*_R - u*_L): increasing in p when sgn > 0
        want = {'SCS': ('>=', '>='), 'SCR': ('>=', '<='), 'RCS': ('<=', '>='), 'RCR': ('<=', '<=')}[pat]
        ab = rk.Abstraction({ul, ur}, cr.HYPS)
        for side, p0, rel in (('pl', pl, want[0]), ('pr', pr, want[1])):
            val = sgn * f.subs(px, p0)       # value of (u*_R - u*_L) at p = p0 ; root >= p0 iff value <= 0 (increasing)
            goal = (val <= 0) if rel == '>=' else (val >= 0)
            ga = ab.rel(sp.Implies(cond, goal))
            o = core.prove_valid('%s/R2/root_%s_%s' % (base, rel, side), cr.HYPS + ab.lemmas, ga, goal_text='pattern %s selected  =>  (u*_R - u*_L)(%s) %s 0, i.e. px %s %s' % (pat, side, '<=' if rel == '>=' else '>=', rel, side))
            o.pop('cex_raw', None); O.append(o)
        return res
    hy = c.hyps
    if fam == 'states':
        w = rk.WAVES[pat]; ci = w.index('C')
        for k in sorted(c.regions):
            F = c.fields(k); h = hy + rk.region_hyps(c, k)
            fan = k in rk.fan_regions(c)
            pos = []
            if fan:
                left = k <= ci
                p0_, r0_, g0_, u0_, sg_ = (pl, rl, gl, ul, 1) if left else (pr, rr, gr, c.ur_star, -1)
                ysp = 2 / (g0_ + 1) + sg_ * (g0_ - 1) / (sp.sqrt(g0_ * p0_ / r0_) * (g0_ + 1)) * (u0_ - (x - xd0) / t)
                pos = [ysp]
            for n in ('density', 'pressure', 'specific_internal_energy'):
                o = core.prove_valid('%s/region%d/%s>0' % (base, k, n), h + [q > 0 for q in pos], sp.sympify(F[n]) > 0, goal_text='%s > 0 in region %d' % (n, k)); o.pop('cex_raw', None); O.append(o)
            if fan:
                # monotone across the fan: sign of d/dx fixed (left fan: p, rho decrease with x, u increases; right fan: p, rho increase, u increases)
                for n, s_ in (('pressure', -1 if left else 1), ('density', -1 if left else 1), ('velocity', 1)):
                    dv = sp.diff(sp.sympify(F[n]), x)
                    o = core.prove_valid('%s/fan%d/monotone:%s' % (base, k, n), h + [q > 0 for q in pos] + [t > 0], (s_ * dv) > 0, goal_text='%s is strictly monotone across the fan' % n); o.pop('cex_raw', None); O.append(o)
        # shocks compress
        for i, kind in enumerate(w):
            if kind != 'S': continue
            inner, outer = (i + 1, i) if i < ci else (i, i + 1)
            Fi, Fo = c.fields(inner), c.fields(outer)
            o = core.prove_valid('%s/shock%d/compressive:density' % (base, i), hy, sp.sympify(Fi['density']) >= sp.sympify(Fo['density']), goal_text='density behind the shock >= density ahead (px >= p0)'); o.pop('cex_raw', None); O.append(o)
            o = core.prove_valid('%s/shock%d/compressive:pressure' % (base, i), hy, sp.sympify(Fi['pressure']) >= sp.sympify(Fo['pressure']), goal_text='pressure behind the shock >= pressure ahead'); o.pop('cex_raw', None); O.append(o)
        O.extend(rk.ob_ordering(c, 'C17'))
    for o in O: o.pop('cex_raw', None)
    return res


BOUNDED = r'''
import json, io, contextlib, warnings
import numpy as np
warnings.simplefilter('ignore')
out = {}
def q(f):
    with contextlib.redirect_stdout(io.StringIO()): return f()
def mono(a, tol=1e-9): d = np.diff(a); return bool(np.all(d <= tol * (np.max(np.abs(a)) + 1)) or np.all(d >= -tol * (np.max(np.abs(a)) + 1)))
try:
    from exactpack.solvers.suolson import SuOlson
    bad = []
    for opac in (1.0, 2.5):
        s = q(lambda: SuOlson(opac=opac)); xs = np.linspace(0.05, 1.5, 8)
        prev = None
        for t in (1e-10, 3e-10):
            r = q(lambda: s(xs, t)); tr, tm = r['temperature_rad'], r['temperature_mat']
            if not (np.all(tm >= -1e-9) and np.all(tm <= tr * (1 + 1e-6) + 1e-9) and np.all(tr <= s.trad_bc_ev * (1 + 1e-6))): bad.append(('order', opac, t))
            if not (mono(tr, 1e-6) and mono(tm, 1e-6)): bad.append(('monotone_x', opac, t))
            if prev is not None and not np.all(tr >= prev * (1 - 1e-6)): bad.append(('monotone_t', opac, t))
            prev = tr
    out['suolson'] = bad
except Exception as e: out['suolson'] = ['did not run: ' + str(e)[:80]]
try:
    from exactpack.solvers.mader import Mader
    bad = []
    for up in (0.0, 1.0e4):
        s = q(lambda: Mader(u_piston=up)); xs = np.linspace(0.0, 5.0, 101)
        r = q(lambda: s(xs, 6.25e-6))
        for n in ('pressure', 'density', 'velocity'):
            a = r[n]
            if not (np.all(a >= -1e-9)): bad.append(('negative', n, up))
            if not mono(a, 1e-7): bad.append(('not between neighbouring states / not monotone', n, up))
    out['mader'] = bad
except Exception as e: out['mader'] = ['did not run: ' + str(e)[:80]]
try:
    from exactpack.solvers.sdrz import SteadyDetonationReactionZone as Z
    s = q(lambda: Z()); r = q(lambda: s.run_tvec(np.linspace(0, 1.5, 61)))
    bad = []
    if not (np.all(r['reaction_progress'] >= 0) and np.all(r['reaction_progress'] <= 1)): bad.append('lambda range')
    if not (np.all(r['density'] > 0) and np.all(r['pressure'] > 0) and np.all(r['velocity'] >= -1e-12) and np.all(r['velocity'] <= s.D)): bad.append('positivity / u in [0, D]')
    out['sdrz'] = bad
except Exception as e: out['sdrz'] = ['did not run: ' + str(e)[:80]]
try:
    from exactpack.solvers.ehep import EscapeOfHEProducts as E
    s = q(lambda: E()); bad = []
    for t in (0.5, 2.0, 5.0):
        r = q(lambda: s(np.linspace(-3.0, 9.0, 121), t))
        if not (np.all(r['density'] >= 0) and np.all(r['pressure'] >= 0) and np.all(r['sound_speed'] >= 0) and np.all(r['specific_internal_energy'] >= 0)): bad.append(('negative', t))
    out['ehep'] = bad
except Exception as e: out['ehep'] = ['did not run: ' + str(e)[:80]]
try:
    from exactpack.solvers.sedov import Sedov
    bad = []
    for kw in ({}, {'geometry': 2, 'gamma': 1.6, 'eblast': 0.3}, {'geometry': 1, 'eblast': 0.07}):
        s = q(lambda: Sedov(**kw)); r = q(lambda: s(np.linspace(0.02, 1.2, 60), 0.5))
        if not (np.all(r['density'] >= 0) and np.all(r['pressure'] >= 0) and np.all(r['specific_internal_energy'] >= 0)): bad.append(('negative', str(kw)))
    out['sedov'] = bad
except Exception as e: out['sedov'] = ['did not run: ' + str(e)[:80]]
try:
    from exactpack.solvers.ep_piston.ep_piston import EPpiston
    bad = []
    for m in ('hypo', 'hyperIfin', 'hyperFin'):
        s = q(lambda: EPpiston(model=m))
        if not (s.rho_y > s.rho0 and s.rho2 > s.rho_y and s.p_y >= 0 and s.p2 >= s.p_y and s.wv_pl < s.wv_el and s.e_y >= 0 and s.e2 >= 0): bad.append(m)
    out['ep_piston'] = bad
except Exception as e: out['ep_piston'] = ['did not run: ' + str(e)[:80]]
print(json.dumps({'reproduced': any(bool(v) for v in out.values()), 'failures': out}))
'''


def unit_bounded(tier):
    r_ = native.run_script(BOUNDED, timeout=2400)
    res = {'obligations': [], 'functions': [], 'engine_errors': [], 'bounded': []}
    if r_.get('result') is None:
        res['engine_errors'].append('bounded admissibility check did not run: ' + (r_.get('stderr_tail') or '')[-300:]); return res
    for k, v in r_['result']['failures'].items():
        res['bounded'].append({'name': 'C17/bounded/%s' % k, 'status': 'fail' if v else 'pass', 'evaluations': 3, 'bound': 'default and one or two non-default parameter sets, fine point sequences', 'tolerance': '1e-6 relative',
                               'detail': json.dumps(v)[:300], 'replay': BOUNDED if v else None})
    return res


def units(tier):
    us = [('noh', {'kind': 'hy', 'key': 'noh'}), ('cog19', {'kind': 'hy', 'key': 'cog19'}), ('riemann/curves', {'kind': 'ri', 'pat': None, 'fam': 'curves'})]
    for pat in ('SCS', 'SCR', 'RCS', 'RCR'):
        us += [('riemann/%s/side' % pat, {'kind': 'ri', 'pat': pat, 'fam': 'side'}), ('riemann/%s/states' % pat, {'kind': 'ri', 'pat': pat, 'fam': 'states'})]
    us.append(('bounded', {'kind': 'bd', 'tier': tier}))
    return us


def run_unit(name, kind, key=None, pat=None, fam=None, tier='quick'):
    if kind == 'hy': return unit_hydro(key)
    if kind == 'ri': return unit_riemann(pat, fam)
    return unit_bounded(tier)
