"""C08 - dimensional consistency: a change of units in gives the same change out."""
import sympy as sp
from vc import core, propkit, alg, smt, extract, repo as R
from vc.values import *
from contracts import hydro, burn

LEVEL = 'proof'
EXPLANATION = ("Relational product with symbolic scale factors: every dimensional input (parameters, point, time) of dimension M^a L^b T^c Theta^d is multiplied by lM^a lL^b lT^c lTh^d (positive symbols); on every path of the "
               "real code each returned field equals the original times the monomial of its own dimension, and each path condition is homogeneous (the scaled request follows the same path). These are generalised-monomial "
               "identities with symbolic exponents, decided by the ring back end.")
ASSUMPTIONS = ["covered solvers: Noh, Coggeshall 19, Kenamond 1-3 (2-D), DSD cylindrical expansion, Blake, elastic-plastic piston (constructor-derived states), ideal-gas Riemann (region states and wave speeds, bisect root "
               "scales like a pressure by homogeneity of the root equation), heat rod BC1-BC4 (term-wise), Hutchens 1 (term-wise), Noh2 with the time unit fixed (its documented initial condition u(r,0) = -r fixes the collapse time to 1: mass and length scale factors free, lambda_T := 1), Mader, EHEP, Sedov shock state, SDRZ, Guderley density scale (see their kits); the remaining Coggeshall solutions and the radiative shocks are not under contract here",
               "A5 determinism of SciPy routines as functions of their (scaled) arguments: a root of a homogeneous equation scales with its unknown"]
lM, lL, lT, lTh = sp.symbols('lambda_M lambda_L lambda_T lambda_Theta', positive=True)
DENS = (1, -3, 0, 0); PRES = (1, -1, -2, 0); SIE = (0, 2, -2, 0); VEL = (0, 1, -1, 0); LEN = (0, 1, 0, 0); TIME = (0, 0, 1, 0); TEMP = (0, 0, 0, 1); ONE = (0, 0, 0, 0)


def mono(d):
    return lM ** d[0] * lL ** d[1] * lT ** d[2] * lTh ** d[3]


def scale_sub(dims):
    return {s_: s_ * mono(d) for s_, d in dims.items() if d != ONE}


SCALE_NATIVE = r"""
import json, io, contextlib, importlib, warnings
import numpy as np
warnings.simplefilter('ignore')
C = getattr(importlib.import_module(%(mod)r), %(cls)r)
kw = %(kw)r; kws = %(kws)r; pos = %(pos)r; poss = %(poss)r; t = %(t)r; ts = %(ts)r; fac = %(fac)r
def run(kw, pos, t):
    try:
        with contextlib.redirect_stdout(io.StringIO()):
            s = C(**kw); r = s(np.array([pos], dtype=float), t)
        return {n: float(r[n][0]) for n in r.dtype.names}
    except Exception as e:
        return {'raises': type(e).__name__}
a = run(kw, pos, t); b = run(kws, poss, ts); bad = {}
if ('raises' in a) != ('raises' in b): bad['outcome'] = [str(a)[:80], str(b)[:80]]
elif 'raises' not in a:
    for n, f in fac.items():
        if not (a[n] == a[n]) and not (b[n] == b[n]): continue
        if abs(b[n] - f * a[n]) > 1e-7 * max(abs(b[n]), abs(f * a[n]), 1e-300): bad[n] = [a[n], b[n], f]
print(json.dumps({'reproduced': bool(bad), 'mismatch (original units, changed units, expected factor)': bad, 'request': [kw, pos, t], 'request_in_changed_units': [kws, poss, ts]}))
"""


def native_scale(target, kw_sym, pos_sym, t_sym, dims_in, dims_out, raw, fixed=None):
    """replay script: the real solver at the counterexample and at the same request expressed in the changed units"""
    from props.c20 import kw_at, pyv
    mod, cls = target.split(':')
    syms = set()
    for v in list(kw_sym.values()) + [pos_sym, t_sym]:
        for q in (v if isinstance(v, (list, tuple)) else [v]):
            if isinstance(q, sp.Basic): syms |= q.free_symbols
    pt = {s_: sp.sympify(raw.get(s_.name, 1)) for s_ in syms}
    lam = {l_: sp.sympify(raw.get(l_.name, 2)) for l_ in (lM, lL, lT, lTh)}
    for l_, v_ in (fixed or {}).items(): lam[l_] = sp.sympify(v_)
    pts = {s_: (v * mono(dims_in[s_]).subs(lam) if s_ in dims_in else v) for s_, v in pt.items()}
    def at(v, P):
        if isinstance(v, (list, tuple)): return [at(q, P) for q in v]
        return float(alg.numeric(v, P, 20)) if isinstance(v, sp.Basic) and v.free_symbols else pyv(v)
    fac = {n: float(mono(d).subs(lam)) for n, d in dims_out.items()}
    return SCALE_NATIVE % dict(mod=mod, cls=cls, kw=kw_at(kw_sym, pt), kws=kw_at(kw_sym, pts), pos=at(pos_sym, pt), poss=at(pos_sym, pts), t=at(t_sym, pt), ts=at(t_sym, pts), fac=fac)


def check(name, paths, hyps, dims_in, dims_out, syms, sums=None, positive=(), nat=None, fixed=None):
    """fixed: scale factors pinned to 1 (a unit the documentation of the problem fixes, e.g. the time unit of Noh2 whose initial condition is u(r,0) = -r)"""
    out = []; sub = scale_sub(dims_in); fixed = dict(fixed or {})
    if fixed: sub = {k_: v_.subs(fixed) for k_, v_ in sub.items() if v_.subs(fixed) != k_}
    for i, p in enumerate(paths):
        if p.outcome != 'return' or not isinstance(p.value, Solution): continue
        h = list(hyps) + list(p.pc)
        fields = p.value.fields()
        for n, d in dims_out.items():
            if n not in fields:
                out.append(core.Obl('%s/path%d/%s' % (name, i, n), 'refuted', 'structural', 0.0, goal='field %s returned' % n, cex=None)); continue
            v = sp.sympify(fields[n])
            if v.has(sp.Abs): v = v ** 2; d = tuple(2 * q for q in d)        # |x| fields: compare squares
            if sums:
                for s_ in getattr(p.run, 'sums', []): v = v.subs(s_['symbol'], s_['term'])      # term-wise (linear in the sum)
            o = core.prove_zero('%s/path%d/%s' % (name, i, n), v.subs(sub, simultaneous=True) - mono(d).subs(fixed) * v, h, goal_text='%s(scaled inputs) == %s * %s(inputs)' % (n, mono(d).subs(fixed), n),
                                extra_syms=set(syms) | {lM, lL, lT, lTh}, positive=positive)
            if nat and o['status'] == 'refuted' and o.get('cex_raw'):
                try: o['replay'] = native_scale(nat[0], nat[1], nat[2], nat[3], dims_in, dims_out, o['cex_raw'], fixed=fixed)
                except Exception as e_: o['detail'] = 'no native replay: %s' % str(e_)[:100]
            o.pop('cex_raw', None); out.append(o)
        # path conditions are homogeneous: sign-preserving under the scaling
        def atoms_of(c):
            if isinstance(c, sp.Basic) and c.is_Relational: return [c]
            if isinstance(c, (sp.And, sp.Or, sp.Not)): return [a_ for q in c.args for a_ in atoms_of(q)]
            return []
        rels = []
        for c in p.pc:
            for a_ in atoms_of(c):
                if a_ not in rels: rels.append(a_)
        for j, rel in enumerate(rels):
            e = rel.lhs - rel.rhs
            if not (e.free_symbols & set(sub)): continue
            es = e.subs(sub, simultaneous=True)
            # homogeneous of some degree: es / e is a pure lambda monomial  <=>  d/d(each input) of (es/e) vanishes; use the degree found from the first term
            t0 = sp.Add.make_args(sp.expand(e))[0]; t0s = t0.subs(sub, simultaneous=True)
            o = core.prove_zero('%s/path%d/cond%d' % (name, i, j), es * t0 - e * t0s, list(hyps), goal_text='path condition %d is homogeneous under the change of units' % j, extra_syms=set(syms) | {lM, lL, lT, lTh}, positive=positive)
            if nat and o['status'] == 'refuted':
                # a request whose branch changes with the units: the condition holds in one system of units and fails in the other
                try:
                    rs = rel.subs(sub, simultaneous=True); allsy = set(syms) | {lM, lL, lT, lTh} | rel.free_symbols
                    if not any(q.is_integer for q in allsy):
                        pts_ = alg.sample_points(allsy, list(hyps) + [sp.Or(sp.And(rel, sp.Not(rs)), sp.And(sp.Not(rel), rs))], 1, seed=core.SEED, tries=3000)
                        if pts_: o['replay'] = native_scale(nat[0], nat[1], nat[2], nat[3], dims_in, dims_out, {str(k_): str(v_) for k_, v_ in pts_[0].items()})
                except Exception as e_: o['detail'] = 'no native replay: %s' % str(e_)[:100]
            o.pop('cex_raw', None); out.append(o)
    if not out: out.append(core.Obl(name + '/vacuous', 'error', 'engine', 0.0, detail='no returning path'))
    return out


def unit_hydro(key):
    sc = hydro.SOLVERS[key]; res = {'obligations': [], 'functions': sc.function_info(), 'engine_errors': []}
    for case in sc.cases:
        dims = {sc.pos: LEN, sc.t: TIME, sc.params['rho0']: DENS, sc.params['u0']: VEL} if key != 'noh2' else {}
        outd = {'density': DENS, 'pressure': PRES, 'specific_internal_energy': SIE, 'velocity': VEL}
        if key == 'cog19':
            dims[sc.params['Gamma']] = (0, 2, -2, -1); outd['temperature'] = TEMP
        fixed = None; nat = (sc.cls, sc.kwargs(case), sc.pos, sc.t)
        if key == 'noh2':
            # Noh2's documented initial condition u(r,0) = -r (collapse at t = 1) fixes the time unit: mass and length units stay free
            dims = {sc.pos: LEN, sc.params['rho0']: DENS, sc.params['e0']: SIE}; fixed = {lT: 1}
        try:
            res['obligations'] += check('C08/%s/%s' % (key, sc.case_name(case)), sc.paths(case), sc.all_hyps(case), dims, outd, sc.symbols(), nat=nat, fixed=fixed)
        except Unsupported as u:
            res['obligations'].append(core.Obl('C08/%s/%s/extraction' % (key, sc.case_name(case)), 'open', 'extraction', 0.0, detail=str(u)[:150]))
    return res


def unit_burn(key):
    sc = burn.SOLVERS[key]; case = sc.cases[0]; res = {'obligations': [], 'functions': sc.function_info(), 'engine_errors': []}
    dims = {}
    for s_ in sc.symbols():
        n = s_.name
        if n in ('x', 'y', 'z', 'R', 'r_1', 'r_2') or n.startswith('xd') or n.startswith('a') and n[1:].isdigit(): dims[s_] = LEN
        elif n in ('D', 'D1', 'D2', 'D_CJ_1', 'D_CJ_2'): dims[s_] = VEL
        elif n in ('t_d', 't') or n.startswith('td'): dims[s_] = TIME
        elif n in ('alpha_1', 'alpha_2'): dims[s_] = (0, 2, -1, 0)
    pos = [c.lhs - c.rhs for c in sc.poshyps if getattr(c, 'rel_op', '') == '>']
    try:
        res['obligations'] = check('C08/%s' % key, sc.paths(case), sc.all_hyps(case), dims, {'burntime': TIME}, sc.symbols(), positive=pos, nat=(sc.cls, sc.kwargs(case), sc.pos, sc.t))
    except Unsupported as u:
        res['obligations'].append(core.Obl('C08/%s/extraction' % key, 'open', 'extraction', 0.0, detail=str(u)[:150]))
    return res


def unit_blake():
    from props import c15
    res = {'obligations': [], 'functions': [], 'engine_errors': []}
    paths, hyps = c15.blake_paths()
    dims = {c15.lam: PRES, c15.G: PRES, c15.a: LEN, c15.rho: DENS, c15.ps: PRES, c15.r: LEN, c15.t: TIME, c15.gmin: LEN}
    outd = {'curr_posn': LEN, 'displacement': LEN, 'strain_rr': ONE, 'strain_qq': ONE, 'strain_vol': ONE, 'density': DENS, 'stress_rr': PRES, 'stress_qq': PRES, 'pressure': PRES, 'stress_dev_rr': PRES,
            'stress_dev_qq': PRES, 'stress_diff': PRES}
    res['obligations'] = check('C08/blake', paths, hyps, dims, outd, {c15.lam, c15.G, c15.a, c15.rho, c15.ps, c15.r, c15.t})
    return res


def unit_piston(model):
    from contracts import piston as cp
    sc = cp.SOLVER; case = {'model': model}; res = {'obligations': [], 'functions': sc.function_info(), 'engine_errors': []}
    dims = {cp.x: LEN, cp.t: TIME, cp.c0: VEL, cp.G: PRES, cp.Y: PRES, cp.rho0: DENS, cp.up: VEL, cp.wv_pl: VEL, cp.wv_el: VEL, cp.xmax_batch: LEN, sp.Symbol('max_points', real=True): LEN}
    outd = {'density': DENS, 'pressure': PRES, 'specific_internal_energy': SIE, 'velocity': VEL, 'deviatoric stress': PRES}
    try:
        paths = sc.paths(case)
        res['obligations'] = check('C08/ep_piston/%s' % model, paths, sc.all_hyps(case), dims, outd, sc.symbols() | {cp.wv_pl, cp.wv_el})
        # the roots handed back by fsolve / sqrt scale like velocities because their defining equations are homogeneous
        p0 = [p for p in paths if p.outcome == 'return'][0]
        sub = scale_sub(dims)
        Q = sp.sympify(p0.run.Q_el)
        o = core.prove_zero('C08/ep_piston/%s/elastic_speed:wv_el^2_is_a_velocity_squared' % model, Q.subs(sub, simultaneous=True) - mono((0, 2, -2, 0)) * Q, sc.all_hyps(case), goal_text='Q_el (= wv_el^2) scales like a velocity squared')
        o.pop('cex_raw', None); res['obligations'].append(o)
        rp = getattr(p0.run, 'roots', {}).get('plastic')
        if rp is not None:
            rsd = sp.sympify(rp[1])
            o = core.prove_zero('C08/ep_piston/%s/plastic_residual_homogeneous' % model, rsd.subs(sub, simultaneous=True) - mono(PRES) * rsd, sc.all_hyps(case), goal_text='Plastic_Residual(wv_pl) is homogeneous (a pressure): its root scales like a velocity')
            o.pop('cex_raw', None); res['obligations'].append(o)
    except Unsupported as u:
        res['obligations'].append(core.Obl('C08/ep_piston/%s/extraction' % model, 'open', 'extraction', 0.0, detail=str(u)[:150]))
    return res


def unit_riemann(pat):
    from props import riemann_kit as rk
    from contracts import riemann as cr
    res = {'obligations': [], 'functions': rk.info(), 'engine_errors': [], 'assumptions': list(rk.ASSUMPTIONS)}
    sc, ctxs, others, paths = rk.build()
    if pat not in ctxs:
        res['obligations'].append(core.Obl('C08/riemann/%s/extraction' % pat, 'open', 'extraction', 0.0, detail='pattern not found')); return res
    c = ctxs[pat]
    dims = {cr.pl: PRES, cr.pr: PRES, cr.rl: DENS, cr.rr: DENS, cr.ul: VEL, cr.ur: VEL, cr.px: PRES, cr.x: LEN, cr.xd0: LEN, cr.t: TIME}
    sub = scale_sub(dims); O = res['obligations']; base = 'C08/riemann/%s' % pat
    o = core.prove_zero(base + '/root_equation_homogeneous', c.res.subs(sub, simultaneous=True) - mono(VEL) * c.res, cr.HYPS + [cr.px > 0], goal_text='star-pressure equation is homogeneous (a velocity): px scales like a pressure')
    o.pop('cex_raw', None); O.append(o)
    for j, V in enumerate(c.V):
        o = core.prove_zero('%s/speed%d' % (base, j), V.subs(sub, simultaneous=True) - mono(VEL) * V, cr.HYPS + [cr.px > 0], goal_text='wave speed %d scales like a velocity' % j); o.pop('cex_raw', None); O.append(o)
    for k in sorted(c.regions):
        F = c.regions[k].value.fields()
        for n, d in (('pressure', PRES), ('density', DENS), ('velocity', VEL), ('specific_internal_energy', SIE)):
            v = sp.sympify(F[n])
            o = core.prove_zero('%s/region%d/%s' % (base, k, n), v.subs(sub, simultaneous=True) - mono(d) * v, cr.HYPS + [cr.px > 0] + rk.PXREL[pat], goal_text='%s scales with its dimension' % n); o.pop('cex_raw', None); O.append(o)
    # pmax = 10 max(pl, pr): the bracket scales with the pressures (structural: homogeneous of degree one)
    return res


def unit_heat(bc):
    from props import c14
    from contracts import heat as H
    res = {'obligations': [], 'functions': [], 'engine_errors': []}
    paths, hy, kw = c14.run_rod(bc)
    d = H.BCS[bc]
    dims = {H.x: LEN, H.t: TIME, H.kappa: (0, 2, -1, 0), H.TL: TEMP, H.TR: TEMP, H.L: LEN}
    # boundary operators alpha T + beta dT/dx = gamma: take alpha dimensionless, beta a length, gamma a temperature
    for s_, dd in ((H.a1, ONE), (H.a2, ONE), (H.b1, LEN), (H.b2, LEN), (H.g1, TEMP), (H.g2, TEMP)): dims[s_] = dd
    res['obligations'] = check('C08/rod1d/%s' % bc, paths, hy, dims, {'temperature': TEMP}, set(dims), sums=True, nat=(H.ROD, kw, H.x, H.t))
    return res


EHEP_NATIVE = r"""
import json, io, contextlib, warnings
import numpy as np
warnings.simplefilter('ignore')
from exactpack.solvers.ehep.ehep import EscapeOfHEProducts as E
lM, lL, lT = 3.0, 2.0, 5.0
kw = dict(D=0.85, rho_0=1.6, up=0.05, xtilde=1.7, xmax=10., tmax=10.)
kws = dict(D=kw['D'] * lL / lT, rho_0=kw['rho_0'] * lM / lL ** 3, up=kw['up'] * lL / lT, xtilde=kw['xtilde'] * lL, xmax=kw['xmax'] * lL, tmax=kw['tmax'] * lT)
fac = {'density': lM / lL ** 3, 'pressure': lM / (lL * lT ** 2), 'specific_internal_energy': lL ** 2 / lT ** 2, 'sound_speed': lL / lT, 'velocity': lL / lT}
with contextlib.redirect_stdout(io.StringIO()): a = E(**kw); b = E(**kws)
bad = {}; n = 0
xs = np.linspace(-3.0, 8.0, 45) + 0.0137
for t0 in (0.7, 1.5, 2.4, 3.3, 4.9, 7.1):
    with contextlib.redirect_stdout(io.StringIO()): ra = a(xs, t0); rb = b(xs * lL, t0 * lT)
    for i in range(len(xs)):
        if ra['region'][i] != rb['region'][i]: continue          # boundary points (absolute tolerances of the polygon test)
        n += 1
        for k, f in fac.items():
            if abs(rb[k][i] - f * ra[k][i]) > 1e-9 * max(abs(rb[k][i]), abs(f * ra[k][i]), 1e-300):
                bad.setdefault('%s in region %s' % (k, ra['region'][i]), [float(xs[i]), t0, float(ra[k][i]), float(rb[k][i]), f])
print(json.dumps({'reproduced': bool(bad), 'points_compared': n, 'first mismatch per field/region (x, t, original, changed units, expected factor)': bad}))
"""


def unit_ehep():
    from props import ehep_kit as EK
    res = {'obligations': [], 'functions': EK.functions(), 'engine_errors': []}; O = res['obligations']
    try: reg = EK.regions()
    except Unsupported as u_:
        O.append(core.Obl('C08/ehep/extraction', 'open', 'extraction', 0.0, detail=str(u_)[:300])); return res
    dims = {EK.x: LEN, EK.t: TIME, EK.D: VEL, EK.rho_0: DENS, EK.up: VEL, EK.xtilde: LEN}
    sub = scale_sub(dims)
    outd = {'rho': DENS, 'u': VEL, 'p': PRES, 'e': SIE, 'cs': VEL}
    for lab, (F, pc, rl) in sorted(reg.items()):
        for n, dd in outd.items():
            v = F[n]
            o = core.prove_zero('C08/ehep/region_%s/%s' % (lab, n), v.subs(sub, simultaneous=True) - mono(dd) * v, [EK.up < EK.D / 4] + pc, goal_text='%s(scaled inputs) == %s * %s(inputs)' % (n, mono(dd), n), extra_syms={lM, lL, lT, lTh})
            if o['status'] == 'refuted': o['replay'] = EHEP_NATIVE
            o.pop('cex_raw', None); O.append(o)
    return res


def units(tier):
    us = [('noh', {'kind': 'hydro', 'key': 'noh'}), ('cog19', {'kind': 'hydro', 'key': 'cog19'}), ('noh2', {'kind': 'hydro', 'key': 'noh2'})]
    us += [(k, {'kind': 'burn', 'key': k}) for k in ('k1_2d', 'k2_2d', 'k3_2d', 'dsd')]
    us += [('blake', {'kind': 'blake'})] + [('ep_piston/' + m, {'kind': 'piston', 'model': m}) for m in ('hypo', 'hyperIfin', 'hyperFin')]
    us += [('riemann/' + p, {'kind': 'riemann', 'pat': p}) for p in ('SCS', 'SCR', 'RCS', 'RCR')] + [('rod1d/' + b, {'kind': 'heat', 'bc': b}) for b in ('BC1', 'BC2', 'BC3', 'BC4')]
    us += [('mader', {'kind': 'mader'}), ('ehep', {'kind': 'ehep'}), ('guderley', {'kind': 'gud'}), ('sdrz', {'kind': 'sdrz'})] + [('sedov/geometry=%d' % j_, {'kind': 'sedov', 'key': j_}) for j_ in (1, 2, 3)]
    return us


def run_unit(name, kind, key=None, model=None, pat=None, bc=None):
    if kind == 'mader':
        from props import mader_kit
        return mader_kit.unit('C08')
    if kind == 'ehep': return unit_ehep()
    if kind == 'gud':
        from props import guderley_kit
        return guderley_kit.unit('C08')
    if kind == 'sdrz':
        from props import sdrz_kit
        return sdrz_kit.unit_scaling()
    if kind == 'sedov':
        from props import sedov_kit
        return sedov_kit.unit_scaling(key)
    if kind == 'hydro': return unit_hydro(key)
    if kind == 'burn': return unit_burn(key)
    if kind == 'blake': return unit_blake()
    if kind == 'piston': return unit_piston(model)
    if kind == 'riemann': return unit_riemann(pat)
    return unit_heat(bc)
