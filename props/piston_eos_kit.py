"""Elastic-plastic piston, C03: the three returned states satisfy the Mie-Gruneisen EOS of the solver (real method EPpiston.Gruneisen executed symbolically);
behind the plastic wave the EOS defect is exactly the function whose root defines the plastic wave speed (fsolve contract, A5)."""
import sympy as sp
from vc import core, propkit, extract, repo as R
from vc.values import *


def unit(case, tier):
    from contracts import piston as cp
    sc = cp.SOLVER; store = {}
    def per_path(sc_, case_, i, p, base): store[i] = p; return []
    res = propkit.solver_unit(sc, case, per_path, tier, K=0)
    res['engine_errors'] = [e for e in res['engine_errors'] if 'translation validation' not in e]
    O = res['obligations']; base = 'C03/ep_piston/%s' % sc.case_name(case)
    ps = [p for p in store.values() if p.outcome == 'return']
    if len(ps) != 3: O.append(core.Obl(base + '/regions', 'open', 'extraction', 0.0, detail='expected 3 regions, got %d' % len(ps))); return res
    loc = ps[0].run.run_locals; Xp = sp.sympify(loc['wv_pl_x']); Xe = sp.sympify(loc['wv_el_x']); x = sc.pos
    def region(p):
        if any(c == sp.Lt(x, Xp) for c in p.pc): return 'plastic'
        if any(isinstance(c, sp.And) and c.has(Xe) for c in p.pc): return 'yield'
        return 'ambient'
    reg = {region(p): (p.value.fields(), p) for p in ps}
    if set(reg) != {'plastic', 'yield', 'ambient'}: O.append(core.Obl(base + '/regions', 'open', 'extraction', 0.0, detail='regions not identified')); return res
    obj = ps[0].run.obj; A = obj.attrs; hyps = sc.all_hyps(case)
    roots = getattr(ps[0].run, 'roots', {})
    for nm, (F, p) in sorted(reg.items()):
        rho, e, pr = [sp.sympify(F[k]) for k in ('density', 'specific_internal_energy', 'pressure')]
        try:
            gp = [q for q in extract.run_function('exactpack/solvers/ep_piston/ep_piston.py::EPpiston.Gruneisen', [A['rho0'], A['gamma'], A['c0'], A['s0'], rho, e], hyps=hyps, self_obj=obj) if q.outcome == 'return']
            if len(gp) != 1: raise Unsupported('%d paths of Gruneisen' % len(gp))
        except Unsupported as u_:
            O.append(core.Obl('%s/%s/extraction' % (base, nm), 'open', 'extraction', 0.0, detail=str(u_)[:200])); continue
        defect = sp.sympify(gp[0].value) - pr
        if nm == 'plastic' and 'plastic' in roots:
            sym, resid = roots['plastic']
            o = core.prove_zero('%s/%s/eos:defect=plastic_residual' % (base, nm), (defect - sp.sympify(resid)) * (defect + sp.sympify(resid)), hyps,
                                goal_text='Gruneisen(rho2, e2) - p2 == +-(function whose root fsolve returns as the plastic wave speed): the state behind the plastic wave is on the EOS at the root', extra_syms={sym})
        else:
            o = core.prove_zero('%s/%s/eos:p=Gruneisen(rho,e)' % (base, nm), defect, hyps, goal_text='pressure == P_H(rho) + gamma rho (e - E_H(rho)) in the %s state' % nm)
        o.pop('cex_raw', None); O.append(o)
    return res
