"""C02 - every shock, detonation front and contact obeys the Rankine-Hugoniot relations."""
import sympy as sp
from vc import core, propkit, alg, smt
from vc.values import *
from contracts import hydro
from props import riemann_kit as rk

LEVEL = 'proof'
EXPLANATION = ("Jump triples (mass, momentum, total energy in the frame of the discontinuity) between the states the real code returns on the two sides of each discontinuity, with the speed "
               "W = d(location)/dt obtained by differentiating the solver's own location expression; contacts: equal p and u, moving with the fluid; Riemann star-pressure equation == documented u*_R - u*_L.")
ASSUMPTIONS = list(rk.ASSUMPTIONS)
SHOCKED = ['noh', 'cog19', 'cog20', 'cog21']


def hydro_unit(key, case, tier):
    sc = hydro.SOLVERS[key]
    store = {}
    def per_path(sc, case, i, p, base):
        store[i] = p; return []
    res = propkit.solver_unit(sc, case, per_path, tier)
    O = res['obligations']; base = 'C02/%s/%s' % (key, sc.case_name(case))
    ps = [p for p in store.values() if p.outcome == 'return']
    loc = None
    for p in ps:
        l_ = getattr(p.run, 'run_locals', {}).get('shock_location')
        if isinstance(l_, sp.Basic): loc = l_
    r = sc.pos; t = sc.t
    inside = [p for p in ps if any(c == sp.Lt(r, loc) for c in p.pc)] if loc is not None else []
    outside = [p for p in ps if any(c == sp.Ge(r, loc) or c == sp.Not(sp.Lt(r, loc)) for c in p.pc)] if loc is not None else []
    if loc is None or len(inside) != 1 or len(outside) != 1:
        O.append(core.Obl(base + '/shock/states', 'open', 'extraction', 0.0, detail='could not identify shock location / the two sides (%s, %d, %d)' % (loc, len(inside), len(outside)))); return res
    W = sp.diff(loc, t)
    hyps = sc.all_hyps(case) + [loc > 0]
    A = {n: sp.sympify(v).subs(r, loc) for n, v in inside[0].value.fields().items()}; B = {n: sp.sympify(v).subs(r, loc) for n, v in outside[0].value.fields().items()}
    def flux(S):
        w = S['velocity'] - W
        return (S['density'] * w, S['pressure'] + S['density'] * w ** 2, w * (S['density'] * S['specific_internal_energy'] + S['density'] * w ** 2 / 2 + S['pressure']))
    mod, cls = sc.cls.split(':')
    for nm, a_, b_, idx in zip(('mass', 'momentum', 'energy'), flux(A), flux(B), range(3)):
        o = core.prove_zero('%s/shock/rh:%s' % (base, nm), a_ - b_, hyps, goal_text='[%s flux in the shock frame] == 0, W = d(shock_location)/dt' % nm, extra_syms=sc.symbols(),
                            positive=sc.positive.get(sc.case_name(case), []))
        if o['status'] == 'refuted' and o.get('cex_raw'):
            pt = propkit.sym_point(sc, o['cex_raw'])
            params = {k: solverkit_num(v, pt) for k, v in sc.kwargs(case).items()}
            o['replay'] = NATIVE % dict(mod=mod, cls=cls, params=params, t=float(alg.numeric(pt[t], {}, 20)), loc=sp.pycode(loc), idx=idx, text='RH ' + nm)
        o.pop('cex_raw', None); O.append(o)
    return res


def solverkit_num(v, pt):
    from vc import solverkit
    q = solverkit.numify(v, pt)
    return tuple(q['__tuple__']) if isinstance(q, dict) else q


NATIVE = r'''
import json, math, io, contextlib
import numpy as np
from %(mod)s import %(cls)s
params = %(params)r; t0 = %(t)r
with contextlib.redirect_stdout(io.StringIO()): s = %(cls)s(**params)
def loc(t):
    env = dict(params); env['t'] = t
    return eval(%(loc)r, {'math': math}, env)
X = loc(t0); h = 1e-6 * t0; W = (loc(t0 + h) - loc(t0 - h)) / (2 * h); d = 1e-7 * X
a = s(np.array([X - d, X + d]), t0)
def flux(i):
    S = {n: float(a[n][i]) for n in a.dtype.names}; w = S['velocity'] - W
    return (S['density'] * w, S['pressure'] + S['density'] * w * w, w * (S['density'] * S['specific_internal_energy'] + 0.5 * S['density'] * w * w + S['pressure']))
fa, fb = flux(0), flux(1); i = %(idx)d
rel = abs(fa[i] - fb[i]) / (abs(fa[i]) + abs(fb[i]) + 1e-300)
print(json.dumps({'reproduced': bool(rel > 1e-5), 'flux_inside': fa[i], 'flux_outside': fb[i], 'relative_jump': rel, 'shock_location': X, 'shock_speed': W, 'predicate': %(text)r}))
'''


PISTON_NATIVE = r'''
import json, io, contextlib, warnings
import numpy as np
warnings.simplefilter('ignore')
from exactpack.solvers.ep_piston.ep_piston import EPpiston
params = %(params)r; t0 = 1.0
with contextlib.redirect_stdout(io.StringIO()): s = EPpiston(**params)
W = {'elastic': s.wv_el, 'plastic': s.wv_pl}[%(wave)r]; X = W * t0; d = 1e-6 * X
with contextlib.redirect_stdout(io.StringIO()): a = s._run(np.array([X - d, X + d]), t0, xmax=2 * s.wv_el * t0)
def flux(i):
    S = {n: float(a[n][i]) for n in a.dtype.names}; w = S['velocity'] - W; sg = S['pressure'] - S['deviatoric stress']
    return (S['density'] * w, sg + S['density'] * w * w, w * (S['density'] * S['specific_internal_energy'] + 0.5 * S['density'] * w * w + sg))
fa, fb = flux(0), flux(1); i = %(idx)d
rel = abs(fa[i] - fb[i]) / (abs(fa[i]) + abs(fb[i]) + 1e-300)
print(json.dumps({'reproduced': bool(rel > 1e-6), 'flux_behind': fa[i], 'flux_ahead': fb[i], 'relative_jump': rel, 'wave_speed': W, 'predicate': %(text)r}))
'''


def piston_unit(case, tier):
    from contracts import piston as cp
    sc = cp.SOLVER
    store = {}
    def per_path(sc, case, i, p, base):
        store[i] = p; return []
    res = propkit.solver_unit(sc, case, per_path, tier, K=0)
    res['engine_errors'] = [e for e in res['engine_errors'] if 'translation validation' not in e]   # fsolve roots are symbolic here: validated through the replay of counterexamples instead
    O = res['obligations']; base = 'C02/ep_piston/%s' % sc.case_name(case)
    ps = [p for p in store.values() if p.outcome == 'return']
    if len(ps) != 3:
        O.append(core.Obl(base + '/regions', 'open', 'extraction', 0.0, detail='expected 3 regions, got %d' % len(ps))); return res
    loc = ps[0].run.run_locals; Xp = sp.sympify(loc['wv_pl_x']); Xe = sp.sympify(loc['wv_el_x'])
    x, t = sc.pos, sc.t
    def region(p):
        if any(c == sp.Lt(x, Xp) for c in p.pc): return 0
        if any(isinstance(c, sp.And) and c.has(Xe) for c in p.pc): return 1
        return 2
    reg = {region(p): p.value.fields() for p in ps}
    if set(reg) != {0, 1, 2}:
        O.append(core.Obl(base + '/regions', 'open', 'extraction', 0.0, detail='regions not identified')); return res
    attrs = ps[0].run.obj.attrs
    Q = sp.sympify(ps[0].run.Q_el)
    hyps = sc.all_hyps(case)
    for wave, (a_, b_, X_) in (('plastic', (0, 1, Xp)), ('elastic', (1, 2, Xe))):
        W = sp.diff(X_, t)
        def flux(S):
            w = sp.sympify(S['velocity']) - W; sg = sp.sympify(S['pressure']) - sp.sympify(S['deviatoric stress'])
            return (S['density'] * w, sg + S['density'] * w ** 2, w * (S['density'] * S['specific_internal_energy'] + S['density'] * w ** 2 / 2 + sg))
        for idx, (nm, fa, fb) in enumerate(zip(('mass', 'momentum', 'energy'), flux(reg[a_]), flux(reg[b_]))):
            # wv_el = sqrt(Q): eliminate the radical exactly (even and odd parts in wv_el must both vanish; wv_el^2 = Q)
            We = cp.wv_el
            ee = sp.sympify(fa) - sp.sympify(fb)
            try:
                pn = sp.Poly(sp.expand(sp.fraction(sp.together(ee))[0]), We)
                even = sum(c * Q ** (k // 2) for (k,), c in pn.terms() if k % 2 == 0); odd = sum(c * Q ** (k // 2) for (k,), c in pn.terms() if k % 2 == 1)
                ok_split = not (sp.sympify(even).has(We) or sp.sympify(odd).has(We))
            except Exception:
                ok_split = False
            W2 = None
            if ok_split:
                oe = core.prove_zero('x', sp.sympify(even), hyps, extra_syms=sc.symbols()); oo = core.prove_zero('x', sp.sympify(odd), hyps, extra_syms=sc.symbols())
                if oe['status'] == 'discharged' and oo['status'] == 'discharged':
                    O.append(core.Obl('%s/%s_wave/rh:%s' % (base, wave, nm), 'discharged', 'ring-mod-laws(sympy)', oe['time_s'] + oo['time_s'],
                                      goal='[%s flux with total stress p - s_dev] == 0 across the %s wave (radical wv_el eliminated: even and odd parts vanish with wv_el^2 = Q)' % (nm, wave), laws=['sqrt(Q)^2=Q']))
                    continue
                bad = oe if oe['status'] != 'discharged' else oo
                o = core.Obl('%s/%s_wave/rh:%s' % (base, wave, nm), bad['status'], bad['backend'], oe['time_s'] + oo['time_s'], goal='[%s flux with total stress] == 0 across the %s wave' % (nm, wave),
                             cex=bad.get('cex'), cex_raw=bad.get('cex_raw'), value=bad.get('value'), detail=bad.get('detail'))
            else:
                o = core.prove_zero('%s/%s_wave/rh:%s' % (base, wave, nm), ee.subs(We, sp.sqrt(Q)), hyps, positive=[Q], goal_text='[%s flux] == 0 across the %s wave' % (nm, wave), extra_syms=sc.symbols())
            if False:
                pass
            if o['status'] == 'refuted' and o.get('cex_raw'):
                raw = o['cex_raw']; params = {k: float(sp.sympify(raw[k])) if k in raw else 1.0 for k in ('gamma', 'c0', 's0', 'G', 'Y', 'rho0', 'up')}
                # physically sensible magnitudes so that fsolve converges: keep the sampled gamma (the usual culprit), default the rest
                dflt = dict(c0=0.533, s0=1.34, G=0.286, Y=0.0026, rho0=2.79, up=0.01); params.update(dflt); params['model'] = case['model']
                o['replay'] = PISTON_NATIVE % dict(params=params, wave=wave, idx=idx, text='RH %s across the %s wave' % (nm, wave))
            o.pop('cex_raw', None); O.append(o)
    return res


def units(tier):
    us = [('ep_piston/%s' % m, {'kind': 'piston', 'case': {'model': m}, 'tier': tier}) for m in ('hypo', 'hyperIfin', 'hyperFin')]
    for key in SHOCKED:
        sc = hydro.SOLVERS[key]
        for case in sc.cases: us.append(('%s/%s' % (key, sc.case_name(case)), {'kind': 'hydro', 'key': key, 'case': case, 'tier': tier}))
    us += [(n, dict(k, kind='riemann', tier=tier)) for n, k in rk.units('C02', ['rootspec', 'shocks', 'contact'], tier)]
    us.append(('guderley', {'kind': 'gud'}))
    us.append(('ehep', {'kind': 'ehep'}))
    us.append(('mader', {'kind': 'mader'}))
    us.append(('sdrz', {'kind': 'sdrz'}))
    us.append(('rmtv', {'kind': 'rmtv'}))
    us += [('nohblackbox/%s/%d' % (c_, m_), {'kind': 'bbn', 'key': (c_, m_)}) for c_ in ('energy_noh_residual', 'pressure_noh_residual') for m_ in (0, 1, 2)]
    us += [('sedov/geometry=%d' % j_, {'kind': 'sedov', 'key': j_}) for j_ in (1, 2, 3)]
    return us


def run_unit(name, kind, key=None, case=None, tier='quick', pat=None, fam=None):
    if kind == 'hydro': return hydro_unit(key, case, tier)
    if kind == 'piston': return piston_unit(case, tier)
    if kind == 'gud':
        from props import guderley_kit
        return guderley_kit.unit('C02')
    if kind == 'ehep':
        from props import ehep_kit
        return ehep_kit.unit_boundaries()
    if kind == 'mader':
        from props import mader_kit
        return mader_kit.unit_cj()
    if kind == 'sdrz':
        from props import sdrz_kit
        return sdrz_kit.unit('C02')
    if kind == 'rmtv':
        from props import rmtv_kit
        return rmtv_kit.unit()
    if kind == 'bbn':
        from props import bbnoh_kit
        return bbnoh_kit.unit(key[0], key[1])
    if kind == 'sedov':
        from props import sedov_kit
        return sedov_kit.unit_shock('C02', key)
    return rk.run_unit('C02', pat, fam, tier)
