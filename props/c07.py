"""C07 - independent implementations of the same problem agree."""
import json
import sympy as sp
from vc import core, propkit, alg, smt, extract, solverkit, sx, repo as R
from vc.values import *
from contracts import hydro, burn

LEVEL = 'proof'
EXPLANATION = ("Relational product of two extractions under the documented parameter map: corresponding paths are matched by equivalence of their path conditions (z3) and every common field is proved equal "
               "(ring normaliser): Noh <-> Cog19, Noh2 <-> Noh2Cog <-> Cog1(b=0, t -> 1-t, u -> -u), every geometry wrapper <-> general class (exhaustive over the class table), Kenamond 2-D <-> 3-D on the common plane, "
               "Noh closed-form post-shock state is a root of the black-box residual with an ideal gas.")
ASSUMPTIONS = ["attributes that a wrapper fixes and removes from its `parameters` (Kidder74/76 b, Sedov eblast defaults) are the wrapper's documented specialisation: the general class is called with the same values",
               "IGEOS <-> GenEOS Riemann on ideal-gas data is a bounded run-time check (tolerance 2e-3, grid limited), not a proof",
               "planar sandwiches <-> rod and rod BC3 <-> BC4 are covered with the heat family (C14 machinery); wrappers whose general class is not extractable (Sedov, black-box Noh) are compared structurally only"]

r = hydro.r; t = hydro.t


def paths_of(cls, kw, pos, tt, hyps):
    return extract.run_solver(cls, kw, pos, tt, hyps=hyps)


def compare(name, A, B, hyps, fmap, symbols, replay=None, posmap=None):
    """A, B: lists of Path.  fmap: {fieldA: (fieldB, sign)}.  returns obligations"""
    out = []; k = 0
    Ar = [p for p in A if p.outcome == 'return']; Br = [p for p in B if p.outcome == 'return']
    for pa in Ar:
        matched = False
        for pb in Br:
            if not smt.feasible(list(hyps) + list(pa.pc) + list(pb.pc), 12000): continue      # generous budget: the set of pairs must not depend on machine load
            matched = True
            h = list(hyps) + list(pa.pc) + list(pb.pc)
            fa = pa.value.fields(); fb = pb.value.fields()
            for na, (nb, sgn) in fmap.items():
                if na not in fa or nb not in fb:
                    out.append(core.Obl('%s/pair%d/%s' % (name, k, na), 'refuted', 'structural', 0.0, goal='both routes return %s' % na, detail='missing field', cex=None)); continue
                o = core.prove_zero('%s/pair%d/%s' % (name, k, na), sp.sympify(fa[na]) - sgn * sp.sympify(fb[nb]), h, goal_text='%s agrees between the two routes' % na, extra_syms=symbols)
                if o['status'] == 'refuted' and o.get('cex_raw') and replay: o['replay'] = replay(o['cex_raw'], na, nb, sgn)
                o.pop('cex_raw', None); out.append(o)
            k += 1
        if not matched and smt.feasible(list(hyps) + list(pa.pc)):
            out.append(core.Obl('%s/unmatched%d' % (name, k), 'refuted', 'path-analysis', 0.0, goal='every feasible path of route A has a counterpart in route B', detail=str(pa.pc)[:200], cex=None)); k += 1
    # raising behaviour must agree as well
    for pa in [p for p in A if p.outcome == 'raise']:
        if smt.feasible(list(hyps) + list(pa.pc)) and not any(p.outcome == 'raise' and smt.feasible(list(hyps) + list(pa.pc) + list(p.pc)) for p in B):
            out.append(core.Obl('%s/raise_mismatch%d' % (name, k), 'refuted', 'path-analysis', 0.0, goal='both routes reject the same requests', detail=str(pa.pc)[:200], cex=None)); k += 1
    if k == 0: out.append(core.Obl(name + '/vacuous', 'error', 'engine', 0.0, detail='no comparable path pair'))
    return out


PAIR_NATIVE = r'''
import json, io, contextlib, importlib
import numpy as np
def mk(spec):
    mod, cls = spec[0].split(':'); C = getattr(importlib.import_module(mod), cls)
    with contextlib.redirect_stdout(io.StringIO()): return C(**spec[1])
A = mk(%(A)r); B = mk(%(B)r)
with contextlib.redirect_stdout(io.StringIO()):
    a = A(np.array(%(posA)r, dtype=float), %(tA)r); b = B(np.array(%(posB)r, dtype=float), %(tB)r)
va = float(a[%(na)r][0]); vb = %(sgn)d * float(b[%(nb)r][0])
print(json.dumps({'reproduced': bool(abs(va - vb) > 1e-9 * max(abs(va), abs(vb), 1e-300)), 'route_A': va, 'route_B': vb, 'field': %(na)r}))
'''


def num(v, pt):
    q = solverkit.numify(v, pt)
    def plain(q):
        if isinstance(q, dict) and '__tuple__' in q: return tuple(plain(z) for z in q['__tuple__'])
        if isinstance(q, list): return [plain(z) for z in q]
        return q
    return plain(q)


def mkreplay(clsA, kwA, posA, tA, clsB, kwB, posB, tB, symbols):
    def f(raw, na, nb, sgn):
        pt = {s_: sp.sympify(raw[s_.name]) if s_.name in raw else sp.Integer(1) for s_ in symbols}
        fl = lambda e: float(alg.numeric(sp.sympify(e), pt, 20))
        pa = [fl(q) for q in posA] if isinstance(posA, (list, tuple)) else fl(posA); pb = [fl(q) for q in posB] if isinstance(posB, (list, tuple)) else fl(posB)
        return PAIR_NATIVE % dict(A=(clsA, {k: num(v, pt) for k, v in kwA.items()}), B=(clsB, {k: num(v, pt) for k, v in kwB.items()}), posA=[pa], posB=[pb], tA=fl(tA), tB=fl(tB), na=na, nb=nb, sgn=sgn)
    return f


STD = {n: (n, 1) for n in ('density', 'pressure', 'specific_internal_energy', 'velocity')}


def unit_noh_cog19(g):
    res = {'obligations': [], 'functions': [], 'engine_errors': []}
    gm, u0, rho0, Gm = hydro.gamma, hydro.u0n, hydro.rho0, hydro.Gamma
    hy = [gm > 1]
    kwA = {'geometry': sp.Integer(g), 'gamma': gm, 'u0': u0, 'rho0': rho0}; kwB = {'geometry': sp.Integer(g), 'gamma': gm, 'u0': u0, 'rho0': rho0, 'Gamma': Gm}
    cA, cB = 'exactpack.solvers.noh.noh1:Noh', 'exactpack.solvers.cog.cog19:Cog19'
    A = paths_of(cA, kwA, r, t, hy); B = paths_of(cB, kwB, r, t, hy)
    syms = {gm, u0, rho0, Gm, r, t}
    res['obligations'] = compare('C07/noh~cog19/geometry=%d' % g, A, B, hy, STD, syms, mkreplay(cA, kwA, r, t, cB, kwB, r, t, syms))
    res['functions'] = hydro.SOLVERS['noh'].function_info() + hydro.SOLVERS['cog19'].function_info()
    return res


def unit_noh2(g):
    res = {'obligations': [], 'functions': [], 'engine_errors': []}
    gm, rho0, e0 = hydro.gamma, hydro.rho0, hydro.e0
    hy = [gm > 1, t < 1]; syms = {gm, rho0, e0, r, t}
    kw = {'geometry': sp.Integer(g), 'gamma': gm, 'rho0': rho0, 'e0': e0}
    c2, c2c, c1 = 'exactpack.solvers.noh2.noh2:Noh2', 'exactpack.solvers.noh2.noh2_cog:Noh2Cog', 'exactpack.solvers.cog.cog1:Cog1'
    A = paths_of(c2, kw, r, t, hy); B = paths_of(c2c, kw, r, t, hy)
    res['obligations'] += compare('C07/noh2~noh2cog/geometry=%d' % g, A, B, hy, STD, syms, mkreplay(c2, kw, r, t, c2c, kw, r, t, syms))
    Gm = hydro.Gamma
    kw1 = {'geometry': sp.Integer(g), 'gamma': gm, 'rho0': rho0, 'temp0': e0 * (gm - 1) / Gm, 'b': sp.Integer(0), 'Gamma': Gm}
    C = paths_of(c1, kw1, r, 1 - t, hy)
    fm = dict(STD); fm['velocity'] = ('velocity', -1)
    res['obligations'] += compare('C07/noh2~cog1(b=0,t->1-t)/geometry=%d' % g, A, C, hy, fm, syms | {Gm}, mkreplay(c2, kw, r, t, c1, kw1, r, 1 - t, syms | {Gm}))
    res['functions'] = hydro.SOLVERS['noh2'].function_info() + hydro.SOLVERS['noh2cog'].function_info() + hydro.SOLVERS['cog1'].function_info()
    return res


def unit_kenamond(which):
    res = {'obligations': [], 'functions': [], 'engine_errors': []}
    x, y, D, R_, td, xd = burn.x, burn.y, burn.D, burn.R, burn.td, burn.xd
    fm = {'burntime': ('burntime', 1)}
    if which == 'k1':
        cls = 'exactpack.solvers.kenamond.kenamond1:Kenamond1'; hy = []
        kA = {'geometry': sp.Integer(2), 'D': D, 'x_d': (xd[0], xd[1]), 't_d': td}; kB = {'geometry': sp.Integer(3), 'D': D, 'x_d': (xd[0], xd[1], sp.Integer(0)), 't_d': td}
        pA, pB = [x, y], [x, y, sp.Integer(0)]; syms = {x, y, D, td, xd[0], xd[1]}
    elif which == 'k3':
        cls = 'exactpack.solvers.kenamond.kenamond3:Kenamond3'
        hy = burn.SOLVERS['k3_2d'].hyps + burn.SOLVERS['k3_2d'].poshyps
        kA = {'geometry': sp.Integer(2), 'R': R_, 'D': D, 'x_d': (xd[0], xd[1]), 't_d': td}; kB = {'geometry': sp.Integer(3), 'R': R_, 'D': D, 'x_d': (xd[0], xd[1], sp.Integer(0)), 't_d': td}
        pA, pB = [x, y], [x, y, sp.Integer(0)]; syms = {x, y, D, R_, td, xd[0], xd[1]}
    else:
        cls = 'exactpack.solvers.kenamond.kenamond2:Kenamond2'; sc = burn.SOLVERS['k2_2d']
        hy = sc.hyps; kA = dict(sc.kwargs({'geometry': 2})); kB = dict(sc.kwargs({'geometry': 3}))
        pA, pB = [x, y], [x, sp.Integer(0), y]; syms = sc.symbols()
    tt = burn.t
    A = extract.run_solver(cls, kA, pA, tt, hyps=hy); B = extract.run_solver(cls, kB, pB, tt, hyps=hy)
    res['obligations'] = compare('C07/%s:2d~3d' % which, A, B, hy, fm, syms, mkreplay(cls, kA, pA, tt, cls, kB, pB, tt, syms | {tt}))
    fv = R.find_method(cls, '_run'); res['functions'] = [{'ref': '%s::%s' % (fv.module.path.replace(R.REPO + '/', ''), fv.name), 'sha256_16': R.source_hash(fv)}]
    return res


def wrappers():
    ct = R.class_table()['classes']; out = []
    for k, c in sorted(ct.items()):
        if 'exactpack.base:ExactSolver' not in c['mro'] or k == 'exactpack.base:ExactSolver' or '_run' in c['own_methods'] or len(c['mro']) < 3: continue
        out.append((k, c['mro'][1]))
    return out


def numeq(a, b):
    a, b = R.decode(a) if a is not None else None, R.decode(b) if b is not None else None
    if isinstance(a, sp.Basic) and isinstance(b, sp.Basic): return bool(sp.simplify(a - b) == 0)
    return a == b


def unit_wrapper(wk, bk):
    """wrapper class <-> general class: structural obligations for every wrapper; field equality where the general class is under contract"""
    res = {'obligations': [], 'functions': [], 'engine_errors': []}
    O = res['obligations']; ct = R.class_table()['classes']; w, b = ct[wk], ct[bk]
    name = 'C07/wrapper/%s' % wk.split(':')[1]
    own = [m for m in w['own_methods'] if m != '__init__']
    O.append(core.structural(name + '/no_behavioural_override', not own, goal='the wrapper defines no method of its own besides __init__', detail=str(own)))
    wp = w['parameters'] or []; bp = b['parameters'] or []
    bad = []
    for p in wp:
        if p in bp and p != 'geometry' and '__init__' not in w['own_methods']:
            wa = next((ct[m]['attrs'][p] for m in w['mro'] if m in ct and p in ct[m]['attrs']), None)
            ba = next((ct[m]['attrs'][p] for m in b['mro'] if m in ct and p in ct[m]['attrs']), None)
            if not numeq(wa, ba): bad.append((p, str(wa), str(ba)))
    O.append(core.structural(name + '/defaults_of_shared_parameters', not bad, goal='a parameter the wrapper still exposes has the default of the general class', detail=str(bad)))
    fixed = {}
    for p in bp:
        if p not in wp:
            wa = next((ct[m]['attrs'][p] for m in w['mro'] if m in ct and p in ct[m]['attrs']), None)
            if wa is not None: fixed[p] = R.decode(wa)
    key = next((k for k, sc in list(hydro.SOLVERS.items()) if sc.cls == bk), None)
    if key is None or '__init__' in w['own_methods']:
        res['coverage_note'] = 'structural only'
        return res
    sc = hydro.SOLVERS[key]
    g = fixed.get('geometry', sp.Integer(3)); case = {'geometry': int(g)} if 'geometry' in (b['parameters'] or []) else {}
    if case and case not in sc.cases:
        res['coverage_note'] = 'geometry outside the contract of the general class: both routes reject it (C20), structural comparison only'
        return res
    kwW = {p: sc.params[p] for p in wp if p in sc.params}
    kwB = dict(kwW); kwB.update({p: v for p, v in fixed.items()})
    for p in sc.params:
        if p not in kwB: kwB[p] = sc.params[p]; kwW.setdefault(p, None)
    kwW = {p: v for p, v in kwW.items() if v is not None and p in wp}
    # parameters of the general class that the wrapper neither exposes nor fixes do not exist; those it fixes are passed to the general class
    hy = sc.hyps + sc.thyps + sc.poshyps
    if hasattr(sc, 'extra_hyps'): hy = hy + list(sc.extra_hyps(case))
    sub = {sc.params[p]: v for p, v in fixed.items() if p in sc.params and isinstance(v, sp.Basic)}
    hy = [h.xreplace(sub) if isinstance(h, sp.Basic) else h for h in hy]
    kwB = {p: (v.xreplace(sub) if isinstance(v, sp.Basic) else v) for p, v in kwB.items()}
    try:
        A = extract.run_solver(wk, kwW, sc.pos, sc.t, hyps=hy); B = extract.run_solver(bk, kwB, sc.pos, sc.t, hyps=hy)
    except Unsupported as u:
        O.append(core.Obl(name + '/extraction', 'open', 'extraction', 0.0, detail=str(u))); return res
    names = [n for n in (A[0].value.names if A and A[0].outcome == 'return' else []) if n != 'position']
    syms = sc.symbols()
    O.extend(compare(name + '/fields', A, B, hy, {n: (n, 1) for n in names}, syms, mkreplay(wk, kwW, sc.pos, sc.t, bk, kwB, sc.pos, sc.t, syms)))
    res['functions'] = sc.function_info()
    return res


def unit_bbnoh(m):
    """Noh's closed-form post-shock state solves the three jump conditions of the black-box residual with an ideal gas"""
    from props import c16
    res = {'obligations': [], 'functions': [], 'engine_errors': []}
    gm = sp.Symbol('gamma', positive=True); u0 = sp.Symbol('u_0', negative=True); r0 = sp.Symbol('rho_0', positive=True)
    ic = {'velocity': u0, 'density': r0, 'pressure': sp.Integer(0), 'symmetry': sp.Integer(m)}
    state = [r0 * ((gm + 1) / (gm - 1)) ** (m + 1), u0 ** 2 / 2, -(gm - 1) * u0 / 2]      # (rho, e, D) of noh1.py
    def thunk(run):
        I = sx.Interp(run)
        eos = I.instantiate(ClassRef(c16.M + 'ideal_gas_eos'), [gm], {})
        o = I.instantiate(ClassRef(c16.RM + 'pressure_noh_residual'), [dict(ic), eos], {})
        return I.apply(I.getattr(o, 'F'), [Vec(list(state))], {})
    ps = [p for p in sx.explore(thunk, hyps=[gm > 1], feas=extract.default_feas) if p.outcome == 'return']
    for p in ps:
        for i, v in enumerate(p.value.items):
            res['obligations'].append(core.prove_zero('C07/noh~blackbox_residual/symmetry=%d/F%d' % (m, i), sp.sympify(v), [gm > 1] + list(p.pc), goal_text='pressure_noh_residual.F[%d](Noh closed-form state) == 0 with ideal_gas_eos' % i))
    if not ps: res['obligations'].append(core.Obl('C07/noh~blackbox_residual/symmetry=%d/paths' % m, 'open', 'extraction', 0.0, detail='no returning path'))
    for o in res['obligations']: o.pop('cex_raw', None)
    return res


BOUNDED = r'''
import json, io, contextlib, warnings
import numpy as np
warnings.simplefilter('ignore')
from exactpack.solvers.riemann.ep_riemann import IGEOS_Solver, GenEOS_Solver
probs = %(probs)r
worst = 0.0; bad = []
for P in probs:
    x = np.linspace(P['xmin'] + 0.013, P['xmax'] - 0.017, 41)
    with contextlib.redirect_stdout(io.StringIO()):
        s1 = IGEOS_Solver(**P); a = s1(x, P['t']); b = GenEOS_Solver(**P)(x, P['t'])
    # points within two internal grid cells of a wave position (also of weak waves) are excluded: documented resolution of the tabulated solver
    waves = P['xd0'] + P['t'] * np.array(s1.Vregs, dtype=float); cell = (P['xmax'] - P['xmin']) / P['num_x_pts']
    near = np.array([np.any(np.abs(xx - waves) <= 2.5 * cell) for xx in x])
    for n in ('density', 'pressure', 'velocity', 'specific_internal_energy'):
        sc = max(np.max(np.abs(a[n])), 1e-12); d = np.abs(a[n] - b[n]) / sc
        # points within a grid cell of a discontinuity are excluded (documented resolution)
        jump = np.abs(np.gradient(a[n], x)) * (x[1] - x[0]) / sc > 0.05
        jump = jump | np.roll(jump, 1) | np.roll(jump, -1) | near
        m = float(np.max(d[~jump])) if np.any(~jump) else 0.0
        worst = max(worst, m)
        if m > 2e-3: bad.append((P, n, m))
print(json.dumps({'reproduced': bool(bad), 'worst_relative_difference': worst, 'failing': bad[:3], 'problems': len(probs)}))
'''


def unit_bounded(tier):
    import random
    rnd = random.Random(core.SEED + 11); probs = []
    base = [dict(rl=1., ul=0., pl=1., gl=1.4, rr=0.125, ur=0., pr=0.1, gr=1.4), dict(rl=1., ul=-2., pl=0.4, gl=1.4, rr=1., ur=2., pr=0.4, gr=1.4), dict(rl=0.125, ul=0.1, pl=0.1, gl=1.4, rr=1., ur=-0.2, pr=1., gr=1.4)]
    for i in range(3 if tier == 'quick' else 12):
        P = dict(base[i % 3]) if i < 3 else dict(rl=rnd.uniform(.2, 2), ul=rnd.uniform(-.5, .5), pl=rnd.uniform(.2, 2), gl=rnd.choice([1.4, 5. / 3.]), rr=rnd.uniform(.2, 2), ur=rnd.uniform(-.5, .5), pr=rnd.uniform(.2, 2), gr=1.4)
        P['gr'] = P['gl'] if i >= 3 else P['gr']
        P.update(xmin=0., xd0=0.5, xmax=1., t=0.1, num_x_pts=2001, num_int_pts=2001); probs.append(P)
    from vc import native
    r_ = native.run_script(BOUNDED % dict(probs=probs), timeout=1500)
    ok = r_.get('result') is not None and not r_['result'].get('reproduced')
    b = {'name': 'C07/bounded/igeos~geneos_on_ideal_gas_data', 'status': 'pass' if ok else 'fail', 'evaluations': len(probs) * 41 * 4, 'bound': '%d problems x 41 points x 4 fields' % len(probs), 'tolerance': '2e-3 relative, points adjacent to discontinuities excluded',
         'detail': json.dumps(r_.get('result'))[:400] if r_.get('result') else (r_.get('stderr_tail') or '')[-300:], 'replay': BOUNDED % dict(probs=probs)}
    return {'obligations': [], 'functions': [], 'engine_errors': [] if r_.get('result') is not None else ['bounded check did not run: ' + (r_.get('stderr_tail') or '')[-300:]], 'bounded': [b]}


def unit_bc34():
    """rod BC3 (T at x=0, flux at x=L) is the mirror image x -> L - x of BC4 (flux at x=0, T at x=L): term by term with cos(k_n (L - x)) = (-1)^n sin(k_n x)"""
    from props import c14
    from contracts import heat as H
    res = {'obligations': [], 'functions': [], 'engine_errors': []}; O = res['obligations']
    p3, h3, _ = c14.run_rod('BC3'); p4, h4, _ = c14.run_rod('BC4')
    r3 = [p for p in p3 if p.outcome == 'return']; r4 = [p for p in p4 if p.outcome == 'return']
    if len(r3) != 1 or len(r4) != 1:
        O.append(core.Obl('C07/rod_bc3~bc4/paths', 'open', 'extraction', 0.0, detail='%d/%d paths' % (len(r3), len(r4)))); return res
    x = H.x; L = H.L
    # mirrored BC4 problem: T at the right end T2 := gamma1/alpha1 of BC3, flux at the left end F1 := -gamma2/beta2 of BC3, initial ends exchanged
    T1 = H.g1 / H.a1; F2 = H.g2 / H.b2
    sub4 = {H.g2: T1 * H.a2, H.g1: -F2 * H.b1, H.TL: H.TR, H.TR: H.TL, x: L - x}
    t3 = sp.sympify(r3[0].run.sums[0]['term']); t4 = sp.sympify(r4[0].run.sums[0]['term']).subs(sub4, simultaneous=True)
    n_ = sp.Symbol('n_idx0', integer=True, nonnegative=True); kn = (2 * n_ + 1) * sp.pi / (2 * L)
    # A3 law: cos(k_n (L - x)) = cos((2n+1) pi/2 - k_n x) = (-1)^n sin(k_n x)
    law = {c_: (-1) ** n_ * sp.sin(kn * x) for c_ in t4.atoms(sp.cos) if sp.simplify(c_.args[0] - kn * (L - x)) == 0}
    t4 = t4.xreplace(law)
    s3 = sp.sympify(r3[0].value.field('temperature')) - r3[0].run.sums[0]['symbol']; s4 = (sp.sympify(r4[0].value.field('temperature')) - r4[0].run.sums[0]['symbol']).subs(sub4, simultaneous=True)
    hy = h3 + [sp.Ne(H.a2, 0), sp.Ne(H.b1, 0)]
    O.append(core.prove_zero('C07/rod_bc3~bc4/term', t3 - t4, hy, goal_text='BC3 term_n(x,t) == mirrored BC4 term_n(L - x, t)'))
    O.append(core.prove_zero('C07/rod_bc3~bc4/static', s3 - s4, hy, goal_text='BC3 static part == mirrored BC4 static part'))
    for o in O: o.pop('cex_raw', None)
    return res


def units(tier):
    us = [('noh~cog19/%d' % g, {'kind': 'nc', 'g': g}) for g in (1, 2, 3)] + [('noh2/%d' % g, {'kind': 'n2', 'g': g}) for g in (1, 2, 3)]
    us += [('kenamond/%s' % w, {'kind': 'ken', 'which': w}) for w in ('k1', 'k2', 'k3')]
    us += [('wrapper/%s' % wk.split(':')[1], {'kind': 'wr', 'wk': wk, 'bk': bk}) for wk, bk in wrappers()]
    us += [('bbnoh/%d' % m, {'kind': 'bb', 'm': m}) for m in (0, 1, 2)]
    us += [('sandwich/%s' % n_, {'kind': 'sw', 'wk': n_}) for n_ in ('PlanarSandwich', 'PlanarSandwichHot', 'PlanarSandwichHalf')]
    us += [('rod_bc3~bc4', {'kind': 'bc34'})]
    us.append(('bounded', {'kind': 'bounded', 'tier': tier}))
    return us


def run_unit(name, kind, g=None, which=None, wk=None, bk=None, m=None, tier='quick'):
    if kind == 'nc': return unit_noh_cog19(g)
    if kind == 'n2': return unit_noh2(g)
    if kind == 'ken': return unit_kenamond(which)
    if kind == 'wr': return unit_wrapper(wk, bk)
    if kind == 'bb': return unit_bbnoh(m)
    if kind == 'sw':
        from props import c14
        r_ = c14.sandwich_unit(wk)
        for o in r_['obligations']: o['name'] = o['name'].replace('C14/sandwich/', 'C07/sandwich~rod/')
        return r_
    if kind == 'bc34': return unit_bc34()
    return unit_bounded(tier)
