"""C18 - Su-Olson temperatures solve the non-equilibrium Marshak diffusion problem."""
import ast, json
import sympy as sp
from vc import core, extract, smt, alg, native, sx, repo as R
from vc.values import *

LEVEL = 'proof'
MOD = 'exactpack/solvers/suolson/timmes.py'; MODNAME = 'exactpack.solvers.suolson.timmes'
EXPLANATION = ("Mode-wise contracts on the real integrands (symbolic eta, x, tau, epsilon; interior path where none of the 1e-14 clamps is active): each integrand of usolution (upart1, e^-tau upart2) is a separated solution e^(-lambda tau) sin(gamma x + theta) "
               "that satisfies epsilon u_tau = u_xx + (v - u) with the companion material mode v = u/(1 - lambda) forced by v_tau = u - v, and the homogeneous Marshak condition u - (2/sqrt3) u_x = 0 at x = 0; the integrands of vsolution are proved to be exactly those "
               "companion modes minus the radiation modes (vpart2 = (1 + epsilon eta) upart2; vpart1 equals the upart1 companion under the change of variable eta -> sqrt(1 - eta^2) with its Jacobian); the assembled return expressions are "
               "1 - (2 sqrt3/pi) I1 - (sqrt3/pi) e^-tau I2 and u - (2 sqrt3/pi) I3 + (sqrt3/pi) e^-tau I4 (constant 1 carries the inhomogeneous boundary value), the oscillatory-splitting loops add integrals over adjacent sub-intervals (one-step obligation on the real loop bodies), "
               "and so_wave applies the stated conversion (x = sqrt3 kappa z, tau = 4 a c kappa t / alpha, epsilon = 4a/alpha, T = T_bc u^(1/4)).")
ASSUMPTIONS = ["A5 scipy.integrate.quad(f, a, b) returns the integral of f over [a, b] (additive over adjacent intervals); brentq returns a point of its bracket",
               "A6 differentiation under the integral sign and decay as x -> infinity (Riemann-Lebesgue) are cited, not machine-checked; the amplitudes are fixed by the initial condition u = v = 0, which the property statement does not include and this check does not prove",
               "A7 the splitting loops stop at the first sub-interval whose contribution is below 1e-8 and quad runs at epsabs 1e-10: truncation / quadrature error is numerical accuracy, not covered",
               "clamped end layers eta < 1e-14, eta > 1 - 1e-14 and denominators below 1e-14 are excluded: a path of an integrand is checked iff one of 300 sampled interior points (eta in [0.001,0.999], epsilon in [0.01,20]) takes it",
               "float literal rt3 = 1.7320508075688772 is identified with sqrt(3) after checking |rt3 - sqrt 3| < 1e-15"]

eta = sp.Symbol('eta', positive=True); X = sp.Symbol('x', nonnegative=True); TAU = sp.Symbol('tau', positive=True); EPS = sp.Symbol('epsilon', positive=True)
WIT = {eta: sp.Rational(1, 2), X: sp.Rational(7, 10), TAU: sp.Rational(3, 10), EPS: sp.Rational(6, 10)}
RT3 = sp.Rational('1.7320508075688772')


def _finfo(*names):
    return [{'ref': '%s::%s' % (MOD, n), 'sha256_16': R.source_hash(R.func_ref('%s::%s' % (MOD, n)))} for n in names]


def _samples(n=300):
    import random
    rnd = random.Random(core.SEED + 18); out = [dict(WIT)]
    for _ in range(n):
        out.append({eta: sp.Rational(rnd.randint(1, 999), 1000), EPS: sp.Rational(rnd.choice([rnd.randint(1, 100), rnd.randint(100, 2000)]), 100), X: sp.Rational(rnd.randint(0, 1000), 100), TAU: sp.Rational(rnd.randint(1, 1000), 100)})
    return out


def part(fname, jwant=None):
    """paths of one integrand that are taken on a non-negligible part of the domain: [(expression, path condition, sample points hitting it)], number of paths.
    A path hit by none of the sampled interior points (eta in [0.001, 0.999], epsilon in [0.01, 20], x in [0, 10], tau in [0.01, 10]) is a 1e-14 clamp layer and is not checked."""
    fv = R.func_ref('%s::%s' % (MOD, fname))
    def thunk(run):
        run.gstore[(MODNAME, 'posx')] = X; run.gstore[(MODNAME, 'tau')] = TAU; run.gstore[(MODNAME, 'epsilon')] = EPS
        if jwant is not None: run.gstore[(MODNAME, 'jwant')] = jwant
        I = sx.Interp(run)
        return I.call_func(fv, [eta], {})
    paths = sx.explore(thunk, hyps=[eta < 1], feas=extract.default_feas, max_paths=400)
    out = []
    for p in paths:
        if p.outcome != 'return': raise Unsupported('%s: a path raises %s' % (fname, p.exc))
        hits = [q for q in _samples() if all(alg.eval_cond(c, q) for c in p.pc)]
        if hits: out.append((sp.sympify(p.value), list(p.pc), hits))
    if not out: raise Unsupported('%s: no path hit by the interior samples' % fname)
    out.sort(key=lambda e_: -len(e_[2]))
    return out, len(paths)


NATIVE = r"""
import json, math
import exactpack.solvers.suolson.timmes as T
P = %(pt)r; kind = %(kind)r
T.posx = P['x']; T.tau = P['tau']; T.epsilon = P['epsilon']
e = P['eta']; eps = P['epsilon']; x = P['x']; tau = P['tau']
def fd2(f, h=1e-4):
    T.posx = x + h; a = f(e); T.posx = x - h; b = f(e); T.posx = x; c = f(e); return (a - 2 * c + b) / h ** 2
def fdt(f, h=1e-6):
    T.tau = tau + h; a = f(e); T.tau = tau - h; b = f(e); T.tau = tau; return (a - b) / (2 * h)
def fdx0(f, h=1e-5):
    T.posx = h; a = f(e); T.posx = 0.0; c = f(e); T.posx = 2 * h; b = f(e); T.posx = x; return c, (-3 * c + 4 * a - b) / (2 * h)
out = {}
if kind == 'pde1':
    u = T.upart1(e); lam = e * e; res = eps * fdt(T.upart1) - fd2(T.upart1) - (u / (1 - lam) - u); out = {'residual': res, 'scale': abs(u) + 1e-30}
elif kind == 'pde2':
    f = lambda q: math.exp(-T.tau) * T.upart2(q); u = f(e); lam = 1 + 1 / (eps * e); res = eps * fdt(f) - fd2(f) - (u / (1 - lam) - u); out = {'residual': res, 'scale': abs(u) * (1 + lam) + 1e-30}
elif kind in ('bc1', 'bc2'):
    f = T.upart1 if kind == 'bc1' else T.upart2; c, d = fdx0(f); out = {'residual': c - 2 / math.sqrt(3) * d, 'scale': abs(c) + abs(d) + 1e-30}
elif kind == 'v2':
    out = {'residual': T.vpart2(e) - (1 + eps * e) * T.upart2(e), 'scale': abs(T.vpart2(e)) + 1e-30}
elif kind == 'v1':
    q = math.sqrt(1 - e * e); out = {'residual': T.vpart1(e) - T.upart1(q) * (1 - e * e) / (e * e) * e / q, 'scale': abs(T.vpart1(e)) + 1e-30}
out['reproduced'] = bool(abs(out['residual']) > 1e-4 * out['scale']); out['point'] = P
print(json.dumps(out))
"""


def _fin(o, kind):
    if o['status'] == 'refuted' and o.get('cex_raw') is not None:
        pt = {s_.name: float(sp.sympify(o['cex_raw'].get(s_.name, WIT[s_]))) for s_ in (eta, X, TAU, EPS)}
        pt['eta'] = min(max(pt['eta'], 0.05), 0.95)
        o['replay'] = NATIVE % dict(pt=pt, kind=kind)
    o.pop('cex_raw', None); return o


def unit_modes():
    res = {'obligations': [], 'functions': _finfo('upart1', 'upart2', 'vpart1', 'vpart2', 'gamma_one', 'gamma_two', 'gamma_three', 'theta_one', 'theta_two', 'theta_three'), 'engine_errors': []}; O = res['obligations']
    try:
        PU1, n1 = part('upart1'); PU2, n2 = part('upart2'); PV1, n3 = part('vpart1'); PV2, n4 = part('vpart2')
    except Unsupported as u_:
        O.append(core.Obl('C18/modes/extraction', 'open', 'extraction', 0.0, detail=str(u_)[:200])); return res
    O.append(core.structural('C18/modes/interior_paths', all(len(q) == 1 for q in (PU1, PU2, PV1, PV2)),
                             'paths (clamp case splits) / paths taken on sampled interior points: upart1 %d/%d, upart2 %d/%d, vpart1 %d/%d, vpart2 %d/%d' % (n1, len(PU1), n2, len(PU2), n3, len(PV1), n4, len(PV2)), None, 'path-analysis',
                             'each integrand has exactly one formula away from the 1e-14 end layers (a clamp active on a visible part of the domain changes the integrand there)'))
    hy = [eta < 1]
    rng = {eta: (0.05, 0.95), X: (0.0, 3.0), TAU: (0.05, 3.0), EPS: (0.1, 2.0)}
    lam1 = eta ** 2; lam2 = 1 + 1 / (EPS * eta)
    tag = lambda k: '' if k == 0 else '~path%d' % k
    for k, (U1, h1, _) in enumerate(PU1):
        O.append(_fin(core.prove_zero('C18/modes/family1:radiation_equation' + tag(k), EPS * sp.diff(U1, TAU) - sp.diff(U1, X, 2) - (U1 / (1 - lam1) - U1), hy + h1, ranges=rng,
                                      goal_text='epsilon u_tau = u_xx + (v - u) for the mode u = upart1(eta), v = u/(1 - eta^2) (the material mode forced by v_tau = u - v with decay rate eta^2)'), 'pde1'))
        O.append(_fin(core.prove_zero('C18/modes/family1:decay_rate' + tag(k), sp.diff(U1, TAU) + lam1 * U1, hy + h1, ranges=rng, goal_text='upart1 decays like e^(-eta^2 tau)'), 'pde1'))
        e = (U1 - 2 / sp.sqrt(3) * sp.diff(U1, X)).subs(X, 0)
        O.append(_fin(core.prove_zero('C18/modes/family1:marshak_condition' + tag(k), e, hy + [c for c in h1 if not c.has(X)], ranges=rng, goal_text='u - (2/sqrt3) u_x = 0 at x = 0 for every mode (the constant 1 carries the boundary value)'), 'bc1'))
    for k, (U2, h2, _) in enumerate(PU2):
        u2 = sp.exp(-TAU) * U2
        O.append(_fin(core.prove_zero('C18/modes/family2:radiation_equation' + tag(k), EPS * sp.diff(u2, TAU) - sp.diff(u2, X, 2) - (u2 / (1 - lam2) - u2), hy + h2, ranges=rng,
                                      goal_text='epsilon u_tau = u_xx + (v - u) for the mode u = e^-tau upart2(eta), v = u/(1 - lambda), lambda = 1 + 1/(epsilon eta)'), 'pde2'))
        O.append(_fin(core.prove_zero('C18/modes/family2:decay_rate' + tag(k), sp.diff(u2, TAU) + lam2 * u2, hy + h2, ranges=rng, goal_text='e^-tau upart2 decays like e^(-(1 + 1/(epsilon eta)) tau)'), 'pde2'))
        e = (U2 - 2 / sp.sqrt(3) * sp.diff(U2, X)).subs(X, 0)
        O.append(_fin(core.prove_zero('C18/modes/family2:marshak_condition' + tag(k), e, hy + [c for c in h2 if not c.has(X)], ranges=rng, goal_text='u - (2/sqrt3) u_x = 0 at x = 0 for every mode (the constant 1 carries the boundary value)'), 'bc2'))
    # material integrands: v - u of the code is the companion mode minus the radiation mode
    k = 0
    for (U2, h2, s2) in PU2:
        for (V2, h4, s4) in PV2:
            if not any(all(alg.eval_cond(c, q) for c in h4) for q in s2): continue
            O.append(_fin(core.prove_zero('C18/modes/family2:material_integrand' + tag(k), V2 - (1 + EPS * eta) * U2, hy + h2 + h4, ranges=rng,
                                          goal_text='vpart2 == (1 + epsilon eta) upart2, i.e. +e^-tau vpart2 is (v - u) of the mode -e^-tau upart2 with v = u/(1 - lambda) = -epsilon eta u'), 'v2')); k += 1
    q = sp.sqrt(1 - eta ** 2); k = 0
    for (U1, h1, s1) in PU1:
        U1q = U1.subs(eta, q); h1q = [c.subs(eta, q) for c in h1]
        for (V1, h3, s3) in PV1:
            if not any(all(alg.eval_cond(c, pt_) for c in h1q) for pt_ in s3): continue
            O.append(_fin(core.prove_zero('C18/modes/family1:material_integrand' + tag(k), V1 - U1q * ((1 - eta ** 2) / eta ** 2) * (eta / q), hy + h3 + h1q, ranges=rng,
                                          goal_text='vpart1(eta) d eta == [lambda/(1-lambda) upart1](eta_u) |d eta_u|, eta_u = sqrt(1 - eta^2), lambda = eta_u^2: the v - u integral is the companion of the upart1 integral after the change of variable'), 'v1')); k += 1
    # translation validation: the extracted integrands against the real functions (module globals set natively)
    from vc import propkit
    items = []; exp = []
    for (e_, x_, t_, ep_) in ((0.37, 0.8, 0.6, 0.5), (0.81, 2.3, 1.7, 1.0), (0.12, 0.05, 0.2, 3.0)):
        pt = {eta: sp.Rational(str(e_)), X: sp.Rational(str(x_)), TAU: sp.Rational(str(t_)), EPS: sp.Rational(str(ep_))}
        for fn, P_ in (('upart1', PU1), ('upart2', PU2), ('vpart1', PV1), ('vpart2', PV2)):
            ex = propkit.expected_from_paths([(q_[0], q_[1]) for q_ in P_], pt)
            if ex is None: continue
            items.append({'module': MODNAME, 'name': fn, 'args': [e_], 'globals': {'posx': x_, 'tau': t_, 'epsilon': ep_}}); exp.append(ex)
    n_, mm = propkit.tv_functions(items, exp, rtol=1e-9)
    propkit.tv_report(res, 4, n_, mm)
    # vacuity guard: without the exchange term the radiation equation must NOT hold for these modes
    U1, h1, _ = PU1[0]
    probe = core.prove_zero('C18/modes/probe', EPS * sp.diff(U1, TAU) - sp.diff(U1, X, 2), hy + h1, ranges=rng)
    res['vacuity'] = {'witness_checks': 1, 'must_fail_probes': 1, 'must_fail_caught': int(probe['status'] == 'refuted')}
    if probe['status'] != 'refuted': res['engine_errors'].append('vacuity probe not refuted: %s' % probe['status'])
    return res


def _quad_ext(box):
    Q = sp.Function('Q')
    def quad(I, a, k):
        f = a[0]; nm = getattr(f, 'name', None) or getattr(getattr(f, 'func', None), 'name', '?')
        box.setdefault('calls', []).append((nm, a[1], a[2]))
        return Vec([Q(sp.Symbol(nm), sp.sympify(a[1]), sp.sympify(a[2])), sp.Integer(0)])
    return Q, quad


def unit_assembly():
    res = {'obligations': [], 'functions': _finfo('usolution', 'vsolution'), 'engine_errors': []}; O = res['obligations']
    O.append(core.prove_valid('C18/assembly/rt3_is_sqrt3', [], sp.Abs(RT3 - sp.sqrt(3)) < sp.Rational(1, 10 ** 15), goal_text='|1.7320508075688772 - sqrt 3| < 1e-15'))
    uans = sp.Symbol('uans', real=True)
    for fn, args, want in (('usolution', [X, TAU, EPS], lambda Q: 1 - 2 * RT3 / sp.pi * Q(sp.Symbol('upart1'), 0, 1) - RT3 / sp.pi * sp.exp(-TAU) * Q(sp.Symbol('upart2'), 0, 1)),
                           ('vsolution', [X, TAU, EPS, uans], lambda Q: uans - 2 * RT3 / sp.pi * Q(sp.Symbol('vpart1'), 0, 1) + RT3 / sp.pi * sp.exp(-TAU) * Q(sp.Symbol('vpart2'), 0, 1))):
        box = {}; Q, quad = _quad_ext(box)
        cnt = [0]
        def root(I, a, k, cnt=cnt):      # gamma_*_root: opaque, values chosen so that no bracket exists (both signs equal)
            cnt[0] += 1; return sp.Integer(1)
        try:
            paths = extract.run_function('%s::%s' % (MOD, fn), args, hyps=[], externals={'scipy.integrate.quad': quad}, opaque={'gamma_one_root': root, 'gamma_two_root': root, 'gamma_three_root': root})
        except Unsupported as u_:
            O.append(core.Obl('C18/assembly/%s/extraction' % fn, 'open', 'extraction', 0.0, detail=str(u_)[:200])); continue
        rets = [p for p in paths if p.outcome == 'return']
        O.append(core.structural('C18/assembly/%s/no_bracket_path' % fn, len(rets) == 1, '%d returning paths' % len(rets), None, 'path-analysis', 'without a sign change of the phase the integral is taken over [0, 1] in one piece'))
        if len(rets) != 1: continue
        o = core.prove_zero('C18/assembly/%s/combination' % fn, sp.sympify(rets[0].value) - want(Q), [], goal_text='%s == %s' % (fn, {'usolution': '1 - (2 rt3/pi) I[upart1] - (rt3/pi) e^-tau I[upart2]', 'vsolution': 'u - (2 rt3/pi) I[vpart1] + (rt3/pi) e^-tau I[vpart2]'}[fn]))
        o.pop('cex_raw', None); O.append(o)
        # the splitting loops: one-step obligations on the real loop bodies
        fv = R.func_ref('%s::%s' % (MOD, fn))
        loops = [n for n in ast.walk(fv.node) if isinstance(n, ast.For)]
        O.append(core.structural('C18/assembly/%s/two_splitting_loops' % fn, len(loops) == 2, '%d for loops' % len(loops), None, 'ast-structural', 'two oscillatory-splitting loops'))
        for li, loop in enumerate(loops):
            lo, hi, sm, ei = sp.symbols('eta_lo eta_hi sum_prev eta_int', real=True)
            sname = 'sum1' if li == 0 else 'sum2'
            box2 = {}; Q2, quad2 = _quad_ext(box2)
            def brentq(I, a, k, box2=box2): box2['bracket'] = (a[1], a[2]); return ei
            def thunk(run, loop=loop, sname=sname):
                I = sx.Interp(run, externals={'scipy.integrate.quad': quad2, 'scipy.optimize.brentq': brentq})
                env = sx.Env(fv.module, None, fv)
                env.locals.update({'eta_lo': lo, 'eta_hi': hi, sname: sm, 'i': sp.Symbol('i_loop', integer=True, nonnegative=True), 'eps': sp.Rational(1, 10 ** 10), 'eps2': sp.Rational(1, 10 ** 8), 'tol': sp.Rational(1, 10 ** 6)})
                env.globals_decl = set(getattr(env, 'globals_decl', ())) | {'jwant', 'posx', 'tau', 'epsilon'}
                try: I.block(loop.body, env)
                except BreakSignal: pass
                return (env.locals.get(sname), env.locals.get('eta_lo'), env.locals.get('eta_hi'))
            try:
                lp = [p for p in sx.explore(thunk, hyps=[], feas=extract.default_feas) if p.outcome == 'return']
            except Unsupported as u_:
                O.append(core.Obl('C18/assembly/%s/loop%d/extraction' % (fn, li), 'open', 'extraction', 0.0, detail=str(u_)[:200])); continue
            base = 'C18/assembly/%s/loop%d' % (fn, li)
            ok = bool(lp) and len(box2.get('calls', [])) >= 1
            if not ok:
                O.append(core.Obl(base + '/extraction', 'open', 'extraction', 0.0, detail='no path / no quad call')); continue
            fname = box2['calls'][0][0]; a_, b_ = sp.sympify(box2['calls'][0][1]), sp.sympify(box2['calls'][0][2])
            for pi_, p_ in enumerate(lp):
                s2, lo2, hi2 = [sp.sympify(v) for v in p_.value]
                tag = '' if pi_ == 0 else '~path%d' % pi_
                O.append(core.prove_zero(base + '/step:sum' + tag, s2 - (sm + Q2(sp.Symbol(fname), a_, b_)), [], goal_text='sum after the body == sum before + integral over the sub-interval'))
                from_below = (a_, b_) == (lo, ei) and lo2 == ei and hi2 == hi
                from_above = (a_, b_) == (ei, hi) and hi2 == ei and lo2 == lo
                O.append(core.structural(base + '/step:adjacent' + tag, from_below or from_above, 'interval [%s, %s]; eta_lo := %s, eta_hi := %s' % (a_, b_, lo2, hi2), None, 'path-analysis',
                                         'sub-interval is [eta_lo, root] followed by eta_lo := root, or [root, eta_hi] followed by eta_hi := root: the pieces tile an interval ending at 0 or 1 without gap or overlap'))
            O.append(core.structural(base + '/step:bracket', tuple(box2.get('bracket', ())) == (lo, hi), str(box2.get('bracket')), None, 'path-analysis', 'the next root is searched in (eta_lo, eta_hi)'))
    return res


CONV_NATIVE = r"""
import json, math
import exactpack.solvers.suolson.timmes as T
bad = {}
for (time, z, Tbc, opac, alpha) in ((1e-9, 0.4, 1.0e3, 1.0, 3.02636565993931701e-14), (2e-9, 0.3, 500.0, 2.0, 6.0e-14), (5e-10, 0.5, 2.0e3, 0.7, 1.5e-14)):
    clight = 2.99792458e10; asol = 4.0 * 5.67051e-5 / clight
    xpos = math.sqrt(3.0) * opac * z; tau = 4.0 * asol * clight * opac * time / alpha; eps = 4.0 * asol / alpha
    u = T.usolution(xpos, tau, eps); v = T.vsolution(xpos, tau, eps, u)
    erad, trad, trad_ev, tmat, tmat_ev = T.so_wave(time, z, Tbc, opac, alpha)
    for n, got, want in (('T_rad', trad_ev, Tbc * u ** 0.25), ('T_mat', tmat_ev, Tbc * max(v, 0.0) ** 0.25)):
        if abs(got - want) > 1e-6 * abs(want): bad['%s at opac=%g alpha=%g Tbc=%g' % (n, opac, alpha, Tbc)] = [got, want]
print(json.dumps({'reproduced': bool(bad), 'so_wave vs T_bc * (dimensionless solution at the stated x, tau, epsilon)^(1/4)': bad}))
"""


def unit_conversion():
    res = {'obligations': [], 'functions': _finfo('so_wave', 'suolson'), 'engine_errors': []}; O = res['obligations']
    tm, z, Tbc, kap, al = sp.symbols('time zpos trad_bc_ev opac alpha', positive=True)
    u, v = sp.symbols('u_dimless v_dimless', positive=True)
    box = {}
    def usol(I, a, k): box['u_args'] = [sp.sympify(q) for q in a]; return u
    def vsol(I, a, k): box['v_args'] = [sp.sympify(q) for q in a]; return v
    try:
        paths = extract.run_function('%s::so_wave' % MOD, [tm, z, Tbc, kap, al], hyps=[], opaque={'usolution': usol, 'vsolution': vsol})
    except Unsupported as u_:
        O.append(core.Obl('C18/conversion/extraction', 'open', 'extraction', 0.0, detail=str(u_)[:200])); return res
    rets = [p for p in paths if p.outcome == 'return']
    O.append(core.structural('C18/conversion/single_path', len(rets) == 1, '%d paths' % len(rets), None, 'path-analysis', 'so_wave is straight-line'))
    if len(rets) != 1 or 'u_args' not in box or 'v_args' not in box: return res
    clight = sp.Rational('2.99792458e10'); ssol = sp.Rational('5.67051e-5'); asol = 4 * ssol / clight; kev = sp.Rational('8.617385e-5')
    xpos, tau_, eps_ = box['u_args'][:3]
    O.append(core.prove_zero('C18/conversion/x=rt3*opac*z', xpos - RT3 * kap * z, [], goal_text='dimensionless position == sqrt3 * opacity * z'))
    O.append(core.prove_zero('C18/conversion/tau=4ac*opac*t/alpha', tau_ - 4 * asol * clight * kap * tm / al, [], goal_text='tau == 4 a c kappa t / alpha'))
    O.append(core.prove_zero('C18/conversion/epsilon=4a/alpha', eps_ - 4 * asol / al, [], goal_text='epsilon == 4 a / alpha'))
    O.append(core.structural('C18/conversion/v_uses_same_arguments', box['v_args'][:3] == box['u_args'][:3] and box['v_args'][3] == u, str(box['v_args'])[:120], None, 'path-analysis', 'vsolution is called with the same (x, tau, epsilon) and the u just computed'))
    erad, trad, trad_ev, tmat, tmat_ev = [sp.sympify(q) for q in rets[0].value]
    O.append(core.prove_zero('C18/conversion/trad_ev^4=u*Tbc^4', trad_ev ** 4 - u * Tbc ** 4, [], goal_text='T_rad = T_bc u^(1/4)'))
    O.append(core.prove_zero('C18/conversion/tmat_ev^4=v*Tbc^4', tmat_ev ** 4 - v * Tbc ** 4, [], goal_text='T_mat = T_bc v^(1/4)'))
    O.append(core.prove_zero('C18/conversion/erad=u*a*Tbc^4', erad - u * asol * (Tbc / kev) ** 4, [], goal_text='radiation energy density == u a T_bc^4 (kelvin)'))
    for o in O:
        o.pop('cex_raw', None)
        if o['status'] == 'refuted' and not o.get('replay'): o['replay'] = CONV_NATIVE
    # the array driver: every point through so_wave with the caller's parameters, t <= 0 gives NaN
    fv = R.func_ref('%s::suolson' % MOD); src = ast.unparse(fv.node).replace(' ', '')
    O.append(core.structural('C18/conversion/driver_pointwise', 'so_wave(t,zpos,trad_bc_ev,opac,alpha)' in src and 'zpos=x[i]' in src and 'trad_ev[i]=trad_ev_out' in src and 'tmat_ev[i]=tmat_ev_out' in src,
                             'suolson(): loop body', None, 'ast-structural', 'suolson() evaluates so_wave(t, x[i], trad_bc_ev, opac, alpha) for every point i and stores the two temperatures at index i'))
    wr = R.find_method('exactpack.solvers.suolson.suolson:SuOlson', '_run'); wsrc = ast.unparse(wr.node).replace(' ', '')
    O.append(core.structural('C18/conversion/wrapper_passes_user_parameters', 'suolson(t=t,x=r,trad_bc_ev=self.trad_bc_ev,opac=self.opac,alpha=self.alpha)' in wsrc and "names=['position','temperature_rad','temperature_mat']" in wsrc,
                             'SuOlson._run', None, 'ast-structural', "SuOlson._run passes the instance's opacity, alpha and boundary temperature and returns (position, temperature_rad, temperature_mat)"))
    return res


def units(tier):
    return [('modes', {'kind': 'modes'}), ('assembly', {'kind': 'asm'}), ('conversion', {'kind': 'conv'})]


def run_unit(name, kind):
    if kind == 'modes': return unit_modes()
    if kind == 'asm': return unit_assembly()
    return unit_conversion()
