"""Obligations over RiemannIGEOS.driver / IGEOS_Solver._run shared by C01, C02, C03, C04, C09, C10, C17, C08.

The star pressure px is the result of scipy.optimize.bisect (assumed contract A5: f_P(px) = 0).  The root equation is
linear in ur, so it is eliminated by substituting ur := ur*(px, ...): every obligation is then universally quantified over
px (with the side relations px >=/<= pl, pr of the wave pattern) instead of ur."""
import sympy as sp
from vc import core, propkit, alg, smt, extract, solverkit, repo as R
from vc.values import *
from contracts import riemann as cr
from contracts.riemann import x, t, pl, rl, ul, gl, pr, rr, ur, gr, xd0, px

PATTERNS = {'shock-contact-shock-SCS': 'SCS', 'shock-contact-rarefaction-SCR': 'SCR', 'rarefaction-contact-shock-RCS': 'RCS', 'rarefaction-contact-rarefaction-RCR': 'RCR'}
PXREL = {'SCS': [px >= pl, px >= pr], 'SCR': [px >= pl, px <= pr], 'RCS': [px <= pl, px >= pr], 'RCR': [px <= pl, px <= pr]}
WAVES = {'SCS': ['S', 'C', 'S'], 'SCR': ['S', 'C', 'Rt', 'Rh'], 'RCS': ['Rh', 'Rt', 'C', 'S'], 'RCR': ['Rh', 'Rt', 'C', 'Rt', 'Rh']}   # kind of each entry of Vregs
REFS = ['exactpack/solvers/riemann/riemann.py::RiemannIGEOS.driver', 'exactpack/solvers/riemann/ep_riemann.py::IGEOS_Solver._run',
        'exactpack/solvers/riemann/utils.py::shock', 'exactpack/solvers/riemann/utils.py::rarefaction', 'exactpack/solvers/riemann/utils.py::SCS_call',
        'exactpack/solvers/riemann/utils.py::SCR_call', 'exactpack/solvers/riemann/utils.py::RCS_call', 'exactpack/solvers/riemann/utils.py::RCR_call',
        'exactpack/solvers/riemann/utils.py::rho_p_u_rarefaction', 'exactpack/solvers/riemann/utils.py::shock_velocity', 'exactpack/solvers/riemann/utils.py::rho_star_shock',
        'exactpack/solvers/riemann/utils.py::rho_star_rarefaction', 'exactpack/solvers/riemann/utils.py::sie', 'exactpack/solvers/riemann/utils.py::sound_speed',
        'exactpack/solvers/riemann/utils.py::u_SCN', 'exactpack/solvers/riemann/utils.py::u_NCS', 'exactpack/solvers/riemann/utils.py::u_NCR', 'exactpack/solvers/riemann/utils.py::u_RCN']
ASSUMPTIONS = ["A5 scipy.optimize.bisect(f, 0, pmax) returns px in [0, pmax] with f(px) = 0 when f(0) f(pmax) <= 0 and raises ValueError otherwise",
               "A2 internal evaluation grid (linspace/append/sort) is abstracted by its generic node; every request point is a node of that grid (it is appended to it), and numpy.interp at a node returns the node value (A5)",
               "cited lemma (elementary analysis): a continuous strictly increasing function has at most one zero, and f(a) <= 0 = f(px) implies px >= a",
               "degenerate paths where the right state is bit-identical to the left state (float-equality side selection in utils.py) are listed but not covered by the jump/PDE obligations"]


# ------------------------------------------------------------------------------------------------ documented wave curves (spec)
def phi_shock(p, p0, r0, g):
    """velocity change across a shock to pressure p (Toro / LoraClavijo): (p-p0) sqrt(A/(p+B))"""
    return (p - p0) * sp.sqrt((2 / ((g + 1) * r0)) / (p + (g - 1) / (g + 1) * p0))


def phi_rare(p, p0, r0, g):
    a0 = sp.sqrt(g * p0 / r0)
    return 2 * a0 / (g - 1) * ((p / p0) ** ((g - 1) / (2 * g)) - 1)


def spec_root(pat):
    """u*_R(p) - u*_L(p) with the documented wave curves: zero at the star pressure"""
    fl = phi_shock(px, pl, rl, gl) if pat[0] == 'S' else phi_rare(px, pl, rl, gl)
    fr = phi_shock(px, pr, rr, gr) if pat[2] == 'S' else phi_rare(px, pr, rr, gr)
    return (ur + fr) - (ul - fl)


class Group:
    """all paths of one wave pattern (generic side selection)"""
    def __init__(self, pat): self.pat = pat; self.paths = []; self.loc = None; self.root = None; self.pc0 = None


def load(max_paths=3000):
    sc = cr.IGEOS
    paths = extract.run_solver(sc.cls, sc.kwargs({}), sc.pos, sc.t, hyps=sc.all_hyps(), externals=sc.externals, max_paths=max_paths)
    groups = {}; others = []
    degenerate = sp.And(sp.Eq(pr, pl), sp.Eq(rr, rl), sp.Eq(ur, ul))
    for p in paths:
        loc = getattr(p.run, 'run_locals', {})
        st = loc.get('soln_type')
        if p.outcome != 'return' or st not in PATTERNS or any(c == degenerate for c in p.pc):
            others.append(p); continue
        pat = PATTERNS[st]
        g = groups.setdefault(pat, Group(pat))
        g.paths.append(p)
        if g.loc is None:
            g.loc = loc; g.root = p.run.root
    return sc, groups, others, paths


def region_of(p, Xregs):
    """index of the region of a path: number of wave positions <= x; None when the set of satisfied conditions is not a prefix"""
    flags = []
    for X in Xregs:
        c = sp.Le(X, x)
        if any(q == c for q in p.pc): flags.append(True)
        elif any(q == sp.Not(c) or q == sp.Gt(X, x) for q in p.pc): flags.append(False)
        else: flags.append(None)
    if None in flags: return None, flags
    k = sum(flags)
    if flags != [True] * k + [False] * (len(flags) - k): return -1, flags
    return k, flags


def pattern_pc(p, Xregs):
    """the decisions of a path that select the wave pattern (everything except the region comparisons)"""
    reg = [sp.Le(X, x) for X in Xregs]
    out = []
    for c in p.pc:
        if any(c == r_ or c == sp.Not(r_) or c == sp.Gt(r_.lhs, r_.rhs) for r_ in reg): continue
        out.append(c)
    return out


def solve_ur(residual):
    a = sp.diff(residual, ur)
    if a.free_symbols or a == 0: raise Unsupported('root equation is not linear in ur with constant coefficient: d/dur = %s' % a)
    return sp.expand(-(residual - a * ur) / a)


class Ctx:
    """per-pattern data with the root equation eliminated"""
    def __init__(self, sc, g):
        self.sc = sc; self.g = g; self.pat = g.pat
        loc = g.loc
        self.res = sp.sympify(g.root['residual'])
        try:
            self.ur_star = solve_ur(self.res); self.sub = {ur: self.ur_star}; self.elim_error = None
        except Unsupported as u:
            self.ur_star = None; self.sub = None; self.elim_error = str(u)
        self.V = [sp.sympify(v) for v in loc['Vregs'].items]
        self.X = [sp.sympify(v) for v in loc['Xregs'].items]
        self.star = {k: sp.sympify(loc[k]) for k in ('ux', 'rx1', 'rx2', 'ex1', 'ex2', 'ax1', 'ax2')}
        self.regions = {}
        for p in g.paths:
            k, flags = region_of(p, self.X)
            if k is not None and k >= 0: self.regions.setdefault(k, p)
        self.hyps = cr.HYPS + [px > 0] + PXREL[self.pat]
        self.syms = {pl, rl, ul, gl, pr, rr, gr, xd0, px, x, t}

    def E(self, e):
        """eliminate the root equation"""
        if self.sub is None: raise Unsupported(self.elim_error)
        return sp.sympify(e).xreplace(self.sub) if isinstance(e, sp.Basic) else e

    def fields(self, k):
        return {n: self.E(v) for n, v in self.regions[k].value.fields().items()}


def info():
    return [{'ref': r_, 'sha256_16': R.source_hash(R.func_ref(r_))} for r_ in REFS]


def replay_point(raw):
    """counterexample (over px) -> concrete Riemann problem: ur is recovered from the root equation"""
    return raw


NATIVE = r'''
import json, io, contextlib, warnings
import numpy as np
warnings.simplefilter('ignore')
from exactpack.solvers.riemann.ep_riemann import IGEOS_Solver
par = %(par)r
t0 = %(t)r
with contextlib.redirect_stdout(io.StringIO()):
    s = IGEOS_Solver(**par)
def sol(xs, t):
    with contextlib.redirect_stdout(io.StringIO()):
        return s(np.array(xs, dtype=float), t)
%(body)s
'''


# ================================================================================================ obligations
def _native_jump(i, kind, text):
    return r'''
xd0 = par['xd0']
sol([xd0], t0); V = float(np.array(s.Vregs)[%(i)d]); X = xd0 + t0 * V
sol([xd0], t0 * 1.01); V2 = float(np.array(s.Vregs)[%(i)d]); W = ((xd0 + 1.01 * t0 * V2) - X) / (0.01 * t0)
d = 1e-7 * max(abs(X - xd0), 1e-3)
a = sol([X - d, X + d], t0)
L = {n: float(a[n][0]) for n in a.dtype.names}; Rr = {n: float(a[n][1]) for n in a.dtype.names}
def flux(S):
    w = S['velocity'] - W
    return (S['density'] * w, S['pressure'] + S['density'] * w * w, w * (S['density'] * S['specific_internal_energy'] + 0.5 * S['density'] * w * w + S['pressure']))
kind = %(kind)r
if kind == 'S':
    res = [x_ - y_ for x_, y_ in zip(flux(L), flux(Rr))]; scale = [abs(x_) + abs(y_) + 1e-300 for x_, y_ in zip(flux(L), flux(Rr))]
elif kind == 'C':
    res = [L['pressure'] - Rr['pressure'], L['velocity'] - Rr['velocity'], W - L['velocity']]; scale = [abs(L['pressure']) + 1e-300, abs(L['velocity']) + abs(W) + 1e-9, abs(W) + 1e-9]
else:
    res = [L[n] - Rr[n] for n in ('pressure', 'density', 'velocity', 'specific_internal_energy')]; scale = [abs(L[n]) + abs(Rr[n]) + 1e-9 for n in ('pressure', 'density', 'velocity', 'specific_internal_energy')]
bad = [abs(r_) / s_ for r_, s_ in zip(res, scale)]
print(json.dumps({'reproduced': bool(max(bad) > 1e-4), 'relative_residuals': bad, 'left': L, 'right': Rr, 'speed': W, 'soln_type': str(s.soln_type), 'predicate': %(text)r}))
''' % dict(i=i, kind=kind, text=text)


def _native(ctx, raw, body):
    """concrete Riemann problem for a counterexample over px: ur from the root equation (the code's own residual)"""
    pt = {}
    for s_ in ctx.syms:
        pt[s_] = sp.sympify(raw[s_.name]) if s_.name in raw else sp.Integer(1)
    val = lambda e: float(alg.numeric(e, pt, 25))
    pt.setdefault(ur, sp.sympify(raw['ur']) if 'ur' in raw else sp.Integer(0))
    par = {'pl': val(pl), 'rl': val(rl), 'ul': val(ul), 'gl': val(gl), 'pr': val(pr), 'rr': val(rr), 'ur': val(ctx.ur_star) if (ctx.ur_star is not None and 'px' in raw) else val(ur), 'gr': val(gr), 'xd0': val(xd0),
           'xmin': val(xd0) - 1.0, 'xmax': val(xd0) + 1.0}
    return NATIVE % dict(par=par, t=val(t), body=body)


def _finish(ctx, o, body):
    if o['status'] == 'refuted' and o.get('cex_raw'):
        try: o['replay'] = _native(ctx, o['cex_raw'], body)
        except Exception as e: o['replay_error'] = str(e)[:200]
    o.pop('cex_raw', None)
    return o


def at(e, X):
    return sp.sympify(e).xreplace({x: X}) if isinstance(e, sp.Basic) else sp.sympify(e)


def ob_rootspec(ctx, pid):
    """the code's star-pressure equation is the documented one: u*_R(p) - u*_L(p) from the left and right wave curves"""
    spec = spec_root(ctx.pat)
    out = []
    for sign in (1, -1):
        z, _ = alg.is_zero(ctx.res - sign * spec, cr.HYPS)
        if z:
            return [core.Obl('%s/riemann/%s/root_equation=u*R-u*L' % (pid, ctx.pat), 'discharged', 'ring-mod-laws(sympy)', 0.0,
                             goal='%s_call(p) == %s(u*_R(p) - u*_L(p)) with the documented shock / rarefaction wave curves' % (ctx.pat, '+' if sign > 0 else '-'))]
    o = core.prove_zero('%s/riemann/%s/root_equation=u*R-u*L' % (pid, ctx.pat), (ctx.res - spec) * (ctx.res + spec), cr.HYPS + [px > 0],
                        goal_text='%s_call(p) == +-(u*_R(p) - u*_L(p)): the contact has equal velocity on both sides' % ctx.pat, extra_syms=ctx.syms | {ur})
    # replay: at the solver's own star state the velocity obtained from the right wave curve differs from the one it returns
    body = r'''
xd0 = par['xd0']; sol([xd0], t0)
p_, g_, r_, u_ = float(s.prob_px) if hasattr(s, 'prob_px') else None, None, None, None
'''
    o.pop('cex_raw', None)
    if o['status'] == 'refuted': o['replay'] = None
    return [o]


def ob_jumps(ctx, pid, kinds=('S', 'C', 'Rh', 'Rt')):
    out = []
    for i, kind in enumerate(WAVES[ctx.pat]):
        if kind not in kinds: continue
        base = '%s/riemann/%s/wave%d:%s' % (pid, ctx.pat, i, kind)
        if i not in ctx.regions or (i + 1) not in ctx.regions:
            out.append(core.Obl(base + '/states', 'open', 'extraction', 0.0, detail='region paths %d/%d not identified' % (i, i + 1))); continue
        Xi = ctx.E(ctx.X[i]); W = ctx.E(ctx.V[i])
        L = {n: at(v, Xi) for n, v in ctx.fields(i).items()}; Rr = {n: at(v, Xi) for n, v in ctx.fields(i + 1).items()}
        def flux(S):
            w = S['velocity'] - W
            return (S['density'] * w, S['pressure'] + S['density'] * w ** 2, w * (S['density'] * S['specific_internal_energy'] + S['density'] * w ** 2 / 2 + S['pressure']))
        body = _native_jump(i, 'S' if kind == 'S' else ('C' if kind == 'C' else 'R'), base)
        if kind == 'S':
            for nm, a_, b_ in zip(('mass', 'momentum', 'energy'), flux(L), flux(Rr)):
                out.append(_finish(ctx, core.prove_zero('%s/rh:%s' % (base, nm), a_ - b_, ctx.hyps, goal_text='[%s flux in the shock frame] == 0 across the shock moving at d(location)/dt' % nm, extra_syms=ctx.syms), body))
        elif kind == 'C':
            out.append(_finish(ctx, core.prove_zero(base + '/contact:p', L['pressure'] - Rr['pressure'], ctx.hyps, goal_text='[p] == 0 across the contact', extra_syms=ctx.syms), body))
            out.append(_finish(ctx, core.prove_zero(base + '/contact:u', L['velocity'] - Rr['velocity'], ctx.hyps, goal_text='[u] == 0 across the contact', extra_syms=ctx.syms), body))
            out.append(_finish(ctx, core.prove_zero(base + '/contact:speed', W - L['velocity'], ctx.hyps, goal_text='contact moves with the fluid', extra_syms=ctx.syms), body))
        else:
            for n in ('pressure', 'density', 'velocity', 'specific_internal_energy'):
                out.append(_finish(ctx, core.prove_zero('%s/continuity:%s' % (base, n), L[n] - Rr[n], ctx.hyps, goal_text='%s continuous at the fan %s' % (n, 'head' if kind == 'Rh' else 'tail'), extra_syms=ctx.syms), body))
    return out


def ob_outer(ctx, pid):
    out = []
    n = len(ctx.X)
    for k, (P_, R_, U_, G_) in ((0, (pl, rl, ul, gl)), (n, (pr, rr, ctx.ur_star, gr))):
        if k not in ctx.regions: continue
        F = ctx.fields(k)
        for nm, v in (('pressure', P_), ('density', R_), ('velocity', U_), ('specific_internal_energy', P_ / ((G_ - 1) * R_))):
            out.append(_finish(ctx, core.prove_zero('%s/riemann/%s/outer%d:%s' % (pid, ctx.pat, k, nm), F[nm] - v, ctx.hyps, goal_text='outermost region carries the initial %s' % nm), None))
    return out


def ob_eos(ctx, pid):
    out = []
    c = WAVES[ctx.pat].index('C')
    for k in sorted(ctx.regions):
        g_ = gl if k <= c else gr
        F = ctx.fields(k)
        e = F['specific_internal_energy'] * (g_ - 1) * F['density'] - F['pressure']
        body = r'''
xd0 = par['xd0']; sol([xd0], t0); V = np.array(s.Vregs, dtype=float); X = xd0 + t0 * V
edges = [X[0] - 1.0] + list(X) + [X[-1] + 1.0]; k = %(k)d
xm = 0.5 * (edges[k] + edges[k + 1]); a = sol([xm], t0)
g = par['gl'] if k <= %(c)d else par['gr']
lhs = float(a['pressure'][0]); rhs = (g - 1) * float(a['density'][0]) * float(a['specific_internal_energy'][0])
print(json.dumps({'reproduced': bool(abs(lhs - rhs) > 1e-9 * max(abs(lhs), abs(rhs))), 'p': lhs, '(g-1) rho e': rhs, 'region': k, 'soln_type': str(s.soln_type)}))
''' % dict(k=k, c=c)
        out.append(_finish(ctx, core.prove_zero('%s/riemann/%s/region%d/eos:p=(gamma-1)*rho*e' % (pid, ctx.pat, k), e, ctx.hyps,
                                                goal_text='p == (gamma_%s - 1) rho e in region %d' % ('l' if k <= c else 'r', k), extra_syms=ctx.syms), body))
    return out


def fan_regions(ctx):
    w = WAVES[ctx.pat]
    return [i + 1 for i in range(len(w) - 1) if w[i] in ('Rh', 'Rt') and w[i + 1] in ('Rh', 'Rt') and {w[i], w[i + 1]} == {'Rh', 'Rt'}]


def ob_fan_pde(ctx, pid):
    out = []
    for k in fan_regions(ctx):
        if k not in ctx.regions: continue
        F = ctx.fields(k); rho, u, p, e = F['density'], F['velocity'], F['pressure'], F['specific_internal_energy']
        D = sp.diff
        specs = [('mass', D(rho, t) + u * D(rho, x) + rho * D(u, x)), ('momentum', rho * (D(u, t) + u * D(u, x)) + D(p, x)), ('energy', rho * (D(e, t) + u * D(e, x)) + p * D(u, x))]
        body = r'''
xd0 = par['xd0']; sol([xd0], t0); V = np.array(s.Vregs, dtype=float); X = xd0 + t0 * V; k = %(k)d
xm = 0.5 * (X[k - 1] + X[k]); h = 1e-5 * max(abs(X[k] - X[k - 1]), 1e-6); ht = 1e-5 * t0
def f(n, x_, t_): return float(sol([x_], t_)[n][0])
def dx(n): return (f(n, xm + h, t0) - f(n, xm - h, t0)) / (2 * h)
def dt(n): return (f(n, xm, t0 + ht) - f(n, xm, t0 - ht)) / (2 * ht)
rho, u, p, e = [f(n, xm, t0) for n in ('density', 'velocity', 'pressure', 'specific_internal_energy')]
terms = {'mass': [dt('density'), u * dx('density'), rho * dx('velocity')], 'momentum': [rho * dt('velocity'), rho * u * dx('velocity'), dx('pressure')],
         'energy': [rho * dt('specific_internal_energy'), rho * u * dx('specific_internal_energy'), p * dx('velocity')]}
bad = {n: abs(sum(v)) / (sum(abs(q) for q in v) + 1e-300) for n, v in terms.items()}
print(json.dumps({'reproduced': bool(max(bad.values()) > 1e-4), 'relative_residuals': bad, 'soln_type': str(s.soln_type)}))
''' % dict(k=k)
        # the similarity variable y of the documented fan formula is positive inside the fan: y(head) = 1, y(tail) = Y > 0, y linear in x
        left = k <= WAVES[ctx.pat].index('C')
        p0, r0, g0, u0, sg = (pl, rl, gl, ul, 1) if left else (pr, rr, gr, ctx.ur_star, -1)
        a0 = sp.sqrt(g0 * p0 / r0)
        ysp = 2 / (g0 + 1) + sg * (g0 - 1) / (a0 * (g0 + 1)) * (u0 - (x - xd0) / t)
        head, tail = (ctx.E(ctx.X[k - 1]), ctx.E(ctx.X[k])) if left else (ctx.E(ctx.X[k]), ctx.E(ctx.X[k - 1]))
        base = '%s/riemann/%s/fan%d' % (pid, ctx.pat, k)
        out.append(_finish(ctx, core.prove_zero(base + '/y(head)=1', at(ysp, head) - 1, ctx.hyps, goal_text='similarity variable y == 1 at the fan head'), None))
        out.append(_finish(ctx, core.prove_zero(base + '/y(tail)=Y', at(ysp, tail) - (px / p0) ** ((g0 - 1) / (2 * g0)), ctx.hyps, goal_text='y == (px/p0)^((g-1)/2g) > 0 at the fan tail'), None))
        out.append(core.structural(base + '/y_linear_in_x', sp.diff(ysp, x, 2) == 0, goal='y is linear in x, hence positive between tail and head'))
        out.append(_finish(ctx, core.prove_zero(base + '/density=r0*y^(2/(g-1))', rho - r0 * ysp ** (2 / (g0 - 1)), ctx.hyps + [t > 0], goal_text='fan density is the documented r0 y^(2/(g-1))', positive=[ysp]), body))
        for nm, res in specs:
            out.append(_finish(ctx, core.prove_zero('%s/riemann/%s/fan%d/pde:%s' % (pid, ctx.pat, k, nm), res, ctx.hyps + [t > 0], positive=[ysp], goal_text='Euler %s residual == 0 inside the rarefaction fan' % nm, extra_syms=ctx.syms), body))
    return out


def _native_selfsimilar():
    return _FAMILY + r"""
def check(P):
    xd0 = P['xd0']
    with contextlib.redirect_stdout(io.StringIO()): s1 = IGEOS_Solver(**P)
    xi = np.linspace(-2.2, 2.2, 45) + 0.0137
    worst = {}
    with contextlib.redirect_stdout(io.StringIO()): a = s1(xd0 + xi * 0.1, 0.1); b = s1(xd0 + xi * 0.16, 0.16)
    for n in ('pressure', 'density', 'specific_internal_energy', 'velocity'):
        worst[n] = float(np.max(np.abs(a[n] - b[n]) / (np.max(np.abs(a[n])) + 1e-12)))
    return worst, str(s1.soln_type)
res = None; tried = 0
for P in family():
    P = dict(P); P['xmin'] = P['xd0'] - 1.0; P['xmax'] = P['xd0'] + 1.0
    try: w_, t1 = check(P)
    except Exception: continue
    tried += 1
    if max(w_.values()) > 1e-3: res = {'reproduced': True, 'worst_relative_difference_between_t=0.1_and_t=0.16_on_the_same_rays': w_, 'problem': P, 'soln_type': t1, 'problems_tried': tried}; break
print(json.dumps(res or {'reproduced': False, 'problems_tried': tried}))
"""


def _with_family_replay(ctx, o, body):
    if o['status'] == 'refuted':
        try: o['replay'] = _native(ctx, o.get('cex_raw') or {}, body)
        except Exception as e: o['replay_error'] = str(e)[:200]
    o.pop('cex_raw', None)
    return o


def ob_selfsimilar(ctx, pid):
    out = []
    xi = sp.Symbol('xi', real=True)
    for k in sorted(ctx.regions):
        F = ctx.fields(k)
        for n in ('pressure', 'density', 'velocity', 'specific_internal_energy'):
            e = sp.diff(sp.sympify(F[n]).xreplace({x: xd0 + xi * t}), t)
            out.append(_with_family_replay(ctx, core.prove_zero('%s/riemann/%s/region%d/selfsimilar:%s' % (pid, ctx.pat, k, n), e, ctx.hyps, goal_text='%s depends on (x-xd0)/t only' % n), _native_selfsimilar()))
    ok = not (ctx.res.free_symbols & {x, t}) and not any(v.free_symbols & {x, t} for v in ctx.V)
    out.append(core.structural('%s/riemann/%s/selfsimilar:root_and_speeds_time_free' % (pid, ctx.pat), ok, goal='star-pressure equation and wave speeds do not depend on x or t; wave positions are xd0 + t*V'))
    for i, (X_, V_) in enumerate(zip(ctx.X, ctx.V)):
        out.append(_with_family_replay(ctx, core.prove_zero('%s/riemann/%s/selfsimilar:X%d=xd0+t*V%d' % (pid, ctx.pat, i, i), X_ - (xd0 + t * V_), [], goal_text='wave %d sits at xd0 + t*V' % i), _native_selfsimilar()))
    return out


def region_hyps(ctx, k):
    h = []
    if k > 0: h.append(ctx.E(ctx.X[k - 1]) <= x)
    if k < len(ctx.X): h.append(x <= ctx.E(ctx.X[k]))
    return h


def ob_ordering(ctx, pid):
    """wave speeds non-decreasing.  Fan head/tail pairs go through a ring identity to the closed form a0 (1-Y)(g+1)/(g-1),
    Y = (px/p0)^((g-1)/2g) in (0, 1] because px <= p0 on a rarefaction side (monotonicity of real powers, A3)."""
    out = []
    V = [ctx.E(v) for v in ctx.V]; w = WAVES[ctx.pat]
    Y = sp.Symbol('Y_fan', positive=True)
    for i in range(len(V) - 1):
        name = '%s/riemann/%s/ordering:V%d<=V%d' % (pid, ctx.pat, i, i + 1)
        if {w[i], w[i + 1]} == {'Rh', 'Rt'}:
            left = w[i] == 'Rh'
            p0, r0, g0 = (pl, rl, gl) if left else (pr, rr, gr)
            a0 = sp.sqrt(g0 * p0 / r0); ypow = (px / p0) ** ((g0 - 1) / (2 * g0))
            closed = a0 * (1 - Y) * (g0 + 1) / (g0 - 1)
            out.append(_finish(ctx, core.prove_zero(name + '/closed_form', V[i + 1] - V[i] - closed.subs(Y, ypow), ctx.hyps,
                                                    goal_text='fan width: V_tail/head difference == a0 (1-Y)(g+1)/(g-1), Y=(px/p0)^((g-1)/2g)', extra_syms=ctx.syms), None))
            out.append(_finish(ctx, core.prove_valid(name, [g0 > 1, Y <= 1], closed >= 0, goal_text='fan has non-negative width for Y in (0,1]'), None))
        else:
            d = sp.expand(V[i + 1] - V[i])
            out.append(_finish(ctx, core.prove_valid(name, ctx.hyps, d >= 0, goal_text='wave speeds non-decreasing: regions neither overlap nor leave gaps'), None))
    return out


def build():
    sc, groups, others, paths = load()
    ctxs = {pat: Ctx(sc, g) for pat, g in groups.items()}
    return sc, ctxs, others, paths


# ================================================================================================ translation validation
def translation_validation(sc, paths, K=4):
    """extracted driver/_run terms vs the real IGEOS_Solver at seeded points (px by numerical bisection of the extracted root equation)"""
    import mpmath
    syms = {pl, rl, ul, gl, pr, rr, ur, gr, xd0, x, t}
    pts = alg.sample_points(syms, cr.HYPS[:2] + [gl < 3, gr < 3], 6 * K, seed=core.SEED + 77)
    errs = []; n = 0; reqs = []; exp = []
    for pt in pts:
        if n >= K: break
        chosen = None
        for p in paths:
            root = getattr(p.run, 'root', None)
            if p.outcome != 'return' or root is None: continue
            f = sp.lambdify(px, sp.sympify(root['residual']).xreplace(pt), 'mpmath')
            hi = 10 * max(float(pt[pl]), float(pt[pr]))
            try:
                lo = mpmath.mpf('1e-12')
                if f(lo) * f(hi) > 0: continue
                pxv = mpmath.findroot(f, (lo, hi), solver='bisect', tol=1e-25, maxsteps=200)
            except Exception:
                continue
            full = dict(pt); full[px] = sp.Rational(str(mpmath.nstr(pxv, 25)))
            try:
                if all(alg.eval_cond(c, full) for c in p.pc): chosen = (p, full); break
            except Exception:
                continue
        if chosen is None: continue
        p, full = chosen; n += 1
        par = {k: float(full[v]) for k, v in (('pl', pl), ('rl', rl), ('ul', ul), ('gl', gl), ('pr', pr), ('rr', rr), ('ur', ur), ('gr', gr), ('xd0', xd0))}
        par['xmin'] = par['xd0'] - 1.0; par['xmax'] = par['xd0'] + 1.0
        reqs.append({'cls': sc.cls, 'params': par, 'points': [float(full[x])], 't': float(full[t])}); exp.append((p, full))
    if not reqs: return 0, ['no admissible sample point matched any path']
    outs = solverkit.native.batch(reqs)
    for (p, full), rq, o in zip(exp, reqs, outs):
        if not o.get('ok'):
            errs.append('real call raised %s at %s' % (o.get('exc'), rq['params'])); continue
        for nme, v in p.value.fields().items():
            mine = float(alg.numeric(sp.sympify(v), full, 25)); real = o['fields'][nme][0]
            if abs(mine - real) > 1e-7 * max(abs(mine), abs(real)) + 1e-12:
                errs.append('field %s: extracted %.12g real %.12g at %s x=%s t=%s (%s)' % (nme, mine, real, rq['params'], rq['points'], rq['t'], p.run.run_locals.get('soln_type')))
    return len(reqs), errs


# ================================================================================================ units
FAMILIES = {
    'rootspec': ob_rootspec, 'shocks': lambda c, pid: ob_jumps(c, pid, ('S',)), 'contact': lambda c, pid: ob_jumps(c, pid, ('C',)),
    'fan_edges': lambda c, pid: ob_jumps(c, pid, ('Rh', 'Rt')), 'outer': ob_outer, 'eos': ob_eos, 'fan_pde': ob_fan_pde, 'selfsimilar': ob_selfsimilar, 'ordering': ob_ordering,
}


def units(pid, families, tier):
    us = [('riemann/%s/%s' % (pat, fam), {'pat': pat, 'fam': fam}) for pat in PXREL for fam in families]
    us.append(('riemann/tv', {'pat': None, 'fam': 'tv'}))
    return us


def run_unit(pid, pat, fam, tier='quick'):
    res = {'obligations': [], 'functions': info(), 'engine_errors': [], 'assumptions': list(ASSUMPTIONS), 'tv': {'functions': 0, 'points': 0, 'mismatches': 0}}
    try:
        sc, ctxs, others, paths = build()
    except Unsupported as u:
        res['obligations'].append(core.Obl('%s/riemann/%s/extraction' % (pid, pat or 'all'), 'open', 'extraction', 0.0, detail='extraction: %s' % u)); return res
    if fam == 'tv':
        n, errs = translation_validation(sc, paths, K=4 if tier == 'quick' else 40)
        res['tv'] = {'functions': 2, 'points': n, 'mismatches': len(errs)}
        for e in errs[:3]: res['engine_errors'].append('translation validation riemann: ' + e)
        pats = sorted(ctxs)
        res['obligations'].append(core.structural('%s/riemann/patterns_extracted' % pid, pats == sorted(PXREL), detail=str(pats), goal='the four wave patterns SCS/SCR/RCS/RCR are reachable paths of driver'))
        return res
    if pat not in ctxs:
        res['obligations'].append(core.Obl('%s/riemann/%s/extraction' % (pid, pat), 'open', 'extraction', 0.0, detail='wave pattern %s not found among the paths' % pat)); return res
    try:
        res['obligations'] = FAMILIES[fam](ctxs[pat], pid)
    except Unsupported as u:
        res['obligations'].append(core.Obl('%s/riemann/%s/%s/extraction' % (pid, pat, fam), 'open', 'extraction', 0.0, detail='extraction: %s' % u))
    for o in res['obligations']: o.pop('cex_raw', None)
    return res


# ================================================================================================ symmetries (C09)
MIRROR = {'SCS': 'SCS', 'SCR': 'RCS', 'RCS': 'SCR', 'RCR': 'RCR'}


def sigma():
    """mirror substitution: exchange the states, negate velocities, reflect about the membrane"""
    return {pl: pr, pr: pl, rl: rr, rr: rl, gl: gr, gr: gl, ul: -ur, ur: -ul, x: 2 * xd0 - x}


def S(e, sub):
    return sp.sympify(e).xreplace(sub) if isinstance(e, sp.Basic) else e


def sub_simul(e, sub):
    return sp.sympify(e).subs(sub, simultaneous=True) if isinstance(e, sp.Basic) else e


def group_pc(ctx):
    """condition under which the driver selects this wave pattern: disjunction over the paths of the group of their pattern decisions
    (the float-equality side-selection decisions are dropped: generic data)"""
    alts = []
    for p in ctx.g.paths:
        cs = [c for c in pattern_pc(p, ctx.X) if not (isinstance(c, sp.Not) and isinstance(c.args[0], sp.And) and c.args[0].has(sp.Eq))]
        a_ = sp.And(*cs)
        if a_ not in alts: alts.append(a_)
    return [sp.Or(*alts)]


def ob_mirror(ctxs, pat, pid):
    out = []; a = ctxs[pat]; b = ctxs[MIRROR[pat]]; sg = sigma()
    base = '%s/riemann/%s/mirror' % (pid, pat)
    # (a) the mirrored problem has the same star-pressure equation
    rb = sub_simul(b.res, sg); done = False
    for sign in (1, -1):
        z, _ = alg.is_zero(a.res - sign * rb, cr.HYPS)
        if z:
            out.append(core.Obl(base + '/root_equation', 'discharged', 'ring-mod-laws(sympy)', 0.0, goal='%s_call of the mirrored data == %s %s_call of the original data: same star pressure' % (b.pat, '+' if sign > 0 else '-', a.pat))); done = True; break
    if not done:
        o = core.prove_zero(base + '/root_equation', (a.res - rb) * (a.res + rb), cr.HYPS + [px > 0], goal_text='star-pressure equations of a problem and its mirror image coincide', extra_syms=a.syms | {ur})
        out.append(_finish(a, o, _native_mirror()))
    # (b) classification: the mirror image of a pattern-P problem is classified as the mirrored pattern
    ca = sp.And(*group_pc(a)); cb = sp.And(*[sub_simul(c, sg) for c in group_pc(b)])
    ab = Abstraction({ul, ur}, cr.HYPS); goal_abs = ab.rel(sp.Equivalent(ca, cb))
    o = core.prove_valid(base + '/classification', cr.HYPS + ab.lemmas, goal_abs, goal_text='original data select %s  <=>  mirrored data select %s (velocity-free sub-terms abstracted, equal ones identified by the ring back end)' % (a.pat, b.pat))
    out.append(_finish(a, o, _native_mirror()))
    # (c) wave speeds negate and reverse; (d) region states mirror
    if a.sub is None:
        out.append(core.Obl(base + '/elimination', 'open', 'extraction', 0.0, detail=a.elim_error)); return out
    n = len(a.V)
    for j in range(n):
        vb = a.E(sub_simul(b.V[n - 1 - j], sg))
        out.append(_finish(a, core.prove_zero(base + '/speed%d' % j, a.E(a.V[j]) + vb, a.hyps, goal_text='V_%d of the original == -V_%d of the mirror image' % (j, n - 1 - j), extra_syms=a.syms), _native_mirror()))
    for k in sorted(a.regions):
        kb = n - k
        if kb not in b.regions:
            out.append(core.Obl(base + '/region%d' % k, 'open', 'extraction', 0.0, detail='mirror region %d not identified' % kb)); continue
        Fa = a.fields(k); Fb = {nme: a.E(sub_simul(v, sg)) for nme, v in b.regions[kb].value.fields().items()}
        for nme, sgn in (('pressure', 1), ('density', 1), ('specific_internal_energy', 1), ('velocity', -1)):
            out.append(_finish(a, core.prove_zero('%s/region%d/%s' % (base, k, nme), Fa[nme] - sgn * Fb[nme], a.hyps, goal_text='%s(x) of the original == %s%s(2 xd0 - x) of the mirror image' % (nme, '-' if sgn < 0 else '', nme),
                                                  extra_syms=a.syms), _native_mirror()))
    return out


_FAMILY = r"""
def family():
    out = [dict(par)]
    for pl_, pr_ in ((1.0, 0.1), (0.1, 1.0), (1.0, 1.0), (0.4, 0.35)):
        for ul_, ur_ in ((0.0, 0.0), (0.3, 0.0), (0.0, -0.3), (0.0, 0.3), (-0.2, 0.4), (1.0, -1.0), (-1.0, 1.0)):
            for gl_, gr_ in ((1.4, 1.4), (1.4, 5.0 / 3.0)):
                out.append(dict(par, pl=pl_, pr=pr_, rl=1.0, rr=0.125 if pr_ < pl_ else 1.0, ul=ul_, ur=ur_, gl=gl_, gr=gr_, xd0=0.5, xmin=0.0, xmax=1.0))
    return out
"""


def _native_mirror():
    return _FAMILY + r'''
def check(P):
    xd0 = P['xd0']
    m = dict(P); m.update(pl=P['pr'], pr=P['pl'], rl=P['rr'], rr=P['rl'], gl=P['gr'], gr=P['gl'], ul=-P['ur'], ur=-P['ul'])
    with contextlib.redirect_stdout(io.StringIO()): s1 = IGEOS_Solver(**P); s2 = IGEOS_Solver(**m)
    xs = np.linspace(xd0 - 0.45, xd0 + 0.45, 37) + 0.0031
    with contextlib.redirect_stdout(io.StringIO()): a = s1(np.array(xs), 0.1); b = s2(np.array(2 * xd0 - xs), 0.1)
    worst = {}
    for n, sg_ in (('pressure', 1), ('density', 1), ('specific_internal_energy', 1), ('velocity', -1)):
        d = np.abs(a[n] - sg_ * b[n]) / (np.max(np.abs(a[n])) + 1e-12); worst[n] = float(np.max(d))
    return worst, str(s1.soln_type), str(s2.soln_type)
# the verifier's counterexample first, then a fixed family of problems (replay search)
res = None; tried = 0
for P in family():
    try: w_, t1, t2 = check(P)
    except Exception: continue
    tried += 1
    if max(w_.values()) > 1e-6: res = {'reproduced': True, 'worst_relative_difference': w_, 'problem': P, 'soln_type': t1, 'mirror_soln_type': t2, 'problems_tried': tried}; break
print(json.dumps(res or {'reproduced': False, 'problems_tried': tried}))
'''


def _native_boost():
    return _FAMILY + r'''
def check(P, w=0.37):
    xd0 = P['xd0']
    m = dict(P); m.update(ul=P['ul'] + w, ur=P['ur'] + w)
    with contextlib.redirect_stdout(io.StringIO()): s1 = IGEOS_Solver(**P); s2 = IGEOS_Solver(**m)
    xs = np.linspace(xd0 - 0.45, xd0 + 0.45, 37) + 0.0031
    with contextlib.redirect_stdout(io.StringIO()): a = s1(np.array(xs), 0.1); b = s2(np.array(xs + w * 0.1), 0.1)
    worst = {}
    for n, sh in (('pressure', 0), ('density', 0), ('specific_internal_energy', 0), ('velocity', w)):
        d = np.abs(a[n] + sh - b[n]) / (np.max(np.abs(a[n])) + abs(sh) + 1e-12); worst[n] = float(np.max(d))
    return worst, str(s1.soln_type), str(s2.soln_type)
res = None; tried = 0
for P in family():
    try: w_, t1, t2 = check(P)
    except Exception: continue
    tried += 1
    if max(w_.values()) > 1e-6: res = {'reproduced': True, 'worst_relative_difference': w_, 'problem': P, 'soln_type': t1, 'boosted_soln_type': t2, 'problems_tried': tried}; break
print(json.dumps(res or {'reproduced': False, 'problems_tried': tried}))
'''


def ob_galilean(ctxs, pat, pid):
    out = []; a = ctxs[pat]; w = sp.Symbol('w_boost', real=True)
    tau = {ul: ul + w, ur: ur + w, x: x + w * t}
    base = '%s/riemann/%s/galilean' % (pid, pat)
    out.append(_finish(a, core.prove_zero(base + '/root_equation', a.res - sub_simul(a.res, tau), cr.HYPS + [px > 0], goal_text='star-pressure equation depends on ur - ul only', extra_syms=a.syms | {ur, w}), _native_boost()))
    ca = sp.And(*group_pc(a)); cb = sp.And(*[sub_simul(c, tau) for c in group_pc(a)])
    ab = Abstraction({ul, ur, w}, cr.HYPS)
    out.append(_finish(a, core.prove_valid(base + '/classification', cr.HYPS, ab.rel(sp.Equivalent(ca, cb)), goal_text='wave pattern selection is invariant under a common boost (velocity-free sub-terms abstracted)'), _native_boost()))
    # with ur eliminated: the boosted problem has ur' = ur* + w
    if a.sub is None:
        out.append(core.Obl(base + '/elimination', 'open', 'extraction', 0.0, detail=a.elim_error)); return out
    for j, V in enumerate(a.V):
        out.append(_finish(a, core.prove_zero(base + '/speed%d' % j, a.E(sub_simul(V, tau)) - a.E(V) - w, a.hyps, goal_text='wave speed %d shifts by the boost' % j, extra_syms=a.syms | {w}), _native_boost()))
    for k in sorted(a.regions):
        F = a.regions[k].value.fields()
        for nme, sh in (('pressure', 0), ('density', 0), ('specific_internal_energy', 0), ('velocity', w)):
            out.append(_finish(a, core.prove_zero('%s/region%d/%s' % (base, k, nme), a.E(sub_simul(F[nme], tau)) - a.E(F[nme]) - sh, a.hyps, goal_text='%s(x + w t) of the boosted problem == %s(x)%s' % (nme, nme, ' + w' if sh != 0 else ''),
                                                  extra_syms=a.syms | {w}), _native_boost()))
    return out


class Abstraction:
    """replace sub-terms free of the `keep` symbols by fresh symbols (equal sub-terms - proved equal by the ring back end - share a symbol),
    so that classification conditions become linear in the velocities; sound for validity (an over-approximation of the models)"""
    def __init__(self, keep, hyps):
        self.keep = set(keep); self.hyps = hyps; self.table = []; self.lemmas = []      # (expr, symbol, fingerprint)
        self.pts = alg.sample_points({pl, rl, gl, pr, rr, gr}, cr.HYPS[:2], 2, seed=5)

    def sym(self, e):
        if e.is_number: return e
        if not e.free_symbols - {pl, pr}: return e                        # keep pressure comparisons concrete
        fp = tuple(sp.N(alg.numeric(e, pt, 30), 25) for pt in self.pts)
        for ex, s_, f_ in self.table:
            if all(abs(a - b) <= sp.Float('1e-20') * (abs(a) + abs(b) + 1) for a, b in zip(fp, f_)):
                if ex == e or alg.is_zero(ex - e, self.hyps)[0]: return s_
            if all(abs(a + b) <= sp.Float('1e-20') * (abs(a) + abs(b) + 1) for a, b in zip(fp, f_)):
                if alg.is_zero(ex + e, self.hyps)[0]: return -s_
        s_ = sp.Symbol('K%d' % len(self.table), real=True); self.table.append((e, s_, fp))
        # sign lemmas of the abstracted term relative to the pressure ordering (each proved on the concrete term by z3, then usable on the abstract one)
        for hi, lo in ((pr, pl), (pl, pr)):
            et = sp.together(e)
            f_conc = sp.And(sp.Equivalent(et >= 0, hi >= lo), sp.Equivalent(et > 0, hi > lo))
            ok, _ = smt.valid(self.hyps, f_conc, 4000)
            if ok:
                self.lemmas.append(sp.And(sp.Equivalent(s_ >= 0, hi >= lo), sp.Equivalent(s_ > 0, hi > lo))); break
        else:
            bs = alg.binomial_sign(e, self.hyps)
            if bs is not None:
                sg_, b1, b2 = bs
                hi, lo = (b1, b2) if sg_ > 0 else (b2, b1)
                self.lemmas.append(sp.And(sp.Equivalent(s_ >= 0, hi >= lo), sp.Equivalent(s_ > 0, hi > lo)))
        return s_

    def rel(self, c):
        if c in (sp.true, sp.false) or isinstance(c, bool): return c
        if isinstance(c, (sp.And, sp.Or, sp.Not, sp.Equivalent)): return c.func(*[self.rel(a_) for a_ in c.args])
        if c.is_Relational:
            e = sp.expand(c.lhs - c.rhs)
            if not e.free_symbols & self.keep: 
                return c
            groups = {}
            for term in sp.Add.make_args(e):
                co, dep = term.as_independent(*self.keep, as_Add=False)
                groups[dep] = groups.get(dep, 0) + co
            tot = sum(self.sym(sp.sympify(co)) * dep for dep, co in groups.items())
            return c.func(tot, 0)
        return c
