"""Obligations over RiemannIGEOS.driver / IGEOS_Solver._run shared by C01, C02, C03, C04, C09, C10, C17, C08.

The star pressure px is the result of scipy.optimize.bisect (assumed contract A5: f_P(px) = 0).  The root equation is
linear in ur, so it is eliminated by substituting ur := ur*(px, ...): every obligation is then universally quantified over
px (with the side relations px >=/<= pl, pr of the wave pattern) instead of ur."""
import sympy as sp
from vc import core, propkit, alg, smt, extract, solverkit, repo as R
from vc.values import *
from contracts import riemann as cr
from contracts.riemann import x, t, pl, rl, ul, gl, pr, rr, ur, gr, xd0, px

PATTERNS = {'shock-contact-shock-SCS': 'SCS', 'shock-contact-rarefaction-SCR': 'SCR', 'rarefaction-contact-shock-RCS': 'RCS', 'rarefaction-contact-rarefaction-RCR': 'RCR'}
PXREL = {'SCS': [px >= pl, px >= pr], 'SCR': [px >= pl, px <= pr], 'RCS': [px <= pl, px >= pr], 'RCR': [px <= pl, px <= pr]}
WAVES = {'SCS': ['S', 'C', 'S'], 'SCR': ['S', 'C', 'Rt', 'Rh'], 'RCS': ['Rh', 'Rt', 'C', 'S'], 'RCR': ['Rh', 'Rt', 'C', 'Rt', 'Rh']}   # kind of each entry of Vregs
REFS = ['exactpack/solvers/riemann/riemann.py::RiemannIGEOS.driver', 'exactpack/solvers/riemann/ep_riemann.py::IGEOS_Solver._run',
        'exactpack/solvers/riemann/utils.py::shock', 'exactpack/solvers/riemann/utils.py::rarefaction', 'exactpack/solvers/riemann/utils.py::SCS_call',
        'exactpack/solvers/riemann/utils.py::SCR_call', 'exactpack/solvers/riemann/utils.py::RCS_call', 'exactpack/solvers/riemann/utils.py::RCR_call',
        'exactpack/solvers/riemann/utils.py::rho_p_u_rarefaction', 'exactpack/solvers/riemann/utils.py::shock_velocity', 'exactpack/solvers/riemann/utils.py::rho_star_shock',
        'exactpack/solvers/riemann/utils.py::rho_star_rarefaction', 'exactpack/solvers/riemann/utils.py::sie', 'exactpack/solvers/riemann/utils.py::sound_speed',
        'exactpack/solvers/riemann/utils.py::u_SCN', 'exactpack/solvers/riemann/utils.py::u_NCS', 'exactpack/solvers/riemann/utils.py::u_NCR', 'exactpack/solvers/riemann/utils.py::u_RCN']
ASSUMPTIONS = ["A5 scipy.optimize.bisect(f, 0, pmax) returns px in [0, pmax] with f(px) = 0 when f(0) f(pmax) <= 0 and raises ValueError otherwise",
               "A2 internal evaluation grid (linspace/append/sort) is abstracted by its generic node; every request point is a node of that grid (it is appended to it), and numpy.interp at a node returns the node value (A5)",
               "cited lemma (elementary analysis): a continuous strictly increasing function has at most one zero, and f(a) <= 0 = f(px) implies px >= a",
               "degenerate paths where the right state is bit-identical to the left state (float-equality side selection in utils.py) are listed but not covered by the jump/PDE obligations"]


# ------------------------------------------------------------------------------------------------ documented wave curves (spec)
def phi_shock(p, p0, r0, g):
    """velocity change across a shock to pressure p (Toro / LoraClavijo): (p-p0) sqrt(A/(p+B))"""
    return (p - p0) * sp.sqrt((2 / ((g + 1) * r0)) / (p + (g - 1) / (g + 1) * p0))


def phi_rare(p, p0, r0, g):
    a0 = sp.sqrt(g * p0 / r0)
    return 2 * a0 / (g - 1) * ((p / p0) ** ((g - 1) / (2 * g)) - 1)


def spec_root(pat):
    """u*_R(p) - u*_L(p) with the documented wave curves: zero at the star pressure"""
    fl = phi_shock(px, pl, rl, gl) if pat[0] == 'S' else phi_rare(px, pl, rl, gl)
    fr = phi_shock(px, pr, rr, gr) if pat[2] == 'S' else phi_rare(px, pr, rr, gr)
    return (ur + fr) - (ul - fl)


class Group:
    """all paths of one wave pattern (generic side selection)"""
    def __init__(self, pat): self.pat = pat; self.paths = []; self.loc = None; self.root = None; self.pc0 = None


def load(max_paths=3000):
    sc = cr.IGEOS
    paths = extract.run_solver(sc.cls, sc.kwargs({}), sc.pos, sc.t, hyps=sc.all_hyps(), externals=sc.externals, max_paths=max_paths)
    groups = {}; others = []
    degenerate = sp.And(sp.Eq(pr, pl), sp.Eq(rr, rl), sp.Eq(ur, ul))
    for p in paths:
        loc = getattr(p.run, 'run_locals', {})
        st = loc.get('soln_type')
        if p.outcome != 'return' or st not in PATTERNS or any(c == degenerate for c in p.pc):
            others.append(p); continue
        pat = PATTERNS[st]
        g = groups.setdefault(pat, Group(pat))
        g.paths.append(p)
        if g.loc is None:
            g.loc = loc; g.root = p.run.root
    return sc, groups, others, paths


def region_of(p, Xregs):
    """index of the region of a path: number of wave positions <= x; None when the set of satisfied conditions is not a prefix"""
    flags = []
    for X in Xregs:
        c = sp.Le(X, x)
        if any(q == c for q in p.pc): flags.append(True)
        elif any(q == sp.Not(c) or q == sp.Gt(X, x) for q in p.pc): flags.append(False)
        else: flags.append(None)
    if None in flags: return None, flags
    k = sum(flags)
    if flags != [True] * k + [False] * (len(flags) - k): return -1, flags
    return k, flags


def pattern_pc(p, Xregs):
    """the decisions of a path that select the wave pattern (everything except the region comparisons)"""
    reg = [sp.Le(X, x) for X in Xregs]
    out = []
    for c in p.pc:
        if any(c == r_ or c == sp.Not(r_) or c == sp.Gt(r_.lhs, r_.rhs) for r_ in reg): continue
        out.append(c)
    return out


def solve_ur(residual):
    a = sp.diff(residual, ur)
    if a.free_symbols or a == 0: raise Unsupported('root equation is not linear in ur with constant coefficient: d/dur = %s' % a)
    return sp.expand(-(residual - a * ur) / a)


class Ctx:
    """per-pattern data with the root equation eliminated"""
    def __init__(self, sc, g):
        self.sc = sc; self.g = g; self.pat = g.pat
        loc = g.loc
        self.res = sp.sympify(g.root['residual'])
        self.ur_star = solve_ur(self.res)
        self.sub = {ur: self.ur_star}
        self.V = [sp.sympify(v) for v in loc['Vregs'].items]
        self.X = [sp.sympify(v) for v in loc['Xregs'].items]
        self.star = {k: sp.sympify(loc[k]) for k in ('ux', 'rx1', 'rx2', 'ex1', 'ex2', 'ax1', 'ax2')}
        self.regions = {}
        for p in g.paths:
            k, flags = region_of(p, self.X)
            if k is not None and k >= 0: self.regions.setdefault(k, p)
        self.hyps = cr.HYPS + [px > 0] + PXREL[self.pat]
        self.syms = {pl, rl, ul, gl, pr, rr, gr, xd0, px, x, t}

    def E(self, e):
        """eliminate the root equation"""
        return sp.sympify(e).xreplace(self.sub) if isinstance(e, sp.Basic) else e

    def fields(self, k):
        return {n: self.E(v) for n, v in self.regions[k].value.fields().items()}


def info():
    return [{'ref': r_, 'sha256_16': R.source_hash(R.func_ref(r_))} for r_ in REFS]


def replay_point(raw):
    """counterexample (over px) -> concrete Riemann problem: ur is recovered from the root equation"""
    return raw


NATIVE = r'''
import json, io, contextlib, warnings
import numpy as np
warnings.simplefilter('ignore')
from exactpack.solvers.riemann.ep_riemann import IGEOS_Solver
par = %(par)r
t0 = %(t)r
with contextlib.redirect_stdout(io.StringIO()):
    s = IGEOS_Solver(**par)
def sol(xs, t):
    with contextlib.redirect_stdout(io.StringIO()):
        return s(np.array(xs, dtype=float), t)
%(body)s
'''


# ================================================================================================ obligations
def _native_jump(i, kind, text):
    return r'''
xd0 = par['xd0']
sol([xd0], t0); V = float(np.array(s.Vregs)[%(i)d]); X = xd0 + t0 * V
sol([xd0], t0 * 1.01); V2 = float(np.array(s.Vregs)[%(i)d]); W = ((xd0 + 1.01 * t0 * V2) - X) / (0.01 * t0)
d = 1e-7 * max(abs(X - xd0), 1e-3)
a = sol([X - d, X + d], t0)
L = {n: float(a[n][0]) for n in a.dtype.names}; Rr = {n: float(a[n][1]) for n in a.dtype.names}
def flux(S):
    w = S['velocity'] - W
    return (S['density'] * w, S['pressure'] + S['density'] * w * w, w * (S['density'] * S['specific_internal_energy'] + 0.5 * S['density'] * w * w + S['pressure']))
kind = %(kind)r
if kind == 'S':
    res = [x_ - y_ for x_, y_ in zip(flux(L), flux(Rr))]; scale = [abs(x_) + abs(y_) + 1e-300 for x_, y_ in zip(flux(L), flux(Rr))]
elif kind == 'C':
    res = [L['pressure'] - Rr['pressure'], L['velocity'] - Rr['velocity'], W - L['velocity']]; scale = [abs(L['pressure']) + 1e-300, abs(L['velocity']) + abs(W) + 1e-9, abs(W) + 1e-9]
else:
    res = [L[n] - Rr[n] for n in ('pressure', 'density', 'velocity', 'specific_internal_energy')]; scale = [abs(L[n]) + abs(Rr[n]) + 1e-9 for n in ('pressure', 'density', 'velocity', 'specific_internal_energy')]
bad = [abs(r_) / s_ for r_, s_ in zip(res, scale)]
print(json.dumps({'reproduced': bool(max(bad) > 1e-4), 'relative_residuals': bad, 'left': L, 'right': Rr, 'speed': W, 'soln_type': str(s.soln_type), 'predicate': %(text)r}))
''' % dict(i=i, kind=kind, text=text)


def _native(ctx, raw, body):
    """concrete Riemann problem for a counterexample over px: ur from the root equation (the code's own residual)"""
    pt = {}
    for s_ in ctx.syms:
        pt[s_] = sp.sympify(raw[s_.name]) if s_.name in raw else sp.Integer(1)
    val = lambda e: float(alg.numeric(e, pt, 25))
    par = {'pl': val(pl), 'rl': val(rl), 'ul': val(ul), 'gl': val(gl), 'pr': val(pr), 'rr': val(rr), 'ur': val(ctx.ur_star), 'gr': val(gr), 'xd0': val(xd0),
           'xmin': val(xd0) - 1.0, 'xmax': val(xd0) + 1.0}
    return NATIVE % dict(par=par, t=val(t), body=body)


def _finish(ctx, o, body):
    if o['status'] == 'refuted' and o.get('cex_raw'):
        try: o['replay'] = _native(ctx, o['cex_raw'], body)
        except Exception as e: o['replay_error'] = str(e)[:200]
    o.pop('cex_raw', None)
    return o


def at(e, X):
    return sp.sympify(e).xreplace({x: X}) if isinstance(e, sp.Basic) else sp.sympify(e)


def ob_rootspec(ctx, pid):
    """the code's star-pressure equation is the documented one: u*_R(p) - u*_L(p) from the left and right wave curves"""
    spec = spec_root(ctx.pat)
    out = []
    for sign in (1, -1):
        z, _ = alg.is_zero(ctx.res - sign * spec, cr.HYPS)
        if z:
            return [core.Obl('%s/riemann/%s/root_equation=u*R-u*L' % (pid, ctx.pat), 'discharged', 'ring-mod-laws(sympy)', 0.0,
                             goal='%s_call(p) == %s(u*_R(p) - u*_L(p)) with the documented shock / rarefaction wave curves' % (ctx.pat, '+' if sign > 0 else '-'))]
    o = core.prove_zero('%s/riemann/%s/root_equation=u*R-u*L' % (pid, ctx.pat), (ctx.res - spec) * (ctx.res + spec), cr.HYPS + [px > 0],
                        goal_text='%s_call(p) == +-(u*_R(p) - u*_L(p)): the contact has equal velocity on both sides' % ctx.pat, extra_syms=ctx.syms | {ur})
    # replay: at the solver's own star state the velocity obtained from the right wave curve differs from the one it returns
    body = r'''
xd0 = par['xd0']; sol([xd0], t0)
p_, g_, r_, u_ = float(s.prob_px) if hasattr(s, 'prob_px') else None, None, None, None
'''
    o.pop('cex_raw', None)
    if o['status'] == 'refuted': o['replay'] = None
    return [o]


def ob_jumps(ctx, pid, kinds=('S', 'C', 'Rh', 'Rt')):
    out = []
    for i, kind in enumerate(WAVES[ctx.pat]):
        if kind not in kinds: continue
        base = '%s/riemann/%s/wave%d:%s' % (pid, ctx.pat, i, kind)
        if i not in ctx.regions or (i + 1) not in ctx.regions:
            out.append(core.Obl(base + '/states', 'open', 'extraction', 0.0, detail='region paths %d/%d not identified' % (i, i + 1))); continue
        Xi = ctx.E(ctx.X[i]); W = ctx.E(ctx.V[i])
        L = {n: at(v, Xi) for n, v in ctx.fields(i).items()}; Rr = {n: at(v, Xi) for n, v in ctx.fields(i + 1).items()}
        def flux(S):
            w = S['velocity'] - W
            return (S['density'] * w, S['pressure'] + S['density'] * w ** 2, w * (S['density'] * S['specific_internal_energy'] + S['density'] * w ** 2 / 2 + S['pressure']))
        body = _native_jump(i, 'S' if kind == 'S' else ('C' if kind == 'C' else 'R'), base)
        if kind == 'S':
            for nm, a_, b_ in zip(('mass', 'momentum', 'energy'), flux(L), flux(Rr)):
                out.append(_finish(ctx, core.prove_zero('%s/rh:%s' % (base, nm), a_ - b_, ctx.hyps, goal_text='[%s flux in the shock frame] == 0 across the shock moving at d(location)/dt' % nm, extra_syms=ctx.syms), body))
        elif kind == 'C':
            out.append(_finish(ctx, core.prove_zero(base + '/contact:p', L['pressure'] - Rr['pressure'], ctx.hyps, goal_text='[p] == 0 across the contact', extra_syms=ctx.syms), body))
            out.append(_finish(ctx, core.prove_zero(base + '/contact:u', L['velocity'] - Rr['velocity'], ctx.hyps, goal_text='[u] == 0 across the contact', extra_syms=ctx.syms), body))
            out.append(_finish(ctx, core.prove_zero(base + '/contact:speed', W - L['velocity'], ctx.hyps, goal_text='contact moves with the fluid', extra_syms=ctx.syms), body))
        else:
            for n in ('pressure', 'density', 'velocity', 'specific_internal_energy'):
                out.append(_finish(ctx, core.prove_zero('%s/continuity:%s' % (base, n), L[n] - Rr[n], ctx.hyps, goal_text='%s continuous at the fan %s' % (n, 'head' if kind == 'Rh' else 'tail'), extra_syms=ctx.syms), body))
    return out


def ob_outer(ctx, pid):
    out = []
    n = len(ctx.X)
    for k, (P_, R_, U_, G_) in ((0, (pl, rl, ul, gl)), (n, (pr, rr, ctx.ur_star, gr))):
        if k not in ctx.regions: continue
        F = ctx.fields(k)
        for nm, v in (('pressure', P_), ('density', R_), ('velocity', U_), ('specific_internal_energy', P_ / ((G_ - 1) * R_))):
            out.append(_finish(ctx, core.prove_zero('%s/riemann/%s/outer%d:%s' % (pid, ctx.pat, k, nm), F[nm] - v, ctx.hyps, goal_text='outermost region carries the initial %s' % nm), None))
    return out


def ob_eos(ctx, pid):
    out = []
    c = WAVES[ctx.pat].index('C')
    for k in sorted(ctx.regions):
        g_ = gl if k <= c else gr
        F = ctx.fields(k)
        e = F['specific_internal_energy'] * (g_ - 1) * F['density'] - F['pressure']
        body = r'''
xd0 = par['xd0']; sol([xd0], t0); V = np.array(s.Vregs, dtype=float); X = xd0 + t0 * V
edges = [X[0] - 1.0] + list(X) + [X[-1] + 1.0]; k = %(k)d
xm = 0.5 * (edges[k] + edges[k + 1]); a = sol([xm], t0)
g = par['gl'] if k <= %(c)d else par['gr']
lhs = float(a['pressure'][0]); rhs = (g - 1) * float(a['density'][0]) * float(a['specific_internal_energy'][0])
print(json.dumps({'reproduced': bool(abs(lhs - rhs) > 1e-9 * max(abs(lhs), abs(rhs))), 'p': lhs, '(g-1) rho e': rhs, 'region': k, 'soln_type': str(s.soln_type)}))
''' % dict(k=k, c=c)
        out.append(_finish(ctx, core.prove_zero('%s/riemann/%s/region%d/eos:p=(gamma-1)*rho*e' % (pid, ctx.pat, k), e, ctx.hyps,
                                                goal_text='p == (gamma_%s - 1) rho e in region %d' % ('l' if k <= c else 'r', k), extra_syms=ctx.syms), body))
    return out


def fan_regions(ctx):
    w = WAVES[ctx.pat]
    return [i + 1 for i in range(len(w) - 1) if w[i] in ('Rh', 'Rt') and w[i + 1] in ('Rh', 'Rt') and {w[i], w[i + 1]} == {'Rh', 'Rt'}]


def ob_fan_pde(ctx, pid):
    out = []
    for k in fan_regions(ctx):
        if k not in ctx.regions: continue
        F = ctx.fields(k); rho, u, p, e = F['density'], F['velocity'], F['pressure'], F['specific_internal_energy']
        D = sp.diff
        specs = [('mass', D(rho, t) + u * D(rho, x) + rho * D(u, x)), ('momentum', rho * (D(u, t) + u * D(u, x)) + D(p, x)), ('energy', rho * (D(e, t) + u * D(e, x)) + p * D(u, x))]
        body = r'''
xd0 = par['xd0']; sol([xd0], t0); V = np.array(s.Vregs, dtype=float); X = xd0 + t0 * V; k = %(k)d
xm = 0.5 * (X[k - 1] + X[k]); h = 1e-5 * max(abs(X[k] - X[k - 1]), 1e-6); ht = 1e-5 * t0
def f(n, x_, t_): return float(sol([x_], t_)[n][0])
def dx(n): return (f(n, xm + h, t0) - f(n, xm - h, t0)) / (2 * h)
def dt(n): return (f(n, xm, t0 + ht) - f(n, xm, t0 - ht)) / (2 * ht)
rho, u, p, e = [f(n, xm, t0) for n in ('density', 'velocity', 'pressure', 'specific_internal_energy')]
terms = {'mass': [dt('density'), u * dx('density'), rho * dx('velocity')], 'momentum': [rho * dt('velocity'), rho * u * dx('velocity'), dx('pressure')],
         'energy': [rho * dt('specific_internal_energy'), rho * u * dx('specific_internal_energy'), p * dx('velocity')]}
bad = {n: abs(sum(v)) / (sum(abs(q) for q in v) + 1e-300) for n, v in terms.items()}
print(json.dumps({'reproduced': bool(max(bad.values()) > 1e-4), 'relative_residuals': bad, 'soln_type': str(s.soln_type)}))
''' % dict(k=k)
        # the similarity variable y of the documented fan formula is positive inside the fan: y(head) = 1, y(tail) = Y > 0, y linear in x
        left = k <= WAVES[ctx.pat].index('C')
        p0, r0, g0, u0, sg = (pl, rl, gl, ul, 1) if left else (pr, rr, gr, ctx.ur_star, -1)
        a0 = sp.sqrt(g0 * p0 / r0)
        ysp = 2 / (g0 + 1) + sg * (g0 - 1) / (a0 * (g0 + 1)) * (u0 - (x - xd0) / t)
        head, tail = (ctx.E(ctx.X[k - 1]), ctx.E(ctx.X[k])) if left else (ctx.E(ctx.X[k]), ctx.E(ctx.X[k - 1]))
        base = '%s/riemann/%s/fan%d' % (pid, ctx.pat, k)
        out.append(_finish(ctx, core.prove_zero(base + '/y(head)=1', at(ysp, head) - 1, ctx.hyps, goal_text='similarity variable y == 1 at the fan head'), None))
        out.append(_finish(ctx, core.prove_zero(base + '/y(tail)=Y', at(ysp, tail) - (px / p0) ** ((g0 - 1) / (2 * g0)), ctx.hyps, goal_text='y == (px/p0)^((g-1)/2g) > 0 at the fan tail'), None))
        out.append(core.structural(base + '/y_linear_in_x', sp.diff(ysp, x, 2) == 0, goal='y is linear in x, hence positive between tail and head'))
        out.append(_finish(ctx, core.prove_zero(base + '/density=r0*y^(2/(g-1))', rho - r0 * ysp ** (2 / (g0 - 1)), ctx.hyps + [t > 0], goal_text='fan density is the documented r0 y^(2/(g-1))', positive=[ysp]), body))
        for nm, res in specs:
            out.append(_finish(ctx, core.prove_zero('%s/riemann/%s/fan%d/pde:%s' % (pid, ctx.pat, k, nm), res, ctx.hyps + [t > 0], positive=[ysp], goal_text='Euler %s residual == 0 inside the rarefaction fan' % nm, extra_syms=ctx.syms), body))
    return out


def ob_selfsimilar(ctx, pid):
    out = []
    xi = sp.Symbol('xi', real=True)
    for k in sorted(ctx.regions):
        F = ctx.fields(k)
        for n in ('pressure', 'density', 'velocity', 'specific_internal_energy'):
            e = sp.diff(sp.sympify(F[n]).xreplace({x: xd0 + xi * t}), t)
            out.append(_finish(ctx, core.prove_zero('%s/riemann/%s/region%d/selfsimilar:%s' % (pid, ctx.pat, k, n), e, ctx.hyps, goal_text='%s depends on (x-xd0)/t only' % n), None))
    ok = not (ctx.res.free_symbols & {x, t}) and not any(v.free_symbols & {x, t} for v in ctx.V)
    out.append(core.structural('%s/riemann/%s/selfsimilar:root_and_speeds_time_free' % (pid, ctx.pat), ok, goal='star-pressure equation and wave speeds do not depend on x or t; wave positions are xd0 + t*V'))
    for i, (X_, V_) in enumerate(zip(ctx.X, ctx.V)):
        out.append(core.prove_zero('%s/riemann/%s/selfsimilar:X%d=xd0+t*V%d' % (pid, ctx.pat, i, i), X_ - (xd0 + t * V_), [], goal_text='wave %d sits at xd0 + t*V' % i))
    return out


def region_hyps(ctx, k):
    h = []
    if k > 0: h.append(ctx.E(ctx.X[k - 1]) <= x)
    if k < len(ctx.X): h.append(x <= ctx.E(ctx.X[k]))
    return h


def ob_ordering(ctx, pid):
    """wave speeds non-decreasing.  Fan head/tail pairs go through a ring identity to the closed form a0 (1-Y)(g+1)/(g-1),
    Y = (px/p0)^((g-1)/2g) in (0, 1] because px <= p0 on a rarefaction side (monotonicity of real powers, A3)."""
    out = []
    V = [ctx.E(v) for v in ctx.V]; w = WAVES[ctx.pat]
    Y = sp.Symbol('Y_fan', positive=True)
    for i in range(len(V) - 1):
        name = '%s/riemann/%s/ordering:V%d<=V%d' % (pid, ctx.pat, i, i + 1)
        if {w[i], w[i + 1]} == {'Rh', 'Rt'}:
            left = w[i] == 'Rh'
            p0, r0, g0 = (pl, rl, gl) if left else (pr, rr, gr)
            a0 = sp.sqrt(g0 * p0 / r0); ypow = (px / p0) ** ((g0 - 1) / (2 * g0))
            closed = a0 * (1 - Y) * (g0 + 1) / (g0 - 1)
            out.append(_finish(ctx, core.prove_zero(name + '/closed_form', V[i + 1] - V[i] - closed.subs(Y, ypow), ctx.hyps,
                                                    goal_text='fan width: V_tail/head difference == a0 (1-Y)(g+1)/(g-1), Y=(px/p0)^((g-1)/2g)', extra_syms=ctx.syms), None))
            out.append(_finish(ctx, core.prove_valid(name, [g0 > 1, Y <= 1], closed >= 0, goal_text='fan has non-negative width for Y in (0,1]'), None))
        else:
            d = sp.expand(V[i + 1] - V[i])
            out.append(_finish(ctx, core.prove_valid(name, ctx.hyps, d >= 0, goal_text='wave speeds non-decreasing: regions neither overlap nor leave gaps'), None))
    return out


def build():
    sc, groups, others, paths = load()
    ctxs = {pat: Ctx(sc, g) for pat, g in groups.items()}
    return sc, ctxs, others, paths


# ================================================================================================ translation validation
def translation_validation(sc, paths, K=4):
    """extracted driver/_run terms vs the real IGEOS_Solver at seeded points (px by numerical bisection of the extracted root equation)"""
    import mpmath
    syms = {pl, rl, ul, gl, pr, rr, ur, gr, xd0, x, t}
    pts = alg.sample_points(syms, cr.HYPS[:2] + [gl < 3, gr < 3], 6 * K, seed=core.SEED + 77)
    errs = []; n = 0; reqs = []; exp = []
    for pt in pts:
        if n >= K: break
        chosen = None
        for p in paths:
            root = getattr(p.run, 'root', None)
            if p.outcome != 'return' or root is None: continue
            f = sp.lambdify(px, sp.sympify(root['residual']).xreplace(pt), 'mpmath')
            hi = 10 * max(float(pt[pl]), float(pt[pr]))
            try:
                lo = mpmath.mpf('1e-12')
                if f(lo) * f(hi) > 0: continue
                pxv = mpmath.findroot(f, (lo, hi), solver='bisect', tol=1e-25, maxsteps=200)
            except Exception:
                continue
            full = dict(pt); full[px] = sp.Rational(str(mpmath.nstr(pxv, 25)))
            try:
                if all(alg.eval_cond(c, full) for c in p.pc): chosen = (p, full); break
            except Exception:
                continue
        if chosen is None: continue
        p, full = chosen; n += 1
        par = {k: float(full[v]) for k, v in (('pl', pl), ('rl', rl), ('ul', ul), ('gl', gl), ('pr', pr), ('rr', rr), ('ur', ur), ('gr', gr), ('xd0', xd0))}
        par['xmin'] = par['xd0'] - 1.0; par['xmax'] = par['xd0'] + 1.0
        reqs.append({'cls': sc.cls, 'params': par, 'points': [float(full[x])], 't': float(full[t])}); exp.append((p, full))
    if not reqs: return 0, ['no admissible sample point matched any path']
    outs = solverkit.native.batch(reqs)
    for (p, full), rq, o in zip(exp, reqs, outs):
        if not o.get('ok'):
            errs.append('real call raised %s at %s' % (o.get('exc'), rq['params'])); continue
        for nme, v in p.value.fields().items():
            mine = float(alg.numeric(sp.sympify(v), full, 25)); real = o['fields'][nme][0]
            if abs(mine - real) > 1e-7 * max(abs(mine), abs(real)) + 1e-12:
                errs.append('field %s: extracted %.12g real %.12g at %s x=%s t=%s (%s)' % (nme, mine, real, rq['params'], rq['points'], rq['t'], p.run.run_locals.get('soln_type')))
    return len(reqs), errs


# ================================================================================================ units
FAMILIES = {
    'rootspec': ob_rootspec, 'shocks': lambda c, pid: ob_jumps(c, pid, ('S',)), 'contact': lambda c, pid: ob_jumps(c, pid, ('C',)),
    'fan_edges': lambda c, pid: ob_jumps(c, pid, ('Rh', 'Rt')), 'outer': ob_outer, 'eos': ob_eos, 'fan_pde': ob_fan_pde, 'selfsimilar': ob_selfsimilar, 'ordering': ob_ordering,
}


def units(pid, families, tier):
    us = [('riemann/%s/%s' % (pat, fam), {'pat': pat, 'fam': fam}) for pat in PXREL for fam in families]
    us.append(('riemann/tv', {'pat': None, 'fam': 'tv'}))
    return us


def run_unit(pid, pat, fam, tier='quick'):
    res = {'obligations': [], 'functions': info(), 'engine_errors': [], 'assumptions': list(ASSUMPTIONS), 'tv': {'functions': 0, 'points': 0, 'mismatches': 0}}
    try:
        sc, ctxs, others, paths = build()
    except Unsupported as u:
        res['obligations'].append(core.Obl('%s/riemann/%s/extraction' % (pid, pat or 'all'), 'open', 'extraction', 0.0, detail='extraction: %s' % u)); return res
    if fam == 'tv':
        n, errs = translation_validation(sc, paths, K=4 if tier == 'quick' else 40)
        res['tv'] = {'functions': 2, 'points': n, 'mismatches': len(errs)}
        for e in errs[:3]: res['engine_errors'].append('translation validation riemann: ' + e)
        pats = sorted(ctxs)
        res['obligations'].append(core.structural('%s/riemann/patterns_extracted' % pid, pats == sorted(PXREL), detail=str(pats), goal='the four wave patterns SCS/SCR/RCS/RCR are reachable paths of driver'))
        return res
    if pat not in ctxs:
        res['obligations'].append(core.Obl('%s/riemann/%s/extraction' % (pid, pat), 'open', 'extraction', 0.0, detail='wave pattern %s not found among the paths' % pat)); return res
    try:
        res['obligations'] = FAMILIES[fam](ctxs[pat], pid)
    except Unsupported as u:
        res['obligations'].append(core.Obl('%s/riemann/%s/%s/extraction' % (pid, pat, fam), 'open', 'extraction', 0.0, detail='extraction: %s' % u))
    for o in res['obligations']: o.pop('cex_raw', None)
    return res
