"""C03 - thermodynamic fields returned together satisfy the problem's equation of state."""
import sympy as sp
from vc import core, propkit, alg
from vc.values import *
from contracts import hydro
from props import riemann_kit as rk

LEVEL = 'proof'
EXPLANATION = ("Each obligation is the declared EOS relation between the *returned* fields (resolved through the names=[...] list of the real "
               "ExactSolution call) on one path of one solver for one geometry, universally quantified over the symbolic parameters, point and time.")
ASSUMPTIONS = []

# documented gamma of the fixed-gamma Coggeshall problems (module docstrings)
DOC_GAMMA = {
    'cog3': lambda k: sp.Rational(k - 1, k + 1), 'cog5': lambda k: sp.Rational(1, 2), 'cog6': lambda k: sp.Rational(k + 3, k + 1),
    'cog7': lambda k: sp.Rational(k + 3, k + 1), 'cog18': lambda k: sp.Rational(k + 3, k + 1), 'cog21': lambda k: sp.Integer(5),
}


def eos_spec(sc, case):
    """list of (label, residual over abstract fields, text)"""
    names = None
    if sc.key in ('noh', 'noh2'):
        F = propkit.Fields(['density', 'pressure', 'specific_internal_energy'], [sc.pos, sc.t])
        g = sc.params['gamma']
        return F, [('p=(gamma-1)*rho*e', F['pressure'] - (g - 1) * F['density'] * F['specific_internal_energy'])]
    F = propkit.Fields(['density', 'pressure', 'specific_internal_energy', 'temperature'], [sc.pos, sc.t])
    k = case.get('geometry', 3) - 1
    g = sc.params.get('gamma')
    if sc.key in DOC_GAMMA: g = DOC_GAMMA[sc.key](k)
    G = sc.params.get('Gamma', sp.Integer(1))
    out = [('p=Gamma*rho*T', F['pressure'] - G * F['density'] * F['temperature']),
           ('e=Gamma*T/(gamma-1)', F['specific_internal_energy'] * (g - 1) - G * F['temperature']),
           ('p=(gamma-1)*rho*e', F['pressure'] - (g - 1) * F['density'] * F['specific_internal_energy'])]
    return F, out


def per_path(sc, case, i, p, base):
    out = []
    if p.outcome != 'return' or not isinstance(p.value, Solution):
        return [core.Obl(base + '/returns', 'refuted', 'path-analysis', 0.0, goal='in-domain call returns a solution', detail='path %s: %s' % (p.outcome, p.exc), cex=None)]
    actual = p.value.fields()
    F, specs = eos_spec(sc, case)
    hyps = sc.all_hyps(case) + list(p.pc)
    for label, res in specs:
        name = 'C03/%s/eos:%s' % (base, label)
        missing = [n for n in F.f if res.has(F.f[n]) and n not in actual]
        if missing:
            out.append(core.Obl(name, 'refuted', 'structural', 0.0, goal=label, detail='returned solution has no field(s) %s' % missing, cex=None)); continue
        e = propkit.instantiate(res, F, actual)
        mk = lambda pt, res=res, label=label: propkit.replay_script(sc, case, res, F, pt, label, tol=1e-9)
        o = core.prove_zero(name, e, hyps, goal_text=label + '  on ' + ' & '.join(str(c) for c in p.pc)[:120], extra_syms=sc.symbols(), positive=sc.positive.get(sc.case_name(case), []))
        out.append(propkit.finish(o, lambda raw, mk=mk: mk(propkit.sym_point(sc, raw))))
    return out


def units(tier):
    us = []
    for key, sc in hydro.SOLVERS.items():
        for case in sc.cases:
            us.append(('%s/%s' % (key, sc.case_name(case)), {'key': key, 'case': case, 'tier': tier}))
    us += [(n, dict(k, tier=tier, riemann=True)) for n, k in rk.units('C03', ['eos'], tier)]
    us.append(('guderley', {'gud': True}))
    us.append(('sedov', {'sedov': True}))
    us.append(('sdrz', {'sdrz': True}))
    us += [('ep_piston/%s' % m_, {'piston': m_, 'tier': tier}) for m_ in ('hypo', 'hyperIfin', 'hyperFin')]
    us.append(('rmtv', {'rmtv': True}))
    us += [('radshock/' + c_, {'radshock': c_}) for c_ in ('ED_Solver', 'nED_Solver', 'Sn_Solver', 'ie_Solver')]
    us.append(('ehep', {'ehep': True}))
    return us


def run_unit(name, key=None, case=None, tier='quick', riemann=False, pat=None, fam=None, ehep=False, gud=False, sedov=False, sdrz=False, radshock=None, rmtv=False, piston=None):
    if piston:
        from props import piston_eos_kit
        return piston_eos_kit.unit({'model': piston}, tier)
    if rmtv:
        from props import rmtv_kit
        return rmtv_kit.unit_eos()
    if radshock:
        from props import c12
        return c12.unit_eos(radshock)
    if sdrz:
        from props import sdrz_kit
        return sdrz_kit.unit('C03')
    if sedov:
        from props import sedov_kit
        return sedov_kit.unit_eos()
    if gud:
        from props import guderley_kit
        return guderley_kit.unit('C03')
    if ehep:
        from props import ehep_kit
        return ehep_kit.unit('C03')
    if riemann: return rk.run_unit('C03', pat, fam, tier)
    sc = hydro.SOLVERS[key]
    return propkit.solver_unit(sc, case, per_path, tier)
