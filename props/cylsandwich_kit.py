"""Cylindrical sandwich (heat conduction in a quarter annulus): the term of the double series, the radial eigenfunction and the static part under contract.
Mechanical extraction (every run): the statements of the innermost loop body of CylindricalSandwich._run from `Rnm = ...` to `tmp = ...` (the two
array look-ups `alphanm = alphax[n, m]`, `betanm = betax[n, m]` are replaced by symbols), the static-part statement, and the statement of alpha() that defines beta.
Bessel functions J_nu, Y_nu are uninterpreted functions with the derivative rule Z_nu' = (nu/z) Z_nu - Z_(nu+1) and the recurrence Z_(nu+2) = (2(nu+1)/z) Z_(nu+1) - Z_nu
(both hold for J and Y); scipy.special.jn / yn are mapped to them."""
import ast
import sympy as sp
from vc import core, extract, sx, repo as R
from vc.values import *

SRC = 'exactpack/solvers/heat/cylindrical_sandwich.py'; KEY = 'exactpack.solvers.heat.cylindrical_sandwich:CylindricalSandwich'


class BJ(sp.Function):
    nargs = 2
    def fdiff(self, argindex=2):
        nu, z = self.args; return nu / z * BJ(nu, z) - BJ(nu + 1, z)


class BY(sp.Function):
    nargs = 2
    def fdiff(self, argindex=2):
        nu, z = self.args; return nu / z * BY(nu, z) - BY(nu + 1, z)


r, th, t, al, kap, a, b = sp.symbols('r theta t alpha_nm kappa a b', positive=True); be = sp.Symbol('beta_nm', real=True)
T0, T1 = sp.symbols('T0 T1', real=True); j = sp.Symbol('j', integer=True, positive=True); k = 2 * j; m = sp.Symbol('m', integer=True, nonnegative=True)
Q = sp.Symbol('Q_rR', real=True)


def to_basis(e):
    """express every Z_(k+i), i = -1, 2 by Z_k and Z_(k+1)"""
    def fix(q):
        d = sp.simplify(q.args[0] - k); z = q.args[1]; F = q.func
        if d == 0 or d == 1: return q
        if d == 2: return 2 * (k + 1) / z * F(k + 1, z) - F(k, z)
        if d == -1: return 2 * k / z * F(k, z) - F(k + 1, z)
        return q
    return e.replace(lambda q: isinstance(q, (BJ, BY)), fix)


def numeric_nonzero(e, extra=None):
    """refutation for identities over the uninterpreted Bessel atoms: evaluate with the real Bessel functions at three points"""
    conc = e.replace(lambda q: isinstance(q, BJ), lambda q: sp.besselj(*q.args)).replace(lambda q: isinstance(q, BY), lambda q: sp.bessely(*q.args))
    pts = [{r: 0.53, th: 0.41, t: 0.17, al: 3.7, kap: 0.8, a: 0.25, b: 0.85, be: 0.6, T0: 0.3, T1: 1.2, j: 1, m: 2, Q: 0.9}, {r: 0.31, th: 1.1, t: 0.05, al: 7.9, kap: 1.7, a: 0.2, b: 0.9, be: -1.3, T0: 0.0, T1: 0.7, j: 2, m: 1, Q: 0.4}]
    for P_ in pts:
        if extra: P_ = dict(P_, **extra)
        terms = [abs(complex(sp.N(q.subs(P_), 30))) for q in sp.Add.make_args(sp.expand(conc))]
        v = abs(complex(sp.N(conc.subs(P_), 30)))
        if v > 1e-12 * (sum(terms) + 1e-300): return {str(s_): float(v_) for s_, v_ in P_.items()}, float(v)
    return None, 0.0


def zero(name, e, text, replay=None):
    e = to_basis(sp.expand(e))
    o = core.prove_zero(name, e, [], goal_text=text)
    if o['status'] == 'open':
        cex, v = numeric_nonzero(e)
        if cex is not None:
            o = core.Obl(name, 'refuted', 'exact-evaluation(bessel)', o.get('time_s', 0.0), goal=text, cex=cex, detail='value %.6g at the point (real Bessel functions, 30 digits)' % v, replay=replay)
    if o['status'] == 'refuted' and replay and not o.get('replay'): o['replay'] = replay
    o.pop('cex_raw', None); return o


NATIVE = r"""
import json, io, contextlib, warnings
import numpy as np
warnings.simplefilter('ignore')
from exactpack.solvers.heat import CylindricalSandwich
kap = 0.8
with contextlib.redirect_stdout(io.StringIO()): s = CylindricalSandwich(Nsum=1, Msum=2, kappa=kap)
def T(r, th, t):
    with contextlib.redirect_stdout(io.StringIO()): return float(s([np.array([r]), np.array([th])], t)['temperature'][0])
worst = 0.0
for (r0, th0, t0) in ((0.5, 0.4, 0.02), (0.62, 0.9, 0.05)):
    h = 1e-3; ht = 1e-5
    Tt = (T(r0, th0, t0 + ht) - T(r0, th0, t0 - ht)) / (2 * ht)
    lap = (T(r0 + h, th0, t0) - 2 * T(r0, th0, t0) + T(r0 - h, th0, t0)) / h ** 2 + (T(r0 + h, th0, t0) - T(r0 - h, th0, t0)) / (2 * h * r0) + (T(r0, th0 + h, t0) - 2 * T(r0, th0, t0) + T(r0, th0 - h, t0)) / (h * r0) ** 2
    worst = max(worst, abs(Tt - kap * lap) / (abs(Tt) + abs(kap * lap) + 1e-300))
print(json.dumps({'reproduced': bool(worst > 1e-3), 'relative residual of T_t = kappa Laplacian(T) (Nsum=1, Msum=2, kappa=0.8)': worst}))
"""


BC_NATIVE = r"""
import json, io, contextlib, warnings
import numpy as np
warnings.simplefilter('ignore')
from exactpack.solvers.heat import CylindricalSandwich
with contextlib.redirect_stdout(io.StringIO()): s = CylindricalSandwich(Nsum=2, Msum=2, T0=0.4, T1=1.3)
with contextlib.redirect_stdout(io.StringIO()): v = [float(s([np.array([r0]), np.array([np.pi / 2])], 0.3)['temperature'][0]) for r0 in (0.3, 0.6)]
print(json.dumps({'reproduced': bool(max(abs(q - 1.3) for q in v) > 1e-6), 'T(r, theta=pi/2, t=0.3) with T0=0.4, T1=1.3 (documented boundary value T1)': v}))
"""


INIT_NATIVE = r"""
import json, io, contextlib, warnings
import numpy as np
warnings.simplefilter('ignore')
from exactpack.solvers.heat import CylindricalSandwich
with contextlib.redirect_stdout(io.StringIO()): s = CylindricalSandwich(Nsum=20, Msum=30, T0=0.4, T1=1.0)
vals = {}
for (r0, th0) in ((0.5, 0.7), (0.4, 0.3), (0.7, 1.2), (0.6, 1.0)):
    with contextlib.redirect_stdout(io.StringIO()): vals['r=%s theta=%s' % (r0, th0)] = float(s([np.array([r0]), np.array([th0])], 0.0)['temperature'][0])
print(json.dumps({'reproduced': bool(max(abs(v) for v in vals.values()) > 0.1), 'T(r, theta, t=0) with T0=0.4, T1=1 (documented initial condition: 0; truncation error at Nsum=20 is below 0.08)': vals}))
"""


def unit():
    res = {'obligations': [], 'functions': [], 'engine_errors': []}; O = res['obligations']
    for mth in ('_run', 'alpha', 'R', 'bc_solve'):
        res['functions'].append({'ref': '%s::CylindricalSandwich.%s' % (SRC, mth), 'sha256_16': R.source_hash(R.func_ref('%s::CylindricalSandwich.%s' % (SRC, mth)))})
    fv = R.func_ref(SRC + '::CylindricalSandwich._run')
    inner = [n for n in ast.walk(fv.node) if isinstance(n, ast.For) and not any(isinstance(c, ast.For) for c in ast.walk(n) if c is not n)]
    stat = [n for n in fv.node.body if isinstance(n, ast.Assign) and isinstance(n.targets[0], ast.Name) and n.targets[0].id == 'tempnonhom']
    if len(inner) != 1 or len(stat) != 1:
        O.append(core.Obl('C14/cylsandwich/extraction', 'open', 'extraction', 0.0, detail='%d innermost loops, %d static statements' % (len(inner), len(stat)))); return res
    body = [n for n in inner[0].body if not (isinstance(n, ast.Assign) and isinstance(n.targets[0], ast.Name) and n.targets[0].id in ('alphanm', 'betanm')) and not isinstance(n, ast.AugAssign)]
    ext = {'scipy.special.jn': lambda I, a_, k_: BJ(sp.sympify(a_[0]), sp.sympify(a_[1])), 'scipy.special.yn': lambda I, a_, k_: BY(sp.sympify(a_[0]), sp.sympify(a_[1])),
           'scipy.integrate.quad': lambda I, a_, k_: Vec([Q, sp.Integer(0)])}
    obj = Obj(KEY, {'a': a, 'b': b, 'T0': T0, 'T1': T1, 'kappa': kap})
    def thunk(run):
        I = sx.Interp(run, externals=ext); env = sx.Env(fv.module, None, fv)
        env.locals.update({'self': obj, 'r': r, 'theta': th, 't': t, 'k': k, 'm': m, 'n': j - 1, 'alphanm': al, 'betanm': be, 'dTinRun': sx.Callable(lambda I_, a_, k_: None)})
        I.block(stat, env); I.block(body, env)
        return env.locals['tmp'], env.locals['tempnonhom'], env.locals.get('Anm'), env.locals.get('Tnm'), env.locals.get('Rnm')
    try:
        ps = [p for p in sx.explore(thunk, hyps=[], feas=extract.default_feas) if p.outcome == 'return']
        if len(ps) != 1: raise Unsupported('%d paths of the loop body' % len(ps))
    except Unsupported as u_:
        O.append(core.Obl('C14/cylsandwich/extraction', 'open', 'extraction', 0.0, detail=str(u_)[:300])); return res
    tmp, stat_v, Anm, Tnm, Rnm = [sp.sympify(q) if q is not None else None for q in ps[0].value]
    lap = lambda F: sp.diff(F, r, 2) + sp.diff(F, r) / r + sp.diff(F, th, 2) / r ** 2
    O.append(zero('C14/cylsandwich/term:pde', sp.diff(tmp, t) - kap * lap(tmp), 'each term of the double series satisfies T_t = kappa (T_rr + T_r/r + T_theta,theta/r^2)', NATIVE))
    O.append(zero('C14/cylsandwich/term:bc_theta=0', tmp.subs(th, 0), 'each term vanishes at theta = 0'))
    O.append(zero('C14/cylsandwich/term:bc_theta=pi/2', tmp.subs(th, sp.pi / 2), 'each term vanishes at theta = pi/2 (k = 2(n+1) is even)'))
    O.append(zero('C14/cylsandwich/static:laplace', lap(stat_v), 'the static part is harmonic'))
    O.append(zero('C14/cylsandwich/static:bc_theta=0', stat_v.subs(th, 0) - T0, 'static part equals T0 at theta = 0'))
    O.append(zero('C14/cylsandwich/static:bc_theta=pi/2', stat_v.subs(th, sp.pi / 2) - T1, 'static part equals T1 at theta = pi/2 (documented boundary condition T(r, pi/2, t) = T1)', BC_NATIVE))
    O.append(zero('C14/cylsandwich/static:insulated_radially', sp.diff(stat_v, r), 'static part has no radial flux'))
    # radial eigenfunction: beta as defined in alpha() makes R'(a) = 0; R'(b) = 0 is the root equation bc_solve(alpha) = 0
    fa = R.func_ref(SRC + '::CylindricalSandwich.alpha')
    bst = [n for n in ast.walk(fa.node) if isinstance(n, ast.Assign) and ast.unparse(n.targets[0]).replace(' ', '') == 'betax[n,m]']
    fb = R.func_ref(SRC + '::CylindricalSandwich.bc_solve')
    try:
        def thunk2(run):
            I = sx.Interp(run, externals=ext); env = sx.Env(fa.module, None, fa); env.locals.update({'k': k, 'a': a, 'b': b, 'alphanm': al}); return I.eval(bst[0].value, env)
        beta_code = sp.sympify([p for p in sx.explore(thunk2, hyps=[], feas=extract.default_feas) if p.outcome == 'return'][0].value)
        Fp = extract.run_function(SRC + '::CylindricalSandwich.bc_solve', [al, k, a, b], hyps=[], externals=ext)
        Fcode = sp.sympify([p for p in Fp if p.outcome == 'return'][0].value)
        Rr = Rnm.subs(be, beta_code)
        dR = sp.diff(Rr, r)
        O.append(zero('C14/cylsandwich/radial:insulated_at_a', dR.subs(r, a) * (BY(k + 1, al * a) - BY(k - 1, al * a)), "R'(a) = 0 with the beta computed by alpha()"))
        den = (BY(k + 1, al * a) - BY(k - 1, al * a))
        O.append(zero('C14/cylsandwich/radial:insulated_at_b=root_equation', (dR.subs(r, b) * den / al) ** 2 - (2 * Fcode) ** 2,
                       "R'(b) (Y_(k+1)(alpha a) - Y_(k-1)(alpha a)) / alpha == +-2 bc_solve(alpha): the eigenvalue equation solved by Newton is the insulated condition at r = b"))
    except Exception as e_:
        O.append(core.Obl('C14/cylsandwich/radial/extraction', 'open', 'extraction', 0.0, detail=str(e_)[:300]))
    # Fourier-Bessel coefficient: projection of the initial profile -(2 T1 theta/pi) on sin(k theta) R(r), weight r; int r R^2 dr = [(r^2 - k^2/alpha^2) R^2 / 2]_a^b for insulated ends
    if Tnm is not None and Rnm is not None:
        Ra, Rb = Rnm.subs(r, a), Rnm.subs(r, b)
        norm = ((b ** 2 - k ** 2 / al ** 2) * Rb ** 2 - (a ** 2 - k ** 2 / al ** 2) * Ra ** 2) / 2
        # projection of -(static part) = -(T0 + 2 (T1 - T0) theta/pi) on sin(k theta), k = 2 j:  (4/(pi k)) (T1 (-1)^j - T0)
        want = (4 / (sp.pi * k)) * (T1 * (-1) ** j - T0) * Q / norm
        O.append(zero('C14/cylsandwich/coefficient:projection', (Tnm - want) * norm * sp.sympify(Anm), 'T_nm == (4/(pi k)) (T1 (-1)^(k/2) - T0) int_a^b r R dr / int_a^b r R^2 dr: the projection of the documented initial condition T = 0 minus the static part', INIT_NATIVE))
    return res
