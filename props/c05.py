"""C05 - every solver honours the uniform call/return contract of the ExactPack API."""
import ast, json
import sympy as sp
from vc import core, extract, sx, smt, repo as R, native
from vc.values import *

LEVEL = 'proof'
UNIT_TIMEOUT = {'quick': 1500, 'thorough': 3600}
EXPLANATION = ("Exhaustive over the class table dumped from the real package: (1) constructor contract - for every solver class the real constructor chain is executed symbolically with one representative of every "
               "equivalence class of keyword names (a fresh name; every parameter/attribute name known somewhere in the hierarchy but not in the class's own `parameters`): all paths raise ValueError; a parameter without "
               "default raises ValueError when omitted; (2) structural postcondition of every `return ExactSolution(data, names=...)` reachable from `_run` (ast): as many names as data entries, leading entries are the "
               "position argument (or its columns) under the standard position names, other names are strings; dict-built name lists are followed through insertion order; (3) frame: the position argument and its aliases "
               "are never the target of a subscript store, augmented assignment, in-place method or out= argument, transitively through repository functions it is passed to; (4) base.py __call__/ExactSolution.__new__/dump shape. "
               "Bounded stand-in (run time, not proof): real calls on every default-constructible class: list/tuple/ndarray equivalence, input unchanged, N records, CSV round trip.")
ASSUMPTIONS = ["A5 numpy.asarray / numpy.rec.fromarrays(data, names) / csv + float repr round trip behave as documented",
               "'N records in the order given' is proved only as far as every field is built element-wise from the request points (A2 map schema, checked by the executor for the solvers under contract in C01-C15); "
               "for grid+interpolation solvers it rests on the assumed contract of numpy.interp/interp1d and on the bounded check",
               "frame analysis is syntactic with alias tracking through simple assignments (q = p, q = p[...] views are treated as aliases); mutation through an alias created inside an external library call is not modelled"]
INPLACE_METHODS = {'sort', 'fill', 'resize', 'put', 'itemset', 'partition', 'setfield', 'byteswap', 'setflags', '__setitem__', '__iadd__', '__isub__', '__imul__'}
VIEW_FUNCS = {'asarray', 'ravel', 'reshape', 'squeeze', 'transpose', 'atleast_1d', 'atleast_2d', 'view'}
STD_POS = {'position', 'position_x', 'position_y', 'position_z'}


def solver_classes():
    ct = R.class_table()['classes']
    return [k for k, c in sorted(ct.items()) if 'exactpack.base:ExactSolver' in c['mro'] and k != 'exactpack.base:ExactSolver']


# ------------------------------------------------------------------------------------------------ frame analysis
def names_in(node):
    return {n.id for n in ast.walk(node) if isinstance(n, ast.Name)}


def root_name(node):
    while isinstance(node, (ast.Subscript, ast.Attribute, ast.Call)):
        node = node.func if isinstance(node, ast.Call) else node.value
    return node.id if isinstance(node, ast.Name) else None


def frame_scan(fv, pname, depth=0, seen=None):
    """violations: list of (lineno, description).  fv: FuncVal, pname: parameter holding (an alias of) the caller's point array"""
    seen = seen if seen is not None else set()
    key = (fv.module.modname, fv.name, pname)
    if key in seen or depth > 3: return []
    seen.add(key)
    aliases = {pname}; viol = []
    body = fv.node.body
    for _ in range(3):       # alias fixpoint
        for n in ast.walk(fv.node):
            if isinstance(n, ast.Assign) and len(n.targets) == 1 and isinstance(n.targets[0], ast.Name):
                v = n.value
                if isinstance(v, ast.Name) and v.id in aliases: aliases.add(n.targets[0].id)
                elif isinstance(v, ast.Subscript) and root_name(v) in aliases and not isinstance(v.slice, ast.Constant): aliases.add(n.targets[0].id)   # slices are views
                elif isinstance(v, ast.Call):
                    fn = v.func.attr if isinstance(v.func, ast.Attribute) else getattr(v.func, 'id', '')
                    if fn in VIEW_FUNCS and ((v.args and root_name(v.args[0]) in aliases) or (isinstance(v.func, ast.Attribute) and root_name(v.func.value) in aliases)):
                        aliases.add(n.targets[0].id)
                elif isinstance(v, ast.Attribute) and v.attr in ('T', 'real', 'flat') and root_name(v) in aliases: aliases.add(n.targets[0].id)
    # a name re-bound to a fresh value before use stops being an alias only if *every* binding is fresh: keep it simple and conservative (aliases only grow),
    # except for the common idiom  p = np.array(p) / p.copy()  which re-binds the parameter itself to a copy at the top of the function
    rebound = set()
    for n in body[:6]:
        if isinstance(n, ast.Assign) and len(n.targets) == 1 and isinstance(n.targets[0], ast.Name) and n.targets[0].id in aliases and isinstance(n.value, ast.Call):
            fn = n.value.func.attr if isinstance(n.value.func, ast.Attribute) else getattr(n.value.func, 'id', '')
            if fn in ('array', 'copy', 'deepcopy', 'sorted', 'list'): rebound.add(n.targets[0].id)
    for n in ast.walk(fv.node):
        ln = getattr(n, 'lineno', 0)
        if isinstance(n, (ast.Assign, ast.AugAssign, ast.AnnAssign)):
            targets = n.targets if isinstance(n, ast.Assign) else [n.target]
            for t in targets:
                for tt in (t.elts if isinstance(t, (ast.Tuple, ast.List)) else [t]):
                    if isinstance(tt, ast.Subscript) and root_name(tt) in aliases - rebound:
                        viol.append((ln, 'element store into %s (alias of the request points)' % root_name(tt)))
                    if isinstance(n, ast.AugAssign) and isinstance(tt, ast.Name) and tt.id in aliases - rebound:
                        viol.append((ln, 'augmented assignment %s %s= ... operates in place on the request points' % (tt.id, type(n.op).__name__)))
        if isinstance(n, ast.Call):
            if isinstance(n.func, ast.Attribute) and n.func.attr in INPLACE_METHODS and root_name(n.func.value) in aliases - rebound:
                viol.append((ln, 'in-place method %s.%s()' % (root_name(n.func.value), n.func.attr)))
            for kw in n.keywords:
                if kw.arg == 'out' and root_name(kw.value) in aliases - rebound: viol.append((ln, 'out=%s' % root_name(kw.value)))
            # transitive: the array is passed to a repository function / method
            callee = None
            if isinstance(n.func, ast.Attribute) and isinstance(n.func.value, ast.Name) and n.func.value.id == 'self' and fv.cls_key:
                callee = R.find_method(fv.cls_key, n.func.attr); off = 1
            elif isinstance(n.func, ast.Name) and n.func.id in fv.module.funcs:
                callee = FuncVal(fv.module.funcs[n.func.id], fv.module, None, name=n.func.id); off = 0
            elif isinstance(n.func, ast.Attribute) and n.func.attr in ('driver',) :
                callee = None
            if callee is not None:
                params = [a.arg for a in callee.node.args.args][off:]
                for i, a in enumerate(n.args):
                    if isinstance(a, ast.Name) and a.id in aliases - rebound and i < len(params):
                        viol += [(l2, '%s -> %s: %s' % (fv.name, callee.name, d)) for l2, d in frame_scan(callee, params[i], depth + 1, seen)]
    return sorted(set(viol))


# ------------------------------------------------------------------------------------------------ return structure
def literal_list(node, env):
    if isinstance(node, (ast.List, ast.Tuple)):
        out = []
        for e in node.elts:
            if isinstance(e, ast.Constant) and isinstance(e.value, str): out.append(e.value)
            else: return None
        return out
    if isinstance(node, ast.Name) and node.id in env and isinstance(env[node.id], list): return list(env[node.id])
    return None


def dict_order(fn, dname):
    """insertion order of the string keys of dict `dname` built by straight-line code and loops over literal lists"""
    env = {}; order = []
    def add(k):
        if k not in order: order.append(k)
    def run(stmts):
        for s in stmts:
            if isinstance(s, ast.Assign) and len(s.targets) == 1:
                t = s.targets[0]
                if isinstance(t, ast.Name):
                    ll = literal_list(s.value, env)
                    if ll is not None: env[t.id] = ll
                    if t.id == dname:
                        order.clear()
                        if isinstance(s.value, ast.Dict):
                            for k in s.value.keys:
                                if isinstance(k, ast.Constant): add(k.value)
                        elif isinstance(s.value, ast.Call):
                            for kw in s.value.keywords:
                                if kw.arg: add(kw.arg)
                if isinstance(t, ast.Subscript) and root_name(t) == dname and isinstance(t.value, ast.Name):
                    k = t.slice
                    if isinstance(k, ast.Constant): add(k.value)
                    elif isinstance(k, ast.Name) and k.id in env and isinstance(env[k.id], str): add(env[k.id])
                    else: return False
            elif isinstance(s, ast.For) and isinstance(s.target, ast.Name):
                ll = literal_list(s.iter, env)
                if ll is None:
                    if any(isinstance(q, ast.Subscript) and root_name(q) == dname and isinstance(q.ctx, ast.Store) and isinstance(q.value, ast.Name) for q in ast.walk(s)): return False
                    continue
                for v in ll:
                    env[s.target.id] = v
                    if run(s.body) is False: return False
            elif isinstance(s, (ast.If, ast.With, ast.Try)):
                for blk in (getattr(s, 'body', []), getattr(s, 'orelse', [])):
                    if run(blk) is False: return False
        return True
    ok = run(fn.body)
    return order if ok else None


def return_scan(fv, pname):
    """structural facts about every `return ExactSolution(...)` of the function. returns list of (lineno, ok, detail)"""
    out = []
    for n in ast.walk(fv.node):
        if isinstance(n, ast.Return) and isinstance(n.value, ast.Call) and getattr(n.value.func, 'id', getattr(n.value.func, 'attr', None)) == 'ExactSolution':
            c = n.value
            data = c.args[0] if c.args else next((k.value for k in c.keywords if k.arg == 'data'), None)
            names = c.args[1] if len(c.args) > 1 else next((k.value for k in c.keywords if k.arg == 'names'), None)
            nl = literal_list(names, {}) if names is not None else None
            if nl is None and isinstance(names, ast.Call) and isinstance(data, ast.Call):
                # names=list(d.keys()), data=d.values()
                dn = root_name(names.args[0]) if names.args else None
                dd = root_name(data)
                if dn and dn == dd:
                    order = dict_order(fv.node, dn)
                    if order is None: out.append((n.lineno, None, 'name list built dynamically from dict %s: order not determined' % dn)); continue
                    pos_first = bool(order) and order[0] in STD_POS
                    out.append((n.lineno, pos_first, 'names from dict insertion order %s' % order)); continue
            if nl is None or not isinstance(data, (ast.List, ast.Tuple)):
                out.append((n.lineno, None, 'data/names are not literal lists')); continue
            if len(nl) != len(data.elts): out.append((n.lineno, False, '%d data entries but %d names' % (len(data.elts), len(nl)))); continue
            # column aliases:  x = p[:, 0] ; x, y = p[:, 0], p[:, 1] ...
            colalias = {}
            for q in ast.walk(fv.node):
                if isinstance(q, ast.Assign) and len(q.targets) == 1:
                    pairs = []
                    if isinstance(q.targets[0], ast.Name): pairs = [(q.targets[0], q.value)]
                    elif isinstance(q.targets[0], ast.Tuple) and isinstance(q.value, ast.Tuple) and len(q.targets[0].elts) == len(q.value.elts): pairs = list(zip(q.targets[0].elts, q.value.elts))
                    for tg, vl in pairs:
                        if isinstance(tg, ast.Name) and isinstance(vl, ast.Subscript) and root_name(vl) == pname:
                            sl = ast.unparse(vl.slice).replace(' ', '').strip('()')
                            if sl.startswith(':,') and sl[2:].isdigit(): colalias[tg.id] = int(sl[2:])
                            elif sl.isdigit(): colalias[tg.id] = int(sl)        # list-of-arrays convention: p[0], p[1] are the coordinate arrays
            def col_of(d):
                if isinstance(d, ast.Name) and d.id == pname: return 'all'
                if isinstance(d, ast.Name) and d.id in colalias: return colalias[d.id]
                if isinstance(d, ast.Subscript) and root_name(d) == pname and isinstance(d.value, ast.Name):
                    sl = ast.unparse(d.slice).replace(' ', '').strip('()')
                    if sl.startswith(':,') and sl[2:].isdigit(): return int(sl[2:])
                return None
            lead = []
            for i, d in enumerate(data.elts):
                cc = col_of(d)
                if cc is None: break
                lead.append(cc)
            okpos = True; det = ''
            if not lead: okpos = False; det = 'the first field %s (%s) is not the position argument %s' % (nl[0], ast.unparse(data.elts[0]), pname)
            elif lead != ['all'] and lead != list(range(len(lead))): okpos = False; det = 'leading fields are not the columns of %s in order: %s' % (pname, lead)
            else:
                want = ['position'] if lead == ['all'] else None
                for i in range(len(lead)):
                    nm = nl[i]
                    if lead == ['all'] and nm != 'position': okpos = False; det = 'the 1-d position field is named %r, the standard name is position' % nm
                    elif lead != ['all'] and not (nm in STD_POS or nm.startswith('position_') or nm.startswith('angle_')): okpos = False; det = 'position column %d is named %r (standard: position_x/y/z or a documented position_* coordinate)' % (i, nm)
                for i, nm in enumerate(nl):
                    if nm in STD_POS and i >= len(lead): okpos = False; det = 'standard position name %r labels a field that is not the position argument' % nm
            if len(set(nl)) != len(nl): okpos = False; det = 'duplicate field names %s' % nl
            out.append((n.lineno, okpos, det or 'names %s' % nl))
    return out


def class_unit(k):
    res = {'obligations': [], 'functions': [], 'engine_errors': []}
    O = res['obligations']; ct = R.class_table()['classes']; c = ct[k]; short = k.replace('exactpack.solvers.', '')
    base = 'C05/%s' % short
    # ---- constructor contract (symbolic execution of the real constructor chain)
    own = set(c['parameters'] or [])
    known = set()
    for m in c['mro']:
        if m in ct:
            known |= set(ct[m]['parameters'] or []); known |= {a for a in ct[m]['attrs'] if not a.startswith('_')}
    reps = ['no_such_parameter_'] + sorted(n for n in known - own if n not in ('parameters', 'verbose'))[:12]
    bad = []
    initf = R.find_method(k, '__init__'); req = {}
    if initf is not None:
        a_ = initf.node.args; nd = len(a_.defaults)
        for q in [x.arg for x in a_.args][1:len(a_.args) - nd if nd else None]:
            if q == 'equation_of_state':
                from props import c16; req[q] = c16.abstract_eos()
            elif q == 'initial_conditions': req[q] = {'velocity': sp.Integer(-1), 'density': sp.Integer(1), 'pressure': sp.Integer(0), 'symmetry': sp.Integer(0)}
            else: req[q] = Opaque('required-argument')
    for name in reps:
        try:
            kw_ = dict(req); kw_[name] = sp.Integer(1)
            ps = extract.run_ctor(k, kw_, max_paths=60)
            if not ps: bad.append((name, 'no path')); continue
            for p in ps:
                if not (p.outcome == 'raise' and p.exc == 'ValueError'): bad.append((name, '%s %s' % (p.outcome, p.exc))); break
        except Unsupported as u:
            # the raise of the base constructor was not reached before unsupported code: decide on the base-class call order instead
            bad.append((name, 'undecided: %s' % str(u)[:80]))
    und = [b for b in bad if b[1].startswith('undecided')]; real = [b for b in bad if not b[1].startswith('undecided')]
    if real:
        O.append(core.Obl(base + '/ctor:unknown_parameter_raises_ValueError', 'refuted', 'symbolic-execution', 0.0, goal='every keyword outside the class own `parameters` raises ValueError', detail=str(real)[:300],
                          cex={'class': k, 'keyword': real[0][0]}, replay=CTOR_NATIVE % dict(mod=k.split(':')[0], cls=k.split(':')[1], kw=real[0][0])))
    elif und:
        O.append(core.Obl(base + '/ctor:unknown_parameter_raises_ValueError', 'open', 'extraction', 0.0, detail=str(und)[:300]))
    else:
        O.append(core.Obl(base + '/ctor:unknown_parameter_raises_ValueError', 'discharged', 'symbolic-execution', 0.0, goal='keywords %s (one per equivalence class of names) all raise ValueError on every path' % reps))
    nodef = [p for p in own if not any(m in ct and p in ct[m]['attrs'] for m in c['mro'])]
    if nodef:
        try:
            ps = extract.run_ctor(k, dict(req), max_paths=60)
            ok = bool(ps) and all((p.outcome == 'raise' and p.exc == 'ValueError') or (p.outcome == 'return' and all(q in p.value.attrs for q in nodef)) for p in ps)
            O.append(core.structural(base + '/ctor:missing_parameter_raises_ValueError', ok, goal='omitting %s (no class-level default) raises ValueError unless the constructor itself supplies the documented default' % nodef, backend='symbolic-execution',
                                     replay=CTOR_NATIVE % dict(mod=k.split(':')[0], cls=k.split(':')[1], kw='')))
        except Unsupported as u:
            O.append(core.Obl(base + '/ctor:missing_parameter_raises_ValueError', 'open', 'extraction', 0.0, detail=str(u)[:200]))
    # ---- _run: frame + return structure (for the class that defines _run; wrappers inherit it)
    fv = R.find_method(k, '_run')
    if fv is None:
        O.append(core.structural(base + '/_run:defined', False, goal='solver class has a _run method')); return res
    if '_run' in c['own_methods']:
        res['functions'].append({'ref': '%s::%s' % (fv.module.path.replace(R.REPO + '/', ''), fv.name), 'sha256_16': R.source_hash(fv)})
        params = [a.arg for a in fv.node.args.args]
        if len(params) < 3:
            O.append(core.structural(base + '/_run:signature', False, goal='_run(self, points, t)', detail=str(params))); return res
        pname = params[1]
        v = frame_scan(fv, pname)
        O.append(core.Obl(base + '/frame:input_not_modified', 'discharged' if not v else 'refuted', 'ast-frame-analysis', 0.0, goal='the request points (argument %s) and their aliases are never written' % pname,
                          detail=str(v)[:400], cex={'class': k, 'sites': v[:3]} if v else None, replay=FRAME_NATIVE % dict(mod=k.split(':')[0], cls=k.split(':')[1]) if v else None))
        rs = return_scan(fv, pname)
        if not rs:
            # _run delegates to the _run of its base class and returns that solution (fields may be rescaled in place, names and order untouched)
            src_ = ast.unparse(fv.node)
            deleg = any(isinstance(q, ast.Call) and isinstance(q.func, ast.Attribute) and q.func.attr == '_run' and isinstance(q.func.value, ast.Call) and getattr(q.func.value.func, 'id', '') == 'super' for q in ast.walk(fv.node))
            if deleg: O.append(core.structural(base + '/return:structure', True, goal='_run returns the solution of the base class _run (structure inherited)', backend='ast-structural'))
            else: O.append(core.Obl(base + '/return:structure', 'open', 'extraction', 0.0, detail='no literal `return ExactSolution(...)` in _run'))
        for ln, ok, det in rs:
            nm = base + '/return:structure@%d' % (ln - fv.node.lineno)
            if ok is None: O.append(core.Obl(nm, 'open', 'extraction', 0.0, detail=det))
            else:
                O.append(core.Obl(nm, 'discharged' if ok else 'refuted', 'ast-structural', 0.0, goal='len(data)==len(names); leading field(s) are the unmodified position argument under the standard names', detail=det,
                                  cex={'class': k, 'line': ln, 'detail': det} if not ok else None, replay=RET_NATIVE % dict(mod=k.split(':')[0], cls=k.split(':')[1]) if not ok else None))
    return res


CTOR_NATIVE = r'''
import json, io, contextlib, importlib
C = getattr(importlib.import_module(%(mod)r), %(cls)r)
kw = {%(kw)r: 1} if %(kw)r else {}
try:
    with contextlib.redirect_stdout(io.StringIO()): C(**kw)
    print(json.dumps({'reproduced': True, 'observed': 'constructor accepted %%r' %% (kw,)}))
except ValueError as e:
    print(json.dumps({'reproduced': False, 'observed': 'ValueError'}))
except Exception as e:
    print(json.dumps({'reproduced': True, 'observed': type(e).__name__ + ': ' + str(e)[:100]}))
'''
FRAME_NATIVE = r'''
import json, io, contextlib, importlib, warnings
import numpy as np
warnings.simplefilter('ignore')
C = getattr(importlib.import_module(%(mod)r), %(cls)r)
import inspect
def pts(dim, n=5): return np.linspace(0.31, 0.87, n) if dim == 1 else np.column_stack([np.linspace(0.31 + 3 * j, 0.87 + 3 * j, n) for j in range(dim)])
res = {'reproduced': False, 'tried': []}
for kw in ({}, {'x_d': (1.5, -0.5)}, {'x_d': (1.5, -0.5, 0.25), 'geometry': 3}, {'geometry': 3}):
    for dim in (1, 2, 3):
        try:
            with contextlib.redirect_stdout(io.StringIO()): s = C(**kw)
            p = pts(dim); q = p.copy()
            with contextlib.redirect_stdout(io.StringIO()): s(p, 0.6)
            res['tried'].append((str(kw), dim))
            if not np.array_equal(p, q): res = {'reproduced': True, 'kwargs': str(kw), 'dim': dim, 'input_before': q.tolist()[:2], 'input_after': p.tolist()[:2]}; break
        except Exception: continue
    if res['reproduced']: break
print(json.dumps(res))
'''
RET_NATIVE = r'''
import json, io, contextlib, importlib, warnings
import numpy as np
warnings.simplefilter('ignore')
C = getattr(importlib.import_module(%(mod)r), %(cls)r)
out = {'reproduced': False}
for dim in (1, 2, 3):
    try:
        with contextlib.redirect_stdout(io.StringIO()): s = C()
        p = np.linspace(0.31, 0.87, 5) if dim == 1 else np.column_stack([np.linspace(0.31, 0.87, 5)] * dim)
        with contextlib.redirect_stdout(io.StringIO()): r = s(p, 0.6)
        names = list(r.dtype.names)
        lead = names[:dim] if dim > 1 else names[:1]
        ok = (names[0] in ('position', 'position_x')) and (np.array_equal(r[names[0]], p if dim == 1 else p[:, 0]))
        out = {'reproduced': not ok, 'names': names}; break
    except Exception as e:
        out = {'reproduced': False, 'exception': str(e)[:100]}
print(json.dumps(out))
'''


# ------------------------------------------------------------------------------------------------ base.py
def base_unit():
    res = {'obligations': [], 'functions': [], 'engine_errors': []}
    O = res['obligations']; m = R.load_module('exactpack.base')
    src = lambda n: ast.unparse(n).replace(' ', '')
    es = m.classes['ExactSolver']; fn = {n.name: n for n in es.body if isinstance(n, ast.FunctionDef)}
    for n in ('__init__', '__call__'):
        fv = R.find_method('exactpack.base:ExactSolver', n); res['functions'].append({'ref': 'exactpack/base.py::ExactSolver.' + n, 'sha256_16': R.source_hash(fv)})
    call = src(fn['__call__'])
    O.append(core.structural('C05/base/__call__:dispatch', 'returnself._run(numpy.asarray(r),t)' in call, goal='__call__(r, t) returns self._run(numpy.asarray(r), t): list/tuple/array inputs become equal arrays (A5), an ndarray is passed through unchanged',
                             detail=ast.unparse(fn['__call__'].body[-1])))
    # __init__ on an abstract two-parameter class: symbolic execution of the real body with concrete key sets
    init = R.find_method('exactpack.base:ExactSolver', '__init__')
    def run(params, attrs, kwargs):
        def thunk(run_):
            I = sx.Interp(run_)
            o = Obj('exactpack.base:ExactSolver', dict(attrs)); o.attrs['parameters'] = {p: 'doc' for p in params}
            I.call_func(init, [o], dict(kwargs)); return o
        return sx.explore(thunk, hyps=[], feas=extract.default_feas)
    v = sp.Symbol('v', real=True)
    cases = [('unknown_key', ['a', 'b'], {'a': 1, 'b': 2}, {'c': v}, 'ValueError'), ('missing_value', ['a', 'b'], {'a': 1}, {}, 'ValueError'), ('all_defaults', ['a', 'b'], {'a': 1, 'b': 2}, {}, None),
             ('override', ['a', 'b'], {'a': 1, 'b': 2}, {'b': v}, None), ('supplied_missing', ['a', 'b'], {'a': 1}, {'b': v}, None)]
    for nm, params, attrs, kw, exp in cases:
        ps = run(params, attrs, kw)
        if exp: ok = bool(ps) and all(p.outcome == 'raise' and p.exc == exp for p in ps)
        else: ok = bool(ps) and all(p.outcome == 'return' and all(p.value.attrs.get(k_) == v_ for k_, v_ in kw.items()) for p in ps)
        O.append(core.structural('C05/base/__init__:%s' % nm, ok, goal='ExactSolver.__init__ on parameters=%s class attrs=%s kwargs=%s -> %s' % (params, sorted(attrs), sorted(kw), exp or 'instance attributes set'), backend='symbolic-execution'))
    sol = m.classes['ExactSolution']; sfn = {n.name: n for n in sol.body if isinstance(n, ast.FunctionDef)}
    new = src(sfn['__new__'])
    O.append(core.structural('C05/base/ExactSolution.__new__', 'numpy.rec.fromarrays(data,names=names).view(cls)' in new, goal='record array built by numpy.rec.fromarrays(data, names=names): field i is a copy of data[i] under names[i] (A5)'))
    dump = src(sfn['dump'])
    O.append(core.structural('C05/base/ExactSolution.dump', 'writer.writerow(self.dtype.names)' in dump and 'writer.writerows(self)' in dump, goal='dump writes the header of field names then one csv row per record in order (float repr round trip, A5)'))
    return res


# ------------------------------------------------------------------------------------------------ bounded run-time contract check
BOUNDED = r'''
import json, io, contextlib, importlib, warnings, os, tempfile, csv, signal
import numpy as np
warnings.simplefilter('ignore')
classes = %(classes)r
class Alarm(BaseException): pass
FIRED = [False]
def handler(*a):
    FIRED[0] = True          # the exception may be swallowed inside a SciPy callback: the flag is authoritative
    raise Alarm()
signal.signal(signal.SIGALRM, handler)
fails = []; done = 0; skipped = []
for key in classes:
    mod, cls = key.split(':'); FIRED[0] = False; nfail = len(fails)
    try:
        C = getattr(importlib.import_module(mod), cls)
        signal.alarm(%(per)d)
        with contextlib.redirect_stdout(io.StringIO()): s = C()
        r = None
        for dim in (1, 2, 3):
            base = np.array([0.61, 0.23, 0.87, 0.23, 0.45]) if dim == 1 else np.column_stack([np.array([0.61, 0.23, 0.87, 0.23, 0.45]) * (3.1 + j) for j in range(dim)])
            for t in (0.6, 0.05):
                try:
                    p = base.copy()
                    with contextlib.redirect_stdout(io.StringIO()): r = s(p, t)
                    break
                except Exception: r = None
            if r is not None: break
        if r is None: skipped.append(key); signal.alarm(0); continue
        names = list(r.dtype.names); n = len(base)
        if len(r) != n: fails.append((key, 'records %%d != %%d' %% (len(r), n)))
        if not np.array_equal(p, base): fails.append((key, 'input array modified'))
        lead = names[0] if dim == 1 else names[:dim]
        if dim == 1:
            if names[0] != 'position' or not np.array_equal(np.asarray(r['position'], dtype=float), base): fails.append((key, 'first field is not the positions passed: %%s' %% names))
        else:
            for j in range(dim):
                if not np.array_equal(np.asarray(r[names[j]], dtype=float), base[:, j]): fails.append((key, 'field %%s is not column %%d of the points' %% (names[j], j)))
        with contextlib.redirect_stdout(io.StringIO()):
            rl = s(base.tolist(), t); rt = s(tuple(map(tuple, base)) if dim > 1 else tuple(base.tolist()), t)
        for nme in names:
            a, b, c = r[nme], rl[nme], rt[nme]
            if a.dtype.kind in 'fiu' and not (np.array_equal(a, b, equal_nan=True) and np.array_equal(a, c, equal_nan=True)): fails.append((key, 'list/tuple/array disagree in %%s' %% nme)); break
        fd, fn = tempfile.mkstemp(suffix='.csv'); os.close(fd)
        try:
            r.dump(fn); rows = list(csv.reader(open(fn)))
            if rows[0] != names or len(rows) != n + 1: fails.append((key, 'csv header/rows'))
            else:
                for i, row in enumerate(rows[1:]):
                    for nme, cell in zip(names, row):
                        v = r[nme][i]
                        if isinstance(v, (float, np.floating)) and not (float(cell) == float(v) or (float(cell) != float(cell) and v != v)): fails.append((key, 'csv round trip %%s' %% nme)); break
        finally: os.remove(fn)
        done += 1; signal.alarm(0)
    except Alarm: skipped.append(key + ' (timeout)')
    except Exception as e: skipped.append(key + ' (' + type(e).__name__ + ')'); signal.alarm(0)
    if FIRED[0]:
        del fails[nfail:]
        if not any(q.startswith(key) for q in skipped): skipped.append(key + ' (timeout)')
print(json.dumps({'reproduced': bool(fails), 'failures': fails[:10], 'classes_checked': done, 'skipped': skipped}))
'''


def bounded_unit(chunk, idx, tier):
    r_ = native.run_script(BOUNDED % dict(classes=chunk, per=25 if tier == 'quick' else 300), timeout=3000)
    out = {'obligations': [], 'functions': [], 'engine_errors': [], 'bounded': []}
    if r_.get('result') is None:
        out['engine_errors'].append('bounded check did not run: ' + (r_.get('stderr_tail') or '')[-300:]); return out
    rr = r_['result']; known_bad = []
    fails = rr.get('failures', [])
    byc = {}
    for k, d in fails: byc.setdefault(k, []).append(d)
    for k in chunk:
        out['bounded'].append({'name': 'C05/bounded/%s' % k.replace('exactpack.solvers.', ''), 'status': 'fail' if k in byc else 'pass', 'evaluations': 3, 'bound': '1 parameter set (defaults) x 5 points (unsorted, with a duplicate) x {ndarray, list, tuple}',
                               'tolerance': 'exact', 'detail': '; '.join(byc.get(k, []))[:300] or ('skipped: not default-callable' if any(s_.startswith(k) for s_ in rr.get('skipped', [])) else ''),
                               'replay': BOUNDED % dict(classes=[k], per=300) if k in byc else None})
    return out


def units(tier):
    cl = solver_classes()
    n = 16; us = []
    for i in range(n):       # bounded native chunks first: they are the slowest units
        chunk = cl[i::n]
        if chunk: us.append(('bounded/%d' % i, {'kind': 'bounded', 'chunk': chunk, 'idx': i, 'tier': tier}))
    us += [('base', {'kind': 'base'})] + [('class/%s' % k.replace('exactpack.solvers.', ''), {'kind': 'class', 'k': k}) for k in cl]
    return us


def run_unit(name, kind, k=None, chunk=None, idx=None, tier='quick'):
    if kind == 'base': return base_unit()
    if kind == 'class': return class_unit(k)
    return bounded_unit(chunk, idx, tier)
