"""Mader rare(): relational obligations shared by C08 (change of units) and C10 (self-similarity with dx proportional to t)."""
import sympy as sp
from vc import core, extract, smt, repo as R
from vc.values import *

REF = 'exactpack/solvers/mader/rarefaction.py::rare'
t, x, dx, p, d, up = sp.symbols('time xlab dx p_cj d_cj u_piston', real=True); gam = sp.Symbol('gam', positive=True)
HY = [t > 0, dx > 0, p > 0, d > 0, gam > 1]
NATIVE = r"""
import json
from exactpack.solvers.mader.rarefaction import rare
A = %(a)r; B = %(b)r; fac = %(fac)r
ra = rare(*A)[:4]; rb = rare(*B)[:4]
bad = {n: [float(u_), float(v_), f] for n, u_, v_, f in zip(('u', 'p', 'c', 'rho'), ra, rb, fac) if abs(v_ - f * u_) > 1e-9 * max(abs(v_), abs(f * u_), 1e-300)}
print(json.dumps({'reproduced': bool(bad), 'mismatch (original, transformed, expected factor)': bad, 'call': A, 'transformed_call': B}))
"""


def paths():
    return [q for q in extract.run_function(REF, [t, x, dx, p, d, gam, up], hyps=HY) if q.outcome == 'return']


def unit(pid):
    res = {'obligations': [], 'functions': [{'ref': REF, 'sha256_16': R.source_hash(R.func_ref(REF))}], 'engine_errors': []}; O = res['obligations']
    try: ps = paths()
    except Unsupported as u_:
        O.append(core.Obl('%s/mader/extraction' % pid, 'open', 'extraction', 0.0, detail=str(u_)[:300])); return res
    if pid == 'C10':
        k = sp.Symbol('k_sim', positive=True)
        sub = {t: k * t, x: k * x, dx: k * dx}; fac = {'u': 1, 'p': 1, 'c': 1, 'rho': 1}
        what = 'rare(k t, k x, k dx, ...) == rare(t, x, dx, ...): a function of x/t and dx/t only'
        num = lambda P: ([P[s_] for s_ in (t, x, dx, p, d, gam, up)], [P[t] * 1.7, P[x] * 1.7, P[dx] * 1.7, P[p], P[d], P[gam], P[up]], [1, 1, 1, 1])
    else:
        lM, lL, lT = sp.symbols('lambda_M lambda_L lambda_T', positive=True)
        sub = {t: t * lT, x: x * lL, dx: dx * lL, p: p * lM / (lL * lT ** 2), d: d * lL / lT, up: up * lL / lT}
        fac = {'u': lL / lT, 'p': lM / (lL * lT ** 2), 'c': lL / lT, 'rho': lM / lL ** 3}
        what = 'change of units (M, L, T): every output scales with the monomial of its dimension'
        num = lambda P: ([P[s_] for s_ in (t, x, dx, p, d, gam, up)], [P[t] * 3, P[x] * 2, P[dx] * 2, P[p] * 5 / (2 * 9), P[d] * 2 / 3, P[gam], P[up] * 2 / 3], [2 / 3, 5 / 18, 2 / 3, 5 / 8])
    W = {t: 6.25e-6, x: 2.2, dx: 0.05, p: 3.0e11, d: 8.0e5, gam: 3.0, up: 1.0e4}
    for i, q in enumerate(ps):
        vals = dict(zip(('u', 'p', 'c', 'rho'), [sp.sympify(v) for v in q.value[:4]])); h = HY + list(q.pc)
        a_, b_, f_ = num(W)
        nat = NATIVE % dict(a=a_, b=b_, fac=f_)
        for n, v in vals.items():
            o = core.prove_zero('%s/mader/path%d/%s' % (pid, i, n), v.subs(sub, simultaneous=True) - fac[n] * v, h, goal_text='%s: %s' % (n, what))
            if o['status'] == 'refuted':
                o['replay'] = nat
                if o.get('cex_raw'):
                    try:
                        P_ = {s_: float(sp.sympify(o['cex_raw'].get(s_.name, W[s_]))) for s_ in W}
                        if pid == 'C10':
                            kk = float(sp.sympify(o['cex_raw'].get('k_sim', 1.7)))
                            o['replay'] = NATIVE % dict(a=[P_[s_] for s_ in (t, x, dx, p, d, gam, up)], b=[P_[t] * kk, P_[x] * kk, P_[dx] * kk, P_[p], P_[d], P_[gam], P_[up]], fac=[1, 1, 1, 1])
                        else:
                            a2, b2, f2 = num(P_); o['replay'] = NATIVE % dict(a=a2, b=b2, fac=f2)
                    except Exception: pass
            o.pop('cex_raw', None); O.append(o)
        # the branch taken is the same for the transformed request
        rels = []
        def atoms_of(c):
            if isinstance(c, sp.Basic) and c.is_Relational: return [c]
            if isinstance(c, (sp.And, sp.Or, sp.Not)): return [a for z in c.args for a in atoms_of(z)]
            return []
        for c in q.pc:
            for a in atoms_of(c):
                if a not in rels: rels.append(a)
        for j, rel in enumerate(rels):
            o = core.prove_valid('%s/mader/path%d/cond%d' % (pid, i, j), HY + [k > 0] if pid == 'C10' else HY, sp.Equivalent(rel, rel.subs(sub, simultaneous=True)), goal_text='branch condition %d is invariant under the transformation' % j)
            if o['status'] == 'refuted': o['replay'] = nat
            o.pop('cex_raw', None); O.append(o)
    if len(ps) != 3: O.append(core.structural('%s/mader/paths' % pid, False, '%d returning paths' % len(ps), None, 'path-analysis', 'fan, transition cell and constant state'))
    return res


def unit_cj():
    """C02: the Taylor wave of rare() at the documented gamma = 3, in the limit of vanishing cell width: it starts from the Chapman-Jouguet state
    (u, p, c, rho) = (D/4, p_cj, 3D/4, 16 p_cj/(3 D^2)) at the position that rare() treats as the detonation front (xlab = 0) and joins the constant piston state at its tail."""
    res = {'obligations': [], 'functions': [{'ref': REF, 'sha256_16': R.source_hash(R.func_ref(REF))}], 'engine_errors': []}; O = res['obligations']
    hy = [t > 0, dx > 0, p > 0, d > 0, up > -d / 2, up <= d / 4]
    try: ps = [q for q in extract.run_function(REF, [t, x, dx, p, d, sp.Integer(3), up], hyps=hy) if q.outcome == 'return']
    except Unsupported as u_:
        O.append(core.Obl('C02/mader/extraction', 'open', 'extraction', 0.0, detail=str(u_)[:300])); return res
    xdet = d * t - x; um = -d / 4; xp = 2 * t * (up - um)
    fan = [q for q in ps if smt.valid(hy + list(q.pc), sp.And(sp.Abs(xdet - xp) > dx / 10, xdet > xp))[0] is True]
    O.append(core.structural('C02/mader/fan_path', len(fan) == 1, '%d fan paths' % len(fan), None, 'path-analysis', 'exactly one path of rare() serves the interior of the Taylor wave'))
    if len(fan) != 1: return res
    vals = dict(zip(('u', 'p', 'c', 'rho'), [sp.sympify(v) for v in fan[0].value[:4]]))
    lim = {n: sp.limit(v, dx, 0) for n, v in vals.items()}
    K = 1 + (up - d / 4) / (3 * d / 4); rcj = sp.Rational(16, 3) * p / d ** 2
    cj = {'u': d / 4, 'p': p, 'c': 3 * d / 4, 'rho': rcj}; const = {'u': up, 'p': p * K ** 3, 'c': 3 * d / 4 * K, 'rho': rcj * K}
    for n in vals:
        O.append(core.prove_zero('C02/mader/head:%s=CJ' % n, lim[n].subs(x, 0) - cj[n], hy, goal_text='%s at the head of the Taylor wave (cell width -> 0) is the Chapman-Jouguet value' % n))
        O.append(core.prove_zero('C02/mader/tail:%s=constant_state' % n, lim[n].subs(x, d * t - xp) - const[n], hy, goal_text='%s at the tail of the Taylor wave (cell width -> 0) joins the constant piston state' % n))
    for o in O: o.pop('cex_raw', None)
    return res
