"""C11 - Sedov: energy behind the shock equals the blast energy; mass is conserved."""
import ast, json
import sympy as sp
from vc import core, extract, smt, alg, native, sx, repo as R
from vc.values import *

LEVEL = 'proof'
SRC = 'exactpack/solvers/sedov/sedov.py'; KEY = 'exactpack.solvers.sedov.sedov:Sedov'
EXPLANATION = ("Deductive on the real Sedov class, for geometry 1, 2, 3 by exhaustive case split and symbolic gamma, omega, rho0, eblast, t: the real constructor is executed symbolically (quad replaced by its contract: EVAL1, EVAL2 are the integrals of efun01, efun02 over "
               "[vmin, v2]); on every constructor path of type standard / vacuum the real sedov_funcs_standard, efun01, efun02, physical and the shock-state prefix of _run are executed and the following are proved: "
               "dlamdv is d lambda / dv; lambda = f = g = h = 1 at v = v2 (the shock); [energy density of the returned fields] x [volume element] x dr/dv == (eblast/alpha) c_j (efun01/2 + efun02/(gamma-1)) pointwise in v, and alpha == c_j (EVAL1/2 + EVAL2/(gamma-1)) "
               "with c_j = 1, 2 pi, 4 pi - hence the energy between the inner limit and the shock is eblast at every time; the mass integrand is the exact v-derivative of rho r^j (1 - xg2 v/2)/(j - omega) (a closed-form mass integral of the coded functions), "
               "which equals rho0 r2^(j-omega)/(j-omega) = initial mass inside r2 at the shock and vanishes at the inner limit (origin / vacuum boundary); the Sedov energy integral (flux of energy through a surface of constant lambda vanishes) holds for the coded f, g, h. "
               "Singular type: closed forms integrated exactly at v2 = vstar. Ahead of the shock: the undisturbed state. Bounded stand-in (labelled): numerical integration of the fields returned at user points.")
ASSUMPTIONS = ["A5 scipy.integrate.quad(f, a, b) is the integral of f over [a, b]; A6 fundamental theorem of calculus / change of variable r = r2 lambda(v)",
               "the value returned at a user point is the similarity solution at that point: the per-radius root find (fminbound), its early-exit tolerance and the linear interpolation back to user points are numerical and covered by the bounded check only",
               "measure-zero / thin parameter sets are excluded: special singularities |denom2| <= 1e-4, |denom3| <= 1e-4 (omega2, omega3 branches) and, for the singular type, the band 0 < |v2 - vstar| <= 1e-4 where the closed form is used as an approximation (proved at v2 = vstar)",
               "interior of the similarity range: the 1e-30 / 1e-12 clamps of sedov_funcs_standard inactive and the four power bases x1..x4 positive (definedness, cf. C20)"]

gam, om, rho0, eb = sp.symbols('gamma omega rho0 eblast', positive=True)
E1, E2 = sp.symbols('EVAL1 EVAL2', positive=True)
v = sp.Symbol('v', positive=True); t = sp.Symbol('t', positive=True)
CJ = {1: sp.Integer(1), 2: 2 * sp.pi, 3: 4 * sp.pi}


def ctor_paths(j, box):
    def quad(I, a, k):
        f = a[0]; nm = f.func.name if isinstance(f, BoundMethod) else getattr(f, 'name', '?')
        box.setdefault('calls', []).append((nm, sp.sympify(a[1]), sp.sympify(a[2])))
        return Vec([E1 if 'efun01' in nm else E2, sp.Integer(0)])
    return extract.run_ctor(KEY, {'geometry': sp.Integer(j), 'gamma': gam, 'omega': om, 'rho0': rho0, 'eblast': eb}, hyps=[gam > 1, om < j], externals={'scipy.integrate.quad': quad})


def interior(fp):
    """the path of sedov_funcs_standard on which neither clamp is active"""
    out = []
    for q in fp:
        if q.outcome != 'return': continue
        s_ = [str(c) for c in q.pc]
        if any(c.startswith('1/1000000000000000000000000000000 <') for c in s_) and any(c.endswith('>= 1/1000000000000') for c in s_): out.append(q)
    return out


def shock_prefix(o):
    """the straight-line prefix of _run that defines r2, rho1, us, u2, rho2, p2 (mechanical extraction: the assignments to self.* before the point loop; everything else of _run is dropped)"""
    fv = R.func_ref(SRC + '::Sedov._run')
    stmts = []
    for n in fv.node.body:
        if isinstance(n, ast.Assign) and len(n.targets) == 1 and isinstance(n.targets[0], ast.Attribute) and isinstance(n.targets[0].value, ast.Name) and n.targets[0].value.id == 'self' and n.targets[0].attr in ('r2', 'p1', 'u1', 'rho1', 'us', 'u2', 'rho2', 'p2'):
            stmts.append(n)
    if [n.targets[0].attr for n in stmts] != ['r2', 'p1', 'u1', 'rho1', 'us', 'u2', 'rho2', 'p2']: raise Unsupported('shock-state prefix of _run not found: %s' % [n.targets[0].attr for n in stmts])
    def thunk(run):
        I = sx.Interp(run); env = sx.Env(fv.module, None, fv); env.locals.update({'self': o, 't': t})
        I.block(stmts, env); return o
    ps = sx.explore(thunk, hyps=[gam > 1], feas=extract.default_feas)
    if len(ps) != 1: raise Unsupported('shock prefix has %d paths' % len(ps))
    return fv


NATIVE = r"""
import json, io, contextlib, warnings
import numpy as np
warnings.simplefilter('ignore')
from exactpack.solvers.sedov.sedov import Sedov
kw = %(kw)r; t = %(t)r
with contextlib.redirect_stdout(io.StringIO()): s = Sedov(**kw)
j = kw['geometry']; om = kw.get('omega', 0.0); g = kw['gamma']
cj = {1: 1.0, 2: 2 * np.pi, 3: 4 * np.pi}[j]
with contextlib.redirect_stdout(io.StringIO()): s(np.array([0.5, 1.0]), t)
r2 = float(s.r2); lo = float(getattr(s, 'rvv', 0.0)) if s.solution_type == 'vacuum' else 0.0
r = lo + (r2 - lo) * (1 - np.linspace(1.0, 0.0, 4001) ** 3)[1:-1]      # clustered towards the shock
r = np.append(r, r2 * (1 - 1e-9))
with contextlib.redirect_stdout(io.StringIO()): a = s(r, t)
e = 0.5 * a['density'] * a['velocity'] ** 2 + a['pressure'] / (g - 1)
trapz = lambda y_, x_: float(np.sum((y_[1:] + y_[:-1]) * np.diff(x_)) / 2)
E = trapz(e * cj * r ** (j - 1), r); M = trapz(a['density'] * cj * r ** (j - 1), r)
M0 = cj * kw['rho0'] * (r2 ** (j - om) - lo ** (j - om) * 0) / (j - om)
out = {'energy_behind_shock': E, 'eblast': kw['eblast'], 'mass_behind_shock': M, 'initial_mass_inside_r2': M0, 'solution_type': s.solution_type}
out['reproduced'] = bool(abs(E - kw['eblast']) > %(tol)r * kw['eblast'] or abs(M - M0) > %(tol)r * M0)
print(json.dumps(out))
"""


def unit_geometry(j):
    res = {'obligations': [], 'functions': [], 'engine_errors': []}; O = res['obligations']
    for m in ('__init__', 'sedov_funcs_standard', 'efun01', 'efun02', 'physical', '_run', 'sedov_funcs_singular', 'sedov_funcs_vacuum'):
        res['functions'].append({'ref': '%s::Sedov.%s' % (SRC, m), 'sha256_16': R.source_hash(R.func_ref('%s::Sedov.%s' % (SRC, m)))})
    box = {}
    try:
        paths = ctor_paths(j, box)
    except Unsupported as u_:
        O.append(core.Obl('C11/geometry=%d/extraction' % j, 'open', 'extraction', 0.0, detail=str(u_)[:300])); return res
    seen = {}; cnt = {}
    for p in paths:
        if p.outcome != 'return': continue
        o = p.value; A = o.attrs
        typ, sing = A.get('solution_type'), A.get('special_singularity')
        key = (typ, sing); seen[key] = seen.get(key, 0) + 1
        if sing != 'none': continue                                    # thin parameter sets (assumption 3)
        cnt[typ] = cnt.get(typ, 0) + 1
        base = 'C11/geometry=%d/%s%s' % (j, typ, '' if cnt[typ] == 1 else '~path%d' % cnt[typ])
        hy = [gam > 1, om < j] + list(p.pc)
        xg2 = sp.sympify(A['xg2']); gpogm = sp.sympify(A['gpogm']); gm1 = gam - 1
        kw_w = {'standard': {'geometry': j, 'gamma': 1.4, 'omega': {1: 0.3, 2: 0.5, 3: 1.0}[j], 'rho0': 1.3, 'eblast': 0.7}, 'vacuum': {'geometry': j, 'gamma': 1.4, 'omega': {1: 0.9, 2: 1.9, 3: 2.8}[j], 'rho0': 1.3, 'eblast': 0.7},
                'singular': {'geometry': j, 'gamma': 1.4, 'omega': (3 * j - 2 + 1.4 * (2 - j)) / 2.4, 'rho0': 1.3, 'eblast': 0.7}}[typ]
        nat = NATIVE % dict(kw=kw_w, t=0.8, tol=2e-3)
        def fin(o_):
            if o_['status'] == 'refuted': o_['replay'] = nat
            o_.pop('cex_raw', None); return o_
        alpha_code = sp.sympify(A['alpha']); ALPHA = sp.Symbol('alpha_norm', positive=True)
        A['alpha'] = ALPHA            # the normalisation constant as a symbol (its coded value is the subject of the obligation '/alpha' below)
        try:
            shock_prefix(o)
        except Unsupported as u_:
            O.append(core.Obl(base + '/extraction', 'open', 'extraction', 0.0, detail=str(u_)[:300])); continue
        r2, rho1, us, u2, rho2, p2, alpha = [sp.sympify(A[n]) for n in ('r2', 'rho1', 'us', 'u2', 'rho2', 'p2', 'alpha')]
        cj = CJ[j]
        # shock state: strong-shock Rankine-Hugoniot values behind a shock moving at us = dr2/dt into (rho1, 0, 0)
        O.append(fin(core.prove_zero(base + '/shock_speed', us - sp.diff(r2, t), hy, goal_text='us == d r2 / dt')))
        O.append(fin(core.prove_zero(base + '/rho1', rho1 - rho0 * r2 ** (-om), hy, goal_text='rho1 == rho0 r2^-omega')))
        O.append(fin(core.prove_zero(base + '/shock:mass', rho2 * (us - u2) - rho1 * us, hy, goal_text='rho2 (us - u2) == rho1 us')))
        O.append(fin(core.prove_zero(base + '/shock:momentum', p2 + rho2 * (us - u2) ** 2 - rho1 * us ** 2, hy, goal_text='p2 + rho2 (us-u2)^2 == rho1 us^2 (p1 = 0)')))
        O.append(fin(core.prove_zero(base + '/shock:energy', gam / gm1 * p2 / rho2 + (us - u2) ** 2 / 2 - us ** 2 / 2, hy, goal_text='h2 + (us-u2)^2/2 == us^2/2 (cold gas ahead)')))
        O.append(fin(core.prove_zero(base + '/r2_scaling', eb - alpha * rho0 * r2 ** xg2 / t ** 2, hy + [alpha > 0], goal_text='alpha rho0 r2^(j+2-omega) / t^2 == eblast', positive=[alpha])))
        M_init = sp.integrate(rho0 * sp.Symbol('r_', positive=True) ** (j - 1 - om) * cj, (sp.Symbol('r_', positive=True), 0, sp.Symbol('R2', positive=True))) if False else cj * rho0 * sp.Symbol('R2', positive=True) ** (j - om) / (j - om)
        if typ == 'singular':
            # closed forms (exact at v2 = vstar): lambda = r/r2, f = lambda, g = lambda^(j-2), h = lambda^j
            if j == 1:
                O.append(core.structural(base + '/excluded', True, 'the singular type needs omega = 1 = geometry, outside 0 <= omega < geometry', None, 'path-analysis', 'planar singular type lies outside the admissible omega range (up to the 1e-4 band)')); continue
            lam = sp.Symbol('lam', positive=True); Rr = sp.Symbol('R2', positive=True)
            try:
                fs = extract.run_function(SRC + '::Sedov.sedov_funcs_singular', [lam * Rr], hyps=hy, self_obj=Obj(KEY, dict(A, r2=Rr)))
                lf, dlf, ff, gf, hf = [sp.sympify(z) for z in fs[0].value]
                ph = extract.run_function(SRC + '::Sedov.physical', [ff, gf, hf], hyps=hy + [rho2 * gf > 0], self_obj=o)
                den, vel, prs = [sp.sympify(z) for z in [q for q in ph if q.outcome == 'return'][-1].value[:3]]
            except Unsupported as u_:
                O.append(core.Obl(base + '/extraction', 'open', 'extraction', 0.0, detail=str(u_)[:300])); continue
            om_s = sp.solve(sp.Eq(sp.sympify(A['v2']), sp.sympify(A['vstar'])), om)
            if len(om_s) != 1: O.append(core.Obl(base + '/omega_singular', 'open', 'extraction', 0.0, detail=str(om_s))); continue
            sub = {om: om_s[0]}
            den, vel, prs = [z.subs(ALPHA, alpha_code) for z in (den, vel, prs)]; r2 = r2.subs(ALPHA, alpha_code)
            O.append(fin(core.prove_zero(base + '/lambda=r/r2', lf - lam, hy, goal_text='lambda == r / r2')))
            edens = (den * vel ** 2 / 2 + prs / gm1) * cj * (lam * r2) ** (j - 1) * r2
            Etot = sp.integrate(sp.simplify(edens.subs(sub)), (lam, 0, 1))
            O.append(fin(core.prove_zero(base + '/energy', sp.simplify(Etot) - eb, [gam > 1], goal_text='integral over 0 < r < r2 of (rho u^2/2 + p/(gamma-1)) dV == eblast at v2 = vstar (closed-form integrand integrated by sympy, certified by the ring back end)')))
            Mtot = sp.integrate(sp.simplify((den * cj * (lam * r2) ** (j - 1) * r2).subs(sub)), (lam, 0, 1))
            O.append(fin(core.prove_zero(base + '/mass', sp.simplify(Mtot) - (cj * rho0 * r2 ** (j - om) / (j - om)).subs(sub), [gam > 1], goal_text='mass inside the shock == initial mass inside r2 at v2 = vstar')))
            continue
        # standard / vacuum: the similarity functions of the code
        try:
            fp = interior(extract.run_function(SRC + '::Sedov.sedov_funcs_standard', [v], hyps=hy, self_obj=o))
            if len(fp) != 1: raise Unsupported('%d interior paths of sedov_funcs_standard' % len(fp))
            q = fp[0]; lam, dl, f, g, h = [sp.sympify(z) for z in q.value]; hh = hy + list(q.pc)
            Ls, DLs, Gs, Hs = sp.symbols('lam_ dlam_ g_ h_', positive=True)
            x1_ = sp.sympify(A['a_val']) * v
            opq = {'Sedov.sedov_funcs_standard': (lambda I, a, k: Vec([Ls, DLs, x1_ * Ls, Gs, Hs]))}
            e1 = [z for z in extract.run_function(SRC + '::Sedov.efun01', [v], hyps=hh, self_obj=o, opaque=opq) if z.outcome == 'return']
            e2 = [z for z in extract.run_function(SRC + '::Sedov.efun02', [v], hyps=hh, self_obj=o, opaque=opq) if z.outcome == 'return']
            if len(e1) != 1 or len(e2) != 1: raise Unsupported('efun paths %d %d' % (len(e1), len(e2)))
            ef1, ef2 = sp.sympify(e1[0].value), sp.sympify(e2[0].value)
            F_, G_, H_ = sp.symbols('Ff Gg Hh', positive=True)
            ph = [z for z in extract.run_function(SRC + '::Sedov.physical', [F_, G_, H_], hyps=hy, self_obj=o) if z.outcome == 'return']
            phv = [z for z in ph if sp.sympify(z.value[3]) != 0]
            if len(phv) != 1: raise Unsupported('physical(): %d paths with density > 0' % len(phv))
            den, vel, prs = [sp.sympify(z).subs({F_: f, G_: g, H_: h}) for z in phv[0].value[:3]]
        except Unsupported as u_:
            O.append(core.Obl(base + '/extraction', 'open', 'extraction', 0.0, detail=str(u_)[:300])); continue
        x1 = sp.sympify(A['a_val']) * v; x2 = sp.sympify(A['b_val']) * (sp.sympify(A['c_val']) * v - 1); x3 = sp.sympify(A['d_val']) * (1 - sp.sympify(A['e_val']) * v); x4 = sp.sympify(A['b_val']) * (1 - xg2 * v / 2)
        pos = [x1, x2, x3, x4]
        v2 = sp.sympify(A['v2'])
        # translation validation: the extracted similarity functions against the real method of a really constructed solver
        from vc import propkit
        kwn = {'geometry': j, 'gamma': kw_w['gamma'], 'omega': kw_w['omega'], 'rho0': kw_w['rho0'], 'eblast': kw_w['eblast']}
        ptn = {gam: sp.Rational(str(kwn['gamma'])), om: sp.Rational(str(kwn['omega'])), rho0: sp.Rational(str(kwn['rho0'])), eb: sp.Rational(str(kwn['eblast']))}
        try:
            va, vb = float(alg.numeric(sp.sympify(A['vmin']), ptn, 20)), float(alg.numeric(v2, ptn, 20))
            items = []; exp = []
            for w_ in (0.3, 0.7):
                vn = va + w_ * (vb - va); ptv = dict(ptn); ptv[v] = sp.Rational(repr(vn))
                ex = propkit.expected_from_paths([([lam, dl, f, g, h], [c_ for c_ in q.pc])], ptv)
                if ex is None: continue
                items.append({'module': 'exactpack.solvers.sedov.sedov', 'cls': 'Sedov', 'ctor': kwn, 'name': 'sedov_funcs_standard', 'args': [vn]}); exp.append(ex)
            n_, mm = propkit.tv_functions(items, exp, rtol=1e-7)
            res.setdefault('tv', {'functions': 0, 'points': 0, 'mismatches': 0})
            res['tv'] = {'functions': res['tv']['functions'] + 1, 'points': res['tv']['points'] + n_, 'mismatches': res['tv']['mismatches'] + len(mm)}
            for m_ in mm[:3]: res['engine_errors'].append('translation validation: ' + m_)
        except Exception as e_:
            res['engine_errors'].append('translation validation (Sedov %s): %s' % (typ, str(e_)[:150]))
        O.append(fin(core.prove_zero(base + '/dlamdv', sp.diff(lam, v) - dl, hh, positive=pos, goal_text='dlamdv == d lambda / d v')))
        for nm, fn in (('lambda', lam), ('f', f), ('g', g), ('h', h)):
            O.append(fin(core.prove_zero('%s/shock_value:%s' % (base, nm), sp.simplify(fn.subs(v, v2)) - 1, hy, goal_text='%s(v2) == 1: the similarity functions are normalised to the post-shock state' % nm)))
        rr = r2 * lam
        edens = (den * vel ** 2 / 2 + prs / gm1) * cj * rr ** (j - 1) * r2 * dl
        # the integrands are compared with the similarity functions as symbols (lam_, dlam_, g_, h_; f = x1 lam_ is proved on the real function): monomial identities
        O.append(fin(core.prove_zero(base + '/f=x1*lambda', f - x1 * lam, hh, positive=pos, goal_text='f == a_val v lambda')))
        den_s, vel_s, prs_s = [sp.sympify(z).subs({F_: x1 * Ls, G_: Gs, H_: Hs}) for z in phv[0].value[:3]]
        geo = cj * (r2 * Ls) ** (j - 1) * r2 * DLs
        O.append(fin(core.prove_zero(base + '/energy_integrand:kinetic', den_s * vel_s ** 2 / 2 * geo - (eb / alpha) * cj * ef1 / 2, hy, positive=[alpha],
                                     goal_text='(rho u^2/2) dV/dv of the returned fields == (eblast/alpha) c_j efun01/2 for every v')))
        O.append(fin(core.prove_zero(base + '/energy_integrand:internal', prs_s / gm1 * geo - (eb / alpha) * cj * ef2 / gm1, hy, positive=[alpha],
                                     goal_text='(p/(gamma-1)) dV/dv of the returned fields == (eblast/alpha) c_j efun02/(gamma-1) for every v')))
        O.append(fin(core.prove_zero(base + '/alpha', alpha_code - cj * (E1 / 2 + E2 / gm1), hy, goal_text='alpha == c_j (EVAL1/2 + EVAL2/(gamma-1)), c_j = %s' % cj)))
        vmin = sp.sympify(A['vmin'])
        calls = [c for c in box.get('calls', [])]
        okc = any(c[0].endswith('efun01') and sp.simplify(c[1] - vmin) == 0 and sp.simplify(c[2] - v2) == 0 for c in calls) and any(c[0].endswith('efun02') and sp.simplify(c[1] - vmin) == 0 and sp.simplify(c[2] - v2) == 0 for c in calls)
        O.append(core.structural(base + '/integration_limits', okc, 'quad calls: %s' % [(c[0], str(c[1]), str(c[2])) for c in calls][:4], None, 'path-analysis', 'EVAL1, EVAL2 are integrals of efun01, efun02 over [vmin, v2]'))
        want_vmin = sp.sympify(A['v0']) if typ == 'standard' else sp.sympify(A['vv'])
        O.append(fin(core.prove_zero(base + '/vmin', vmin - want_vmin, hy, goal_text='inner limit is v0 = 2/(xg2 gamma) (origin) for the standard type, vv = 2/xg2 (vacuum boundary) for the vacuum type')))
        # Sedov's energy integral: no energy flux through a surface of constant lambda
        edn = den * vel ** 2 / 2 + prs / gm1
        O.append(fin(core.prove_zero(base + '/energy_integral_of_motion', (edn + prs) * vel - edn * lam * us, hh, positive=pos, goal_text='(rho u^2/2 + rho e + p) u == (rho u^2/2 + rho e) lambda us: the energy inside any lambda = const surface is constant in time')))
        # closed-form mass integral
        mu = den * rr ** j * (1 - xg2 * v / 2) / (j - om)
        O.append(fin(core.prove_zero(base + '/mass_integrand', sp.diff(mu, v) - den * rr ** (j - 1) * r2 * dl, hh, positive=pos, goal_text='d/dv [rho r^j (1 - xg2 v/2)/(j - omega)] == rho r^(j-1) dr/dv (mass integrand)')))
        O.append(fin(core.prove_zero(base + '/mass_at_shock', sp.simplify((mu).subs(v, v2)) - rho0 * r2 ** (j - om) / (j - om), hy, goal_text='closed-form mass integral at the shock == rho0 r2^(j-omega)/(j-omega) = (initial mass inside r2)/c_j')))
        # inner limit: the mass integral vanishes there
        if typ == 'vacuum':
            a5 = sp.sympify(A['a5'])
            O.append(fin(core.prove_zero(base + '/mass_inner_limit:factor', (1 - xg2 * v / 2).subs(v, vmin), hy, goal_text='1 - xg2 v/2 == 0 at the vacuum boundary')))
            o_ = core.prove_valid(base + '/mass_inner_limit:exponent', hy, 1 + a5 > 0, goal_text='g (1 - xg2 v/2) ~ x4^(1 + a5) with 1 + a5 > 0: the mass integral vanishes at the vacuum boundary')
            O.append(fin(o_))
        else:
            a2 = sp.sympify(A['a2']); a3 = sp.sympify(A['a3'])
            O.append(fin(core.prove_zero(base + '/mass_inner_limit:factor', x2.subs(v, vmin), hy, goal_text='x2 == 0 at v0 (the origin)')))
            o_ = core.prove_valid(base + '/mass_inner_limit:exponent', hy, (a3 + a2 * om) - j * a2 > 0, goal_text='g lambda^j ~ x2^(a3 + a2 omega - j a2) with positive exponent: the mass integral vanishes at the origin')
            O.append(fin(o_))
            o_ = core.prove_valid(base + '/origin:lambda', hy, -a2 > 0, goal_text='lambda ~ x2^(-a2) with -a2 > 0: v0 is the origin')
            O.append(fin(o_))
    O.append(core.structural('C11/geometry=%d/types_reached' % j, all(seen.get((t_, 'none'), 0) >= 1 for t_ in (('standard', 'vacuum', 'singular') if j > 1 else ('standard',))), str(seen), None, 'path-analysis', 'standard, vacuum and singular constructor paths all reached (planar: omega < 1 admits the standard type only, up to the 1e-4 band) (vacuity)'))
    return res


def unit_ahead():
    """ahead of the shock: the else-branch of `if rwant <= self.r2` in the point loop (mechanical extraction)"""
    res = {'obligations': [], 'functions': [{'ref': SRC + '::Sedov._run', 'sha256_16': R.source_hash(R.func_ref(SRC + '::Sedov._run'))}], 'engine_errors': []}; O = res['obligations']
    fv = R.func_ref(SRC + '::Sedov._run')
    blk = None
    for n in ast.walk(fv.node):
        if isinstance(n, ast.If) and ast.unparse(n.test).replace(' ', '') == 'rwant<=self.r2': blk = n.orelse
    if not blk: O.append(core.Obl('C11/ahead/extraction', 'open', 'extraction', 0.0, detail='branch not found')); return res
    rw = sp.Symbol('rwant', positive=True)
    o = Obj(KEY, {'rho0': rho0, 'omega': om})
    arrs = {n: Vec([sp.Symbol(n + '_old')]) for n in ('density', 'velocity', 'pressure')}
    def thunk(run):
        I = sx.Interp(run); env = sx.Env(fv.module, None, fv); env.locals.update({'self': o, 'rwant': rw, 'i': sp.Integer(0)}); env.locals.update(arrs)
        I.block(blk, env); return {n: env.locals[n].items[0] for n in arrs}
    try:
        ps = [p for p in sx.explore(thunk, hyps=[], feas=extract.default_feas) if p.outcome == 'return']
    except Unsupported as u_:
        O.append(core.Obl('C11/ahead/extraction', 'open', 'extraction', 0.0, detail=str(u_)[:300])); return res
    if len(ps) != 1: O.append(core.Obl('C11/ahead/extraction', 'open', 'extraction', 0.0, detail='%d paths' % len(ps))); return res
    val = ps[0].value
    O.append(core.prove_zero('C11/ahead/density', sp.sympify(val['density']) - rho0 * rw ** (-om), [], goal_text='density ahead of the shock == rho0 r^-omega'))
    O.append(core.prove_zero('C11/ahead/velocity', sp.sympify(val['velocity']), [], goal_text='velocity ahead of the shock == 0'))
    O.append(core.prove_zero('C11/ahead/pressure', sp.sympify(val['pressure']), [], goal_text='pressure ahead of the shock == 0'))
    for o_ in O: o_.pop('cex_raw', None)
    return res


def unit_bounded(tier):
    cases = [('standard/j=3', {'geometry': 3, 'gamma': 1.4, 'omega': 0.0, 'rho0': 1.0, 'eblast': 0.851072}), ('standard/j=2_gamma=1.6', {'geometry': 2, 'gamma': 1.6, 'omega': 0.0, 'rho0': 1.3, 'eblast': 0.3}),
             ('standard/j=1', {'geometry': 1, 'gamma': 1.4, 'omega': 0.0, 'rho0': 0.7, 'eblast': 0.07}), ('standard/j=3_omega=1', {'geometry': 3, 'gamma': 1.4, 'omega': 1.0, 'rho0': 1.0, 'eblast': 0.5}),
             ('singular/j=3', {'geometry': 3, 'gamma': 1.4, 'omega': 7.0 / 3.0, 'rho0': 1.0, 'eblast': 2.45749}), ('vacuum/j=3', {'geometry': 3, 'gamma': 1.4, 'omega': 2.4, 'rho0': 1.0, 'eblast': 1.0}),
             ('vacuum/j=2', {'geometry': 2, 'gamma': 1.4, 'omega': 1.7, 'rho0': 1.0, 'eblast': 1.0})]
    res = {'obligations': [], 'functions': [], 'engine_errors': [], 'bounded': []}
    for name, kw in cases:
        for tt in ((0.8,) if tier == 'quick' else (0.3, 0.8, 2.0)):
            script = NATIVE % dict(kw=kw, t=tt, tol=5e-3)
            r_ = native.run_script(script, timeout=900)
            if r_.get('result') is None:
                res['engine_errors'].append('bounded Sedov check %s did not run: %s' % (name, (r_.get('stderr_tail') or '')[-200:])); continue
            rr = r_['result']
            res['bounded'].append({'name': 'C11/bounded/%s/t=%s' % (name, tt), 'status': 'fail' if rr['reproduced'] else 'pass', 'evaluations': 4000, 'bound': 'Sedov(%s) at t=%s: trapezoid rule on 4000 user points between the inner limit and the shock' % (kw, tt),
                                   'tolerance': '5e-3 relative (quadrature + interpolation error of the solver)', 'detail': json.dumps({k: rr[k] for k in rr if k != 'reproduced'})[:300], 'replay': script if rr['reproduced'] else None})
    return res


def units(tier):
    return [('geometry=%d' % j, {'kind': 'geo', 'j': j}) for j in (1, 2, 3)] + [('ahead', {'kind': 'ahead'}), ('bounded', {'kind': 'bd', 'tier': tier})]


def run_unit(name, kind, j=None, tier='quick'):
    if kind == 'geo': return unit_geometry(j)
    if kind == 'ahead': return unit_ahead()
    return unit_bounded(tier)
