"""C04 - 1-D Riemann solutions conserve mass, momentum and energy in integral form (ideal-gas solver: proof from the region table)."""
from props import riemann_kit as rk

LEVEL = 'proof'
EXPLANATION = ("For each wave pattern of RiemannIGEOS.driver the window integral minus initial integral minus t*(f_left - f_right) telescopes into a sum over the wave positions of [f - V q]; "
               "obligations: (i) Euler residuals and self-similarity inside each fan (similarity form of the conservation laws), (ii) [f - V q] = 0 at each shock with the coded speed, "
               "(iii) equal p, u at the contact moving with the fluid, star-pressure equation == documented u*_R - u*_L, (iv) continuity at fan head and tail, (v) wave speeds non-decreasing, (vi) outermost regions carry the initial states.")
ASSUMPTIONS = list(rk.ASSUMPTIONS) + ["A6 fundamental theorem of calculus: a fan contributes t*[(f - xi q)(head) - (f - xi q)(tail)] to the window integral when (f - xi q)' + q = 0 on it",
                                        "general-EOS solver (RiemannGenEOS, JWL): P-U tables, splice and bisection on interpolants are outside the executor; not covered by this check (stated in MANIFEST level_note)"]
FAMS = ['rootspec', 'shocks', 'contact', 'fan_edges', 'outer', 'fan_pde', 'selfsimilar', 'ordering']


def units(tier):
    return [(n, dict(k, tier=tier)) for n, k in rk.units('C04', FAMS, tier) if not ('/SCS/' in n and 'fan' in n)]


def run_unit(name, pat=None, fam=None, tier='quick'):
    return rk.run_unit('C04', pat, fam, tier)
