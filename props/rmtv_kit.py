"""RMTV (Reinicke Meyer-ter-Vehn): the isothermal-shock jump applied between the two ODE integrations of rmtv_1d's per-point routine.
Mechanical extraction: the statements of the `if (rpos <= rs):` block that map the pre-shock similarity state (U, H, W, Theta) to the post-shock one
(everything else - similarity exponents, root find, quadrature, ODE integrations - is dropped).  Similarity variables: relative velocity ~ (1 - U),
density ~ H, temperature ~ Theta, pressure ~ H Theta."""
import ast
import sympy as sp
from vc import core, extract, sx, repo as R
from vc.values import *

SRC = 'exactpack/solvers/rmtv/timmes.py'
U2, H2, W2, T2 = sp.symbols('U_pre H_pre W_pre Theta_pre', positive=True)


def find_block():
    import ast as _a
    mod = R.load_module('exactpack.solvers.rmtv.timmes')
    for fn in mod.funcs.values():
        for n in _a.walk(fn):
            if isinstance(n, _a.If) and _a.unparse(n.test).replace(' ', '') in ('rpos<=rs', '(rpos<=rs)'):
                return fn, n.body
    raise Unsupported('isothermal-shock block not found')


def unit():
    res = {'obligations': [], 'functions': [], 'engine_errors': []}; O = res['obligations']
    try:
        fn, body = find_block()
        fv = R.func_ref('%s::%s' % (SRC, fn.name)); res['functions'].append({'ref': '%s::%s' % (SRC, fn.name), 'sha256_16': R.source_hash(fv)})
        st = []
        for n in body:
            if isinstance(n, ast.Assign) and (ast.unparse(n.targets[0]).startswith('ystart[') or ast.unparse(n.targets[0]) in ('usub2', 'hsub2', 'wsub2', 'tsub2')): st.append(n)
            else: break
        def thunk(run):
            I = sx.Interp(run); env = sx.Env(fv.module, None, fv); env.locals['ystart'] = Vec([U2, H2, W2, T2]); I.block(st, env); return env.locals['ystart']
        ps = [p for p in sx.explore(thunk, hyps=[U2 < 1], feas=extract.default_feas) if p.outcome == 'return']
        if len(ps) != 1 or len(st) != 8: raise Unsupported('%d paths, %d statements' % (len(ps), len(st)))
    except Unsupported as u_:
        O.append(core.Obl('C02/rmtv/extraction', 'open', 'extraction', 0.0, detail=str(u_)[:300])); return res
    U1, H1, W1, T1 = [sp.sympify(q) for q in ps[0].value.items]; hy = [U2 < 1]
    O.append(core.prove_zero('C02/rmtv/isothermal_shock/temperature', T1 - T2, hy, goal_text='Theta is continuous (isothermal shock)'))
    O.append(core.prove_zero('C02/rmtv/isothermal_shock/rh:mass', H1 * (1 - U1) - H2 * (1 - U2), hy, goal_text='H (1 - U) is continuous'))
    O.append(core.prove_zero('C02/rmtv/isothermal_shock/rh:momentum', (H1 * (1 - U1) ** 2 + H1 * T1) - (H2 * (1 - U2) ** 2 + H2 * T2), hy, goal_text='H (1-U)^2 + H Theta is continuous'))
    O.append(core.prove_zero('C02/rmtv/isothermal_shock/prandtl', (1 - U1) * (1 - U2) - T2, hy, goal_text='(1-U_pre)(1-U_post) == Theta: Prandtl relation of the isothermal shock'))
    # heat-flux jump: with mass flux and temperature continuous, energy conservation fixes the jump of the heat flux to the jump of kinetic energy per unit mass
    O.append(core.prove_zero('C02/rmtv/isothermal_shock/rh:energy', (W1 * (1 - U2) ** 2 - T2 * W2) + ((1 - U2) ** 2 - (1 - U1) ** 2) * (1 - U2) / 2, hy,
                             goal_text='(1-U_pre)^2 W_post - Theta W_pre == -(1-U_pre) [(1-U_pre)^2 - (1-U_post)^2]/2: the heat-flux variable absorbs exactly the kinetic-energy jump'))
    for o in O: o.pop('cex_raw', None)
    return res


def unit_eos():
    """C03: the statements that turn the similarity state into physical fields (den, ener, pres, tev), including the unit conversion factors applied afterwards"""
    res = {'obligations': [], 'functions': [], 'engine_errors': []}; O = res['obligations']
    try:
        fn, body = find_block()
        fv = R.func_ref('%s::%s' % (SRC, fn.name)); res['functions'].append({'ref': '%s::%s' % (SRC, fn.name), 'sha256_16': R.source_hash(fv)})
        names = ('vel', 'den', 'ener', 'pres', 'tev')
        st = []
        for n in ast.walk(fn):
            if isinstance(n, ast.If) and ast.unparse(n.test).replace(' ', '') in ('rpos>rstar', '(rpos>rstar)'):
                st = [q for q in n.orelse if isinstance(q, ast.Assign) and isinstance(q.targets[0], ast.Name) and q.targets[0].id in names]
        if len(st) < 9: raise Unsupported('field statements not found (%d)' % len(st))
        g, al, rp, tm, g0, kap, xe, sg, bg = sp.symbols('gamma alpha rpos time g0 kappa xi_end sigma bigamma', positive=True)
        def thunk(run):
            I = sx.Interp(run); env = sx.Env(fv.module, None, fv)
            env.locals.update({'ystart': Vec([U2, H2, W2, T2]), 'gamma': g, 'alpha': al, 'rpos': rp, 'time': tm, 'g0': g0, 'kappa': kap, 'xi_end': xe, 'sigma': sg, 'bigamma': bg})
            run.gstore[('exactpack.solvers.rmtv.timmes', 'gamma')] = g
            I.block(st, env); return {k: env.locals[k] for k in names}
        ps = [p for p in sx.explore(thunk, hyps=[], feas=extract.default_feas) if p.outcome == 'return']
        if len(ps) != 1: raise Unsupported('%d paths' % len(ps))
    except Unsupported as u_:
        O.append(core.Obl('C03/rmtv/extraction', 'open', 'extraction', 0.0, detail=str(u_)[:300])); return res
    F = {k: sp.sympify(v) for k, v in ps[0].value.items()}
    O.append(core.prove_zero('C03/rmtv/eos:p=(gamma-1)*rho*e', F['pres'] - (g - 1) * F['den'] * F['ener'], [g > 1], goal_text='pressure == (gamma-1) density energy after the unit conversions (jerk/g -> erg/g, jerk/cm^3 -> erg/cm^3)'))
    O.append(core.prove_zero('C03/rmtv/temperature', F['tev'] * bg * 10 ** 13 - (g - 1) * F['ener'] * 1, [g > 1], goal_text='T[eV] Gamma 1e13 == (gamma-1) e[erg/g]: e = Gamma T/(gamma-1) with the 1e16 (energy) and 1e3 (keV -> eV) factors'))
    for o in O: o.pop('cex_raw', None)
    return res
