"""C20 - invalid problems are rejected loudly; no finite garbage outside validity; no NaN/inf in-domain."""
import itertools, json
import sympy as sp
from vc import core, alg, smt, extract, sx, native, propkit, repo as R
from vc.values import *
from contracts import restrictions as RC, hydro

LEVEL = 'proof'
EXPLANATION = ("(a) Restriction catalogue (contracts/restrictions.py, transcribed from parameter descriptions, docstrings and error-message wording): the real constructor chain of each catalogued class is executed "
               "symbolically (finite-domain parameters by exhaustive case split including inadmissible values, real parameters symbolic); every accepting path must imply the documented predicate (z3), every rejecting path "
               "must raise ValueError. Constructors that leave the executor's subset after their validation block are cut there and treated as accepting; a refutation on such a path counts only when the real "
               "constructor accepts the counterexample. (b) validity-domain guards of the closed-form solvers: a returning path whose condition leaves the documented time domain must return NaN in every field. "
               "(c) definedness: every division / sqrt / log / non-integer power met on an in-domain path has an admissible argument. (d) Riemann: the vacuum branch and failed brackets never build a solution.")
ASSUMPTIONS = ["the catalogue covers the classes listed in contracts/restrictions.py (not every solver class); restrictions not written there are not checked",
               "bisect raises ValueError when its bracket has no sign change (A5): calls outside the solvable range of the Riemann solver raise before a solution is built",
               "float NaN semantics: numpy power of a negative base with non-integer exponent yields NaN (relevant only outside the documented domain)"]

CTOR_NATIVE = r'''
import json, io, contextlib, importlib, warnings
warnings.simplefilter('ignore')
C = getattr(importlib.import_module(%(mod)r), %(cls)r)
kw = %(kw)r
try:
    with contextlib.redirect_stdout(io.StringIO()): s = C(**kw)
    print(json.dumps({'reproduced': True, 'observed': 'constructor accepted the inadmissible parameter set', 'parameters': {k: str(v) for k, v in kw.items()}, 'documented_restriction': %(doc)r}))
except ValueError as e:
    print(json.dumps({'reproduced': False, 'observed': 'ValueError: ' + str(e)[:120]}))
except Exception as e:
    print(json.dumps({'reproduced': %(other)s, 'observed': type(e).__name__ + ': ' + str(e)[:120], 'parameters': {k: str(v) for k, v in kw.items()}}))
'''


def pyv(v):
    if isinstance(v, sp.Basic):
        if v.is_Integer: return int(v)
        return float(v)
    if isinstance(v, (list, tuple)): return type(v)(pyv(q) for q in v)
    return v


def kw_at(params, pt):
    out = {}; pt = dict(pt)
    for v in params.values():          # parameters the counterexample leaves free (not in the restriction nor in the path condition): any admissible-looking value, the script is run natively anyway
        for q in (v if isinstance(v, (list, tuple)) else [v]):
            if isinstance(q, sp.Basic):
                for s_ in q.free_symbols: pt.setdefault(s_, sp.Integer(1))
    for k, v in params.items():
        if isinstance(v, (list, tuple)): out[k] = type(v)(pyv(alg.numeric(q, pt, 20)) if isinstance(q, sp.Basic) and q.free_symbols else pyv(q) for q in v)
        elif isinstance(v, sp.Basic) and v.free_symbols: out[k] = pyv(sp.nsimplify(alg.numeric(v, pt, 20))) if v.is_integer else pyv(alg.numeric(v, pt, 20))
        else: out[k] = pyv(v)
    return out


def catalogue_unit(cls):
    ent = RC.CAT[cls]; res = {'obligations': [], 'functions': [], 'engine_errors': []}
    O = res['obligations']; short = cls.replace('exactpack.solvers.', '')
    fv = R.find_method(cls, '__init__')
    if fv is not None: res['functions'].append({'ref': '%s::%s' % (fv.module.path.replace(R.REPO + '/', ''), fv.name), 'sha256_16': R.source_hash(fv)})
    fin = ent['finite']; fsyms = list(fin)
    mod, cname = cls.split(':')
    for combo in itertools.product(*[fin[s_] for s_ in fsyms]) if fsyms else [()]:
        case = dict(zip(fsyms, [sp.Integer(v) for v in combo]))
        cname_ = ','.join('%s=%s' % (s_.name, v) for s_, v in case.items()) or 'all'
        params = {k: (v.xreplace(case) if isinstance(v, sp.Basic) else ([q.xreplace(case) if isinstance(q, sp.Basic) else q for q in v] if isinstance(v, list) else (tuple(q.xreplace(case) if isinstance(q, sp.Basic) else q for q in v) if isinstance(v, tuple) else v)))
                  for k, v in ent['params'].items()}
        valid = ent['valid'].xreplace(case) if isinstance(ent['valid'], sp.Basic) else ent['valid']
        try:
            paths = extract.run_ctor(cls, params, accept_unsupported=True, max_paths=300)
        except Unsupported as u:
            O.append(core.Obl('C20/ctor/%s/%s/extraction' % (short, cname_), 'open', 'extraction', 0.0, detail=str(u)[:200])); continue
        for i, p in enumerate(paths):
            nm = 'C20/ctor/%s/%s/path%d' % (short, cname_, i)
            if p.outcome == 'raise':
                if p.exc != 'ValueError' and smt.feasible(list(p.pc)):
                    r_, m_ = smt.check(list(p.pc))
                    pt = {s_: (m_ or {}).get(s_, sp.Integer(1)) for s_ in set().union(*[c.free_symbols for c in p.pc if isinstance(c, sp.Basic)])} if m_ else {}
                    O.append(core.Obl(nm + '/rejects_with_ValueError', 'refuted', 'path-analysis', 0.0, goal='a rejected parameter set raises ValueError', detail='raises %s under %s' % (p.exc, str(p.pc)[:160]),
                                      cex=core.jval(pt), replay=CTOR_NATIVE % dict(mod=mod, cls=cname, kw=kw_at(params, pt), doc=ent['note'], other='True')))
                else:
                    O.append(core.structural(nm + '/rejects_with_ValueError', True, goal='rejecting path raises ValueError', backend='path-analysis'))
                continue
            # accepting path (returned, or left the supported subset after the validation block)
            o = core.prove_valid(nm + '/accepting_path_implies_documented_restriction', list(p.pc), valid, goal_text='constructor accepts  =>  %s' % core.short(valid, 160))
            if o['status'] == 'refuted' and o.get('cex_raw') is not None:
                pt = {}
                for s_ in (valid.free_symbols if isinstance(valid, sp.Basic) else set()) | set().union(*[c.free_symbols for c in p.pc if isinstance(c, sp.Basic)] or [set()]):
                    pt[s_] = sp.sympify(o['cex_raw'].get(s_.name, 1))
                script = CTOR_NATIVE % dict(mod=mod, cls=cname, kw=kw_at(params, pt), doc=ent['note'], other='False')
                if p.outcome == 'unsupported':
                    # the executor stopped before the end of the constructor: only a counterexample the real constructor accepts counts
                    try: nr = native.run_script(script, timeout=300)
                    except Exception: nr = {}
                    if not (nr.get('result') or {}).get('reproduced'):
                        o = core.Obl(nm + '/accepting_path_implies_documented_restriction', 'open', 'extraction', o['time_s'], detail='constructor not fully executable (%s); candidate %s is rejected by the real constructor' % (p.exc[:60], core.jval(pt)))
                        O.append(o); continue
                o['replay'] = script
            o.pop('cex_raw', None); O.append(o)
    return res


# ------------------------------------------------------------------------------------------------ guards and definedness of the closed-form solvers
def hydro_unit(key, case):
    sc = hydro.SOLVERS[key]; res = {'obligations': [], 'functions': sc.function_info(), 'engine_errors': []}
    O = res['obligations']; base = 'C20/domain/%s/%s' % (key, sc.case_name(case))
    mod, cname = sc.cls.split(':')
    tt = sp.Symbol('t', real=True)            # no assumption on the time: the guards themselves are under test
    hy = sc.hyps + sc.poshyps + (list(sc.extra_hyps(case)) if getattr(sc, 'extra_hyps', None) else [])
    # ---- (b) completeness of the solver's own time guard (only for solvers that have one)
    try:
        paths = extract.run_solver(sc.cls, sc.kwargs(case), sc.pos, tt, hyps=hy)
    except Unsupported as u:
        O.append(core.Obl(base + '/extraction', 'open', 'extraction', 0.0, detail=str(u)[:200])); return res
    def is_nan_path(p):
        return p.outcome == 'return' and isinstance(p.value, Solution) and all(isinstance(v, sp.Basic) and v.has(sp.nan) for n, v in p.value.fields().items() if n != 'position')
    guarded = any(p.outcome == 'raise' or is_nan_path(p) for p in paths)
    if guarded:
        # documented domain of the guard: t > 0 for the Coggeshall NaN guards, t < 1 for Noh2 ("The time t must be less than 1")
        dom = [tt < 1] if key in ('noh2', 'noh2cog') else [tt > 0]
        for i, p in enumerate(paths):
            nm = '%s/guard/path%d' % (base, i)
            if p.outcome == 'raise' or is_nan_path(p):
                O.append(core.structural(nm + '/rejects', True, goal='guarded path raises or returns NaN in every field', backend='path-analysis')); continue
            if p.outcome != 'return': continue
            o = core.prove_valid(nm + '/numbers_only_inside_guard_domain', hy + list(p.pc), sp.And(*dom), goal_text='path returns numbers  =>  %s' % sp.And(*dom))
            if o['status'] == 'refuted' and o.get('cex_raw'):
                pt = propkit.sym_point(sc, o['cex_raw']); pt[tt] = sp.sympify(o['cex_raw'].get('t', 1))
                o['replay'] = DOMAIN_NATIVE % dict(mod=mod, cls=cname, params=kw_at(sc.kwargs(case), pt), pos=float(alg.numeric(sc.pos, pt, 20)), t=float(pt[tt]), text='outside the documented time domain the call must raise or return NaN')
            o.pop('cex_raw', None); O.append(o)
    else:
        O.append(core.structural(base + '/guard/none_documented', True, goal='(information) this solver documents no time guard; nothing to check under (b)', backend='path-analysis'))
    # ---- (c) definedness inside the contract domain
    try:
        dpaths = sc.paths(case)
    except Unsupported as u:
        O.append(core.Obl(base + '/defined/extraction', 'open', 'extraction', 0.0, detail=str(u)[:200])); return res
    hall = sc.all_hyps(case)
    for i, p in enumerate(dpaths):
        if p.outcome != 'return': continue
        nm = '%s/defined/path%d' % (base, i); seen = set()
        for kind, e, ln in p.defined:
            if kind == 'pow':
                b_, x_ = e; cond = b_ > 0; e_key = ('pow', b_)
            elif kind == 'nonzero': cond = sp.Ne(e, 0); e_key = ('nz', e)
            elif kind == 'nonneg': cond = e >= 0; e_key = ('nn', e)
            elif kind == 'pos': cond = e > 0; e_key = ('pos', e)
            elif kind == 'unit': cond = sp.And(e >= -1, e <= 1); e_key = ('unit', e)
            else: continue
            if e_key in seen or cond in (sp.true, True): continue
            # only conditions that depend on the request (point, time): singular *parameter* values are not part of this obligation
            if not (isinstance(cond, sp.Basic) and cond.free_symbols & ({sc.t} | (set(sc.pos) if isinstance(sc.pos, (list, tuple)) else {sc.pos}))): continue
            seen.add(e_key)
            o = core.prove_valid('%s/%s@line%s#%d' % (nm, kind, ln, len(seen)), hall + list(p.pc), cond, goal_text='in-domain: %s' % core.short(cond, 120))
            if o['status'] == 'refuted' and o.get('cex_raw'):
                pt = propkit.sym_point(sc, o['cex_raw'])
                o['replay'] = DOMAIN_NATIVE % dict(mod=mod, cls=cname, params=kw_at(sc.kwargs(case), pt), pos=float(alg.numeric(sc.pos, pt, 20)), t=float(alg.numeric(sc.t, pt, 20)), text='in-domain call must not produce NaN/inf')
            o.pop('cex_raw', None); O.append(o)
    return res


DOMAIN_NATIVE = r'''
import json, io, contextlib, importlib, warnings, math
import numpy as np
warnings.simplefilter('ignore')
C = getattr(importlib.import_module(%(mod)r), %(cls)r)
try:
    with contextlib.redirect_stdout(io.StringIO()):
        s = C(**%(params)r); r = s(np.array([%(pos)r]), %(t)r)
    vals = {n: float(r[n][0]) for n in r.dtype.names if n != 'position'}
    finite = all(math.isfinite(v) for v in vals.values()); nanall = all(v != v for v in vals.values())
    inside = %(text)r.startswith('in-domain')
    print(json.dumps({'reproduced': bool((inside and not finite) or (not inside and not nanall)), 'values': {k: repr(v) for k, v in vals.items()}, 'predicate': %(text)r}))
except Exception as e:
    print(json.dumps({'reproduced': False, 'observed': type(e).__name__ + ': ' + str(e)[:100], 'predicate': %(text)r}))
'''


def riemann_unit():
    from props import riemann_kit as rk
    res = {'obligations': [], 'functions': rk.info(), 'engine_errors': [], 'assumptions': list(rk.ASSUMPTIONS)}
    O = res['obligations']
    sc, groups, others, paths = rk.load()
    k = 0
    for p in others:
        st = getattr(p.run, 'run_locals', {}).get('soln_type')
        if p.outcome == 'return' and st not in rk.PATTERNS:
            O.append(core.Obl('C20/riemann/unhandled_pattern/path%d' % k, 'refuted', 'path-analysis', 0.0, goal='a wave pattern the driver does not solve never yields a solution object', detail='soln_type=%s returns' % st, cex=None)); k += 1
        elif p.outcome == 'raise':
            O.append(core.structural('C20/riemann/unhandled_pattern/path%d:raises' % k, True, goal='branch %s ends in an exception (%s) before ExactSolution is built' % (st, p.exc), backend='path-analysis')); k += 1
    # every solved pattern obtains px from bisect on [0, pmax]: outside the bracket bisect raises (A5); structural: px is bisect's result on each pattern path
    for pat, g in groups.items():
        ok = g.root is not None and g.root.get('lo') == 0
        O.append(core.structural('C20/riemann/%s/px_from_bracketing_root_finder' % pat, ok, goal='star pressure comes from bisect(f, 0, pmax): a star state outside the bracket raises instead of returning numbers'))
    return res


def units(tier):
    us = [('ctor/%s' % c.replace('exactpack.solvers.', ''), {'kind': 'cat', 'cls': c}) for c in RC.CAT]
    for key, sc in hydro.SOLVERS.items():
        for case in sc.cases: us.append(('domain/%s/%s' % (key, sc.case_name(case)), {'kind': 'hy', 'key': key, 'case': case}))
    us.append(('riemann', {'kind': 'riemann'}))
    return us


def run_unit(name, kind, cls=None, key=None, case=None):
    if kind == 'cat': return catalogue_unit(cls)
    if kind == 'hy': return hydro_unit(key, case)
    return riemann_unit()
