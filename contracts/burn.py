"""Contracts of the burn-time solvers (Kenamond 1-3, DSD cylindrical expansion)."""
import sympy as sp
from vc.solverkit import SolverContract, P

x, y, z = sp.symbols('x y z', real=True)
t = sp.Symbol('t', real=True)
D = P('D', 'pos'); D1 = P('D1', 'pos'); D2 = P('D2', 'pos'); R = P('R', 'pos'); td = P('t_d')
xd = [P('xd0'), P('xd1'), P('xd2')]
zs = [P('a1'), P('a2'), P('a4'), P('a5')]          # axial detonator locations of Kenamond 2
ts = [P('td1'), P('td2'), P('td3'), P('td4'), P('td5')]
K = 'exactpack.solvers.kenamond.'
SOLVERS = {}


def pts(n): return [x, y, z][:n]


for n in (2, 3):
    SOLVERS['k1_%dd' % n] = SolverContract('k1_%dd' % n, K + 'kenamond1:Kenamond1', {'D': D, 'x_d': tuple(xd[:n]), 't_d': td}, cases=[{'geometry': n}], pos=pts(n), t=t)
    k2h = [D1 >= D2] + [a ** 2 > R ** 2 for a in zs] + [ts[i] >= ts[2] + R * (1 / D1 + 1 / D2) - sp.Abs(a) / D2 for i, a in zip((0, 1, 3, 4), zs)]
    SOLVERS['k2_%dd' % n] = SolverContract('k2_%dd' % n, K + 'kenamond2:Kenamond2', {'R': R, 'D1': D1, 'D2': D2, 'dets': list(zs), 't_d': list(ts)}, hyps=k2h,
                                           cases=[{'geometry': n}], pos=pts(n), t=t)
    d2 = sum(c ** 2 for c in xd[:n]); p2 = sum(c ** 2 for c in pts(n)); pd = sum(a * b for a, b in zip(pts(n), xd[:n]))
    SOLVERS['k3_%dd' % n] = SolverContract('k3_%dd' % n, K + 'kenamond3:Kenamond3', {'R': R, 'D': D, 'x_d': tuple(xd[:n]), 't_d': td}, hyps=[d2 > R ** 2],
                                           cases=[{'geometry': n}], pos=pts(n), t=t, poshyps=[p2 > R ** 2, p2 * d2 - pd ** 2 > 0],
                                           note='generic position: the point is not on the line through the origin and the detonator (measure-zero set excluded)')

r1 = P('r_1', 'pos'); r2 = P('r_2', 'pos'); DC1 = P('D_CJ_1', 'pos'); DC2 = P('D_CJ_2', 'pos'); al1 = P('alpha_1', 'nonneg'); al2 = P('alpha_2', 'nonneg')
SOLVERS['dsd'] = SolverContract('dsd', 'exactpack.solvers.dsd.cylexpansion:CylindricalExpansion',
                                {'r_1': r1, 'r_2': r2, 'D_CJ_1': DC1, 'D_CJ_2': DC2, 'alpha_1': al1, 'alpha_2': al2, 't_d': td},
                                hyps=[r2 > r1, r1 * DC1 > al1, r2 * DC2 > al2], cases=[{'geometry': 2}], pos=[x, y], t=t,
                                note='requires r_1 > alpha_1/D_CJ_1 and r_2 > alpha_2/D_CJ_2 (positive local speed D_CJ - alpha/r in each material)')
