"""Contracts of the heat-conduction solvers (series loops executed once on a generic mode index)."""
import sympy as sp
from vc.solverkit import P

N = sp.Symbol('Nsum', integer=True, positive=True)
kappa = P('kappa', 'pos'); TL = P('TL'); TR = P('TR'); L = P('L', 'pos')
a1 = P('alpha1'); b1 = P('beta1'); g1 = P('gamma1'); a2 = P('alpha2'); b2 = P('beta2'); g2 = P('gamma2')
x = sp.Symbol('x', real=True); y = sp.Symbol('y', real=True); t = sp.Symbol('t', positive=True)
ROD = 'exactpack.solvers.heat.rod1d:Rod1D'
# boundary-condition types: which of alpha/beta vanish (case split exactly as the constructor dispatches)
BCS = {
    'BC1': dict(alpha1=a1, beta1=sp.Integer(0), alpha2=a2, beta2=sp.Integer(0), hyps=[sp.Ne(a1, 0), sp.Ne(a2, 0)]),
    'BC2': dict(alpha1=sp.Integer(0), beta1=b1, alpha2=sp.Integer(0), beta2=b2, hyps=[sp.Ne(b1, 0), sp.Ne(b2, 0)]),
    'BC3': dict(alpha1=a1, beta1=sp.Integer(0), alpha2=sp.Integer(0), beta2=b2, hyps=[sp.Ne(a1, 0), sp.Ne(b2, 0)]),
    'BC4': dict(alpha1=sp.Integer(0), beta1=b1, alpha2=a2, beta2=sp.Integer(0), hyps=[sp.Ne(b1, 0), sp.Ne(a2, 0)]),
}


def rod_kwargs(bc):
    d = BCS[bc]
    return {'Nsum': N, 'kappa': kappa, 'TL': TL, 'TR': TR, 'L': L, 'alpha1': d['alpha1'], 'beta1': d['beta1'], 'gamma1': g1, 'alpha2': d['alpha2'], 'beta2': d['beta2'], 'gamma2': g2}
