"""Restriction catalogue (C20): one predicate per solver class, transcribed from the parameter descriptions, class/module docstrings and the
wording of the solver's own error messages ("must be > 0", "must be greater than 1", "strictly negative", ...).
Entry: class key -> dict(params={name: symbol | concrete}, valid=sympy predicate over the symbols, note=...)."""
import sympy as sp
R = lambda n: sp.Symbol(n, real=True)
I = lambda n: sp.Symbol(n, integer=True)
S = 'exactpack.solvers.'
CAT = {}


def add(cls, params, valid, note='', finite=None):
    CAT[S + cls] = dict(params=params, valid=valid, note=note, finite=finite or {})


def member(s, vals): return sp.Or(*[sp.Eq(s, v) for v in vals])


g = I('geometry'); gamma = R('gamma'); u0 = R('u0'); rho0 = R('rho0')
add('noh.noh1:Noh', {'geometry': g, 'gamma': gamma, 'u0': u0, 'rho0': rho0}, sp.And(member(g, (1, 2, 3)), u0 < 0), 'geometry 1/2/3; incident velocity (negative)', finite={g: (1, 2, 3, 0, 4)})
add('noh2.noh2:Noh2', {'geometry': g}, member(g, (1, 2, 3)), finite={g: (1, 2, 3, 0, 4)})
for k, geos in (('1', (1, 2, 3)), ('2', (1, 2, 3)), ('3', (1, 2, 3)), ('4', (1, 2, 3)), ('6', (1, 2, 3)), ('7', (1, 2, 3)), ('8', (1, 2, 3)), ('9', (1, 2, 3)), ('10', (2, 3)), ('11', (1, 2, 3)), ('12', (2, 3)),
                ('14', (1, 2, 3)), ('17', (1, 2, 3))):
    add('cog.cog%s:Cog%s' % (k, k), {'geometry': g}, member(g, geos), finite={g: (0, 1, 2, 3, 4)})
add('cog.cog13:Cog13', {'geometry': g, 'gamma': gamma}, sp.And(member(g, (1, 2, 3)), sp.Ne(gamma, 1)), 'gamma cannot be one', finite={g: (0, 1, 2, 3, 4)})
b = R('b')
add('cog.cog16:Cog16', {'geometry': g, 'b': b}, sp.And(member(g, (2, 3)), sp.Ne(b, g - 1)), 'b cannot equal geometry-1', finite={g: (0, 1, 2, 3, 4)})
al = R('alpha')
add('cog.cog18:Cog18', {'geometry': g, 'alpha': al}, sp.And(member(g, (1, 2, 3)), sp.Ne(al, 0)), 'alpha cannot equal 0', finite={g: (0, 1, 2, 3, 4)})
add('cog.cog19:Cog19', {'geometry': g, 'u0': u0}, sp.And(member(g, (1, 2, 3)), u0 < 0), "u0 must be strictly negative (error message; docstring: u0 < 0)", finite={g: (0, 1, 2, 3, 4)})
a_ = R('a')
add('cog.cog20:Cog20', {'geometry': g, 'a': a_}, sp.And(member(g, (1, 2, 3)), sp.Ne(a_, 0)), 'parameter a cannot be zero', finite={g: (0, 1, 2, 3, 4)})
D = R('D'); Rr = R('R'); D1 = R('D1'); D2 = R('D2')
add('kenamond.kenamond1:Kenamond1', {'geometry': g, 'D': D}, sp.And(member(g, (2, 3)), D > 0), 'geometry 2/3 (x_d defaults to two components: geometry 3 needs a 3-component x_d); D > 0', finite={g: (2,)})
add('kenamond.kenamond3:Kenamond3', {'geometry': g, 'R': Rr, 'D': D, 'x_d': (R('xd0'), R('xd1'))}, sp.And(member(g, (2,)), Rr > 0, D > 0, R('xd0') ** 2 + R('xd1') ** 2 > Rr ** 2),
    'R > 0, D > 0, detonator outside the inert region', finite={g: (2,)})
dets = [R('a1'), R('a2'), R('a4'), R('a5')]; tds = [R('td1'), R('td2'), R('td3'), R('td4'), R('td5')]
add('kenamond.kenamond2:Kenamond2', {'geometry': g, 'R': Rr, 'D1': D1, 'D2': D2, 'dets': list(dets), 't_d': list(tds)},
    sp.And(member(g, (2, 3)), Rr > 0, D1 > 0, D2 > 0, D1 >= D2, *[sp.Abs(a) > Rr for a in dets], *[tds[i] >= tds[2] + Rr * (1 / D1 + 1 / D2) - sp.Abs(a) / D2 for i, a in zip((0, 1, 3, 4), dets)]),
    'R, D1, D2 > 0; D1 >= D2 (message "D1 must be > D2" but equality is harmless: identical materials); detonators in the outer region; documented lower bound on detonation times', finite={g: (2, 3)})
r1, r2, DC1, DC2, A1, A2 = R('r_1'), R('r_2'), R('D_CJ_1'), R('D_CJ_2'), R('alpha_1'), R('alpha_2')
add('dsd.cylexpansion:CylindricalExpansion', {'geometry': g, 'r_1': r1, 'r_2': r2, 'D_CJ_1': DC1, 'D_CJ_2': DC2, 'alpha_1': A1, 'alpha_2': A2},
    sp.And(member(g, (2,)), r1 > 0, r2 > r1, DC1 > 0, DC2 > 0, A1 >= 0, A2 >= 0), 'as in the error messages', finite={g: (1, 2, 3)})
om = R('omega_c'); rd = R('r_d'); IC = I('IC'); DCJ = R('D_CJ'); tf = R('t_f')
add('dsd.ratestick:RateStick', {'geometry': g, 'R': Rr, 'omega_c': om, 'D_CJ': DCJ, 'alpha': al, 'IC': IC, 'r_d': rd, 't_f': tf, 'xnodes': sp.Integer(3), 'ynodes': sp.Integer(3)},
    sp.And(member(g, (1, 2)), Rr > 0, om > 0, om < sp.pi / 2, DCJ > 0, al >= 0, member(IC, (1, 2, 3)), sp.Or(sp.Ne(IC, 1), rd >= Rr / sp.cos(om)), tf > 0),
    'edge angle in (0, pi/2); IC=1 requires r_d >= R / cos(omega_c) (documented: detonation radius must satisfy the edge angle)', finite={g: (1, 2, 0, 3), IC: (1, 2, 3, 0, 4)})
ref, cav, ps_ = R('ref_density'), R('cavity_radius'), R('pressure_scale')
add('blake.blake:Blake', {'geometry': g, 'ref_density': ref, 'cavity_radius': cav, 'pressure_scale': ps_}, sp.And(member(g, (3,)), ref > 0, cav > 0, ps_ > 0), 'only spherical; positive density, radius, pressure scale', finite={g: (1, 2, 3)})
G_, Y_, up = R('G'), R('Y'), R('up')
add('ep_piston.ep_piston:EPpiston', {'G': G_, 'Y': Y_, 'rho0': rho0, 'up': up}, sp.And(G_ > 0, Y_ > 0, rho0 > 0, up >= 0), 'G, Y, rho0 > 0; up >= 0')
Dd, r0_, xt, xm, tm = R('D'), R('rho_0'), R('xtilde'), R('xmax'), R('tmax')
add('ehep.ehep:EscapeOfHEProducts', {'D': Dd, 'rho_0': r0_, 'up': up, 'xtilde': xt, 'xmax': xm, 'tmax': tm, 'gamma': gamma},
    sp.And(Dd > 0, r0_ > 0, up >= 0, up < Dd / 4, xt > 0, xt <= xm, tm > 0, sp.Eq(gamma, 3)), "as in the error messages; parameter description: 'adiabatic index, must be 3.0' (p_rho hard-codes the gamma = 3 isentrope)")
add('sdrz.sdrz:SteadyDetonationReactionZone', {'geometry': g, 'D': Dd, 'rho_0': r0_, 'gamma': gamma}, sp.And(member(g, (1,)), Dd > 0, r0_ > 0, gamma > 0), 'D, rho_0, gamma positive; geometry 1', finite={g: (1, 2, 3)})
om_, eb = R('omega'), R('eblast')
add('sedov.sedov:Sedov', {'geometry': g, 'gamma': gamma, 'rho0': rho0, 'omega': om_, 'eblast': eb},
    sp.And(member(g, (1, 2, 3)), gamma > 1, rho0 > 0, eb > 0, om_ >= 0, om_ < g),
    "error messages: 'gamma must be greater than 1', 'density must be greater than 0', 'eblast must be greater than 0', 'omega must be between 0 and geometry' (property: 0 <= omega < geometry)", finite={g: (1, 2, 3, 0, 4)})

# ExplosiveArc (DSD): restrictions as in the error messages of its constructor
_r1, _r2, _oi, _oo, _xd, _DCJ, _al, _tf = R('r_1'), R('r_2'), R('omega_in'), R('omega_out'), R('x_d'), R('D_CJ'), R('alpha'), R('t_f')
_xn, _yn = I('xnodes'), I('ynodes')
add('dsd.explosivearc:ExplosiveArc', {'geometry': g, 'r_1': _r1, 'r_2': _r2, 'omega_in': _oi, 'omega_out': _oo, 'x_d': _xd, 'D_CJ': _DCJ, 'alpha': _al, 't_f': _tf, 'xnodes': _xn, 'ynodes': _yn},
    sp.And(member(g, (1,)), _r1 > 0, _r2 > _r1, _oi > 0, _oi < sp.pi / 2, _oo >= _oi, _oo <= sp.pi / 2, _xd < 0, _DCJ > 0, _al >= 0, _tf > 0, _xn > 0, _yn > 0),
    'planar only; 0 < r_1 < r_2; 0 < omega_in < pi/2; omega_in <= omega_out <= pi/2; detonator at x_d < 0; D_CJ > 0; alpha >= 0; t_f > 0; node counts positive', finite={g: (1, 2, 3)})
