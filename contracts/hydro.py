"""Contracts (parameter domains, case splits) of the closed-form hydrodynamic solvers.
Domains are the documented ones (parameter descriptions / docstrings) plus the sign conditions
the formulas need to be defined (listed as preconditions in the evidence)."""
import sympy as sp
from vc.solverkit import SolverContract, P

r = sp.Symbol('r', positive=True)
t = sp.Symbol('t', positive=True)
G3 = [{'geometry': 1}, {'geometry': 2}, {'geometry': 3}]
G23 = [{'geometry': 2}, {'geometry': 3}]

gamma = P('gamma', 'pos'); Gamma = P('Gamma', 'pos'); rho0 = P('rho0', 'pos'); temp0 = P('temp0', 'pos')
lambda0 = P('lambda0', 'pos'); alpha = P('alpha'); beta = P('beta'); b = P('b'); u0n = P('u0', 'neg'); u0p = P('u0', 'pos')
u0 = P('u0'); v = P('v'); tau = P('tau', 'pos'); e0 = P('e0', 'pos'); a_ = P('a'); R0 = P('R0', 'pos'); Ri = P('Ri', 'pos')

C = 'exactpack.solvers.cog.'
SOLVERS = {}


def add(sc):
    SOLVERS[sc.key] = sc
    return sc


add(SolverContract('noh', 'exactpack.solvers.noh.noh1:Noh', {'gamma': gamma, 'u0': u0n, 'rho0': rho0}, hyps=[gamma > 1], cases=G3, pos=r, t=t))
add(SolverContract('noh2', 'exactpack.solvers.noh2.noh2:Noh2', {'gamma': gamma, 'rho0': rho0, 'e0': e0}, hyps=[gamma > 1], cases=G3, pos=r, t=t, thyps=[t < 1]))
add(SolverContract('noh2cog', 'exactpack.solvers.noh2.noh2_cog:Noh2Cog', {'gamma': gamma, 'rho0': rho0, 'e0': e0}, hyps=[gamma > 1], cases=G3, pos=r, t=t, thyps=[t < 1]))
add(SolverContract('cog1', C + 'cog1:Cog1', {'gamma': gamma, 'rho0': rho0, 'temp0': temp0, 'b': b, 'Gamma': Gamma}, hyps=[gamma > 1], cases=G3))
add(SolverContract('cog2', C + 'cog2:Cog2', {'gamma': gamma, 'rho0': rho0, 'b': b, 'Gamma': Gamma}, hyps=[gamma > 1, b > -2], cases=G3))
add(SolverContract('cog3', C + 'cog3:Cog3', {'rho0': rho0, 'b': b, 'v': v, 'Gamma': Gamma}, hyps=[sp.Ne(v, 0)], cases=G3,
                   note='gamma=(k-1)/(k+1) is derived by the solver; planar case has gamma=-1'))
add(SolverContract('cog4', C + 'cog4:Cog4', {'gamma': gamma, 'rho0': rho0, 'u0': u0, 'Gamma': Gamma}, hyps=[gamma < 1], cases=G3,
                   note='documented: T>0 only for gamma<1'))
add(SolverContract('cog5', C + 'cog5:Cog5', {'rho0': rho0, 'u0': u0, 'Gamma': Gamma}, cases=[{}]))
add(SolverContract('cog6', C + 'cog6:Cog6', {'rho0': rho0, 'tau': tau, 'b': b, 'Gamma': Gamma}, hyps=[b > -2], cases=G3, thyps=[t < tau]))
add(SolverContract('cog7', C + 'cog7:Cog7', {'tau': tau, 'b': b, 'R0': R0, 'Ri': Ri, 'Gamma': Gamma}, hyps=[R0 > Ri], cases=G3, thyps=[t < tau], poslocals=['x3', 'R0**c1 - Ri**c1'],
                   note='requires (r/sqrt(tau^2-t^2))^c1 > (Ri/tau)^c1 and R0^c1 > Ri^c1 (positivity of the bracketed factors; declared to the normaliser)'))
add(SolverContract('cog8', C + 'cog8:Cog8', {'gamma': gamma, 'alpha': alpha, 'beta': beta, 'rho0': rho0, 'temp0': temp0, 'Gamma': Gamma}, hyps=[gamma > 1], cases=G3))
add(SolverContract('cog9', C + 'cog9:Cog9', {'gamma': gamma, 'alpha': alpha, 'beta': beta, 'rho0': rho0, 'Gamma': Gamma}, hyps=[gamma > 1, sp.Ne(alpha, 0)], cases=G3))
add(SolverContract('cog10', C + 'cog10:Cog10', {'gamma': gamma, 'beta': beta, 'lambda0': lambda0, 'rho0': rho0, 'temp0': temp0, 'Gamma': Gamma}, hyps=[gamma > 1], cases=G23))
add(SolverContract('cog11', C + 'cog11:Cog11', {'gamma': gamma, 'beta': beta, 'rho0': rho0, 'temp0': temp0, 'Gamma': Gamma}, hyps=[gamma > 1], cases=G3))
add(SolverContract('cog12', C + 'cog12:Cog12', {'gamma': gamma, 'beta': beta, 'rho0': rho0, 'u0': u0, 'Gamma': Gamma}, hyps=[gamma < 1], cases=G23))
add(SolverContract('cog13', C + 'cog13:Cog13', {'gamma': gamma, 'rho0': rho0, 'alpha': alpha, 'beta': beta, 'lambda0': lambda0, 'Gamma': Gamma},
                   hyps=[gamma > 1, beta + 3 > 0, beta + 4 - alpha > 0, alpha - 1 + (beta + 3) * (gamma - 1) > 0], cases=G3))
add(SolverContract('cog14', C + 'cog14:Cog14', {'gamma': gamma, 'rho0': rho0, 'alpha': alpha, 'beta': beta, 'lambda0': lambda0, 'Gamma': Gamma},
                   hyps=[gamma > 1], cases=G23, note='requires 0 < b < k with b=(k-1-alpha k)/(2+alpha-2(beta+4)); impossible for k=0 (planar case has no admissible parameter)'))
add(SolverContract('cog16', C + 'cog16:Cog16', {'gamma': gamma, 'u0': u0p, 'b': P('b', 'pos'), 'lambda0': lambda0, 'Gamma': Gamma}, hyps=[gamma > 1], cases=G23))
add(SolverContract('cog17', C + 'cog17:Cog17', {'gamma': gamma, 'alpha': alpha, 'beta': beta, 'lambda0': lambda0, 'Gamma': Gamma}, hyps=[gamma > 1], cases=G3, poslocals=['x6/x7*x8', 'temp0']))
add(SolverContract('cog18', C + 'cog18:Cog18', {'alpha': alpha, 'beta': beta, 'rho0': rho0, 'tau': tau, 'Gamma': Gamma}, hyps=[sp.Ne(alpha, 0)], cases=G3, thyps=[t < tau]))
add(SolverContract('cog19', C + 'cog19:Cog19', {'gamma': gamma, 'rho0': rho0, 'u0': u0n, 'Gamma': Gamma}, hyps=[gamma > 1], cases=G3))
add(SolverContract('cog20', C + 'cog20:Cog20', {'gamma': gamma, 'rho0': rho0, 'u0': u0, 'a': a_, 'Gamma': Gamma}, hyps=[gamma > 1, sp.Ne(a_, 0)], cases=G3, thyps=[a_ * t < 1]))
add(SolverContract('cog21', C + 'cog21:Cog21', {'rho0': rho0, 'temp0': temp0, 'Gamma': Gamma}, cases=[{}]))

# geometry-dependent extra hypotheses (need the concrete k)
def extra_hyps(key, case):
    case = dict(case)
    k = case.get('geometry', 3) - 1
    if key == 'cog14':
        bb = (k - 1 - alpha * k) / (2 + alpha - 2 * (beta + 4))
        return [bb > 0, k - bb > 0, sp.Ne(2 + alpha - 2 * (beta + 4), 0), sp.Ne(2 * beta + 5, 0)]
    if key == 'cog16':
        return [k - SOLVERS['cog16'].params['b'] > 0]
    return []

for _k in ('cog14', 'cog16'):
    SOLVERS[_k].extra_hyps = (lambda key: (lambda case: extra_hyps(key, case)))(_k)
