"""Contract of the ideal-gas 1-D Riemann solver (IGEOS_Solver -> RiemannIGEOS.driver)."""
import sympy as sp
from vc import sx, lib as L
from vc.values import *
from vc.solverkit import SolverContract, P

x = sp.Symbol('x', real=True); t = sp.Symbol('t', positive=True)
pl = P('pl', 'pos'); rl = P('rl', 'pos'); ul = P('ul'); gl = P('gl', 'pos')
pr = P('pr', 'pos'); rr = P('rr', 'pos'); ur = P('ur'); gr = P('gr', 'pos')
xd0 = P('xd0'); xmin = P('xmin'); xmax = P('xmax')
px = sp.Symbol('px', positive=True)           # the star pressure: bisect's result (assumed contract A5)
HYPS = [gl > 1, gr > 1, xmin < xd0, xd0 < xmax]


def externals():
    """assumed contracts of the external routines used by driver/_run (A5) and the internal-grid abstraction (A2)"""
    def bisect(I, a, k):
        f, lo, hi = a[0], a[1], a[2]
        res = I.apply(f, [px], {})
        I.run.root = {'var': px, 'residual': sp.sympify(res), 'lo': lo, 'hi': hi,
                      'f_lo': None, 'f_hi': None, 'fn': f}
        return px
    def linspace(I, a, k):
        vals = [a[0], a[1]]
        if all(isinstance(v, sp.Basic) and v.is_number for v in vals) and len(a) > 2 and int(a[2]) <= 64:
            return L.call_lib(I, 'numpy.linspace_concrete', a, k)
        I.run.dropped.append('internal grid linspace(...) abstracted by its generic node, line %s' % I.run.lineno)
        return Arr(sp.Symbol('x_grid', real=True), origin='grid', grid=True)
    def append(I, a, k):
        u, v = a[0], a[1]
        if isinstance(u, Arr) and u.grid:
            if isinstance(v, Arr) and v.origin == 'points':
                I.run.user_points_appended = True
                return Arr(v.elem, origin='grid', grid=True)      # every request point is a node of the grid: the generic node of interest is the request point
            return u
        if isinstance(v, Arr) and v.grid: return v
        return L.call_lib(I, 'numpy.append_', a, k)
    def minmax(name):
        def f(I, a, k):
            if len(a) == 1 and isinstance(a[0], (Vec, Arr)):
                I.run.dropped.append('%s over wave positions (grid extent only) line %s' % (name, I.run.lineno))
                return sp.Symbol('%s_Xregs' % name, real=True)
            if len(a) == 2 and any(isinstance(v, sp.Basic) and v.has(sp.Symbol('min_Xregs', real=True), sp.Symbol('max_Xregs', real=True)) for v in a):
                return sp.Symbol('grid_%s' % name, real=True)
            return L.call_lib(I, 'numpy.' + name, a, k)
        return f
    def interp(I, a, k):
        xq, xs, ys = a
        if isinstance(xs, Arr) and xs.grid and isinstance(ys, Arr) and isinstance(xq, Arr):
            if not getattr(I.run, 'user_points_appended', False): raise Unsupported('interp on a grid that does not contain the request points')
            if xs.elem != xq.elem: raise Unsupported('interp abscissa is not the abstracted grid')
            I.run.dropped.append('interp(x, grid, field): request points are grid nodes, node value returned (A5) line %s' % I.run.lineno)
            return Arr(ys.elem)
        raise Unsupported('interp outside the grid abstraction')
    return {'scipy.optimize.bisect': bisect, 'numpy.linspace': linspace, 'numpy.append': append, 'builtins.min': minmax('min'), 'builtins.max': minmax('max'),
            'numpy.interp': interp}


IGEOS = SolverContract('riemann_igeos', 'exactpack.solvers.riemann.ep_riemann:IGEOS_Solver',
                       {'pl': pl, 'rl': rl, 'ul': ul, 'gl': gl, 'pr': pr, 'rr': rr, 'ur': ur, 'gr': gr, 'xd0': xd0, 'xmin': xmin, 'xmax': xmax},
                       hyps=HYPS, cases=[{}], pos=x, t=t, externals=externals())
