"""Contract of the elastic-plastic piston solver."""
import sympy as sp
from vc.values import *
from vc.solverkit import SolverContract, P

x = sp.Symbol('x', positive=True); t = sp.Symbol('t', positive=True)
gamma = P('gamma', 'pos'); c0 = P('c0', 'pos'); s0 = P('s0', 'pos'); G = P('G', 'pos'); Y = P('Y', 'pos'); rho0 = P('rho0', 'pos'); up = P('up', 'pos')
wv_el = sp.Symbol('wv_el', positive=True)      # sqrt(Q_el), Q_el recorded by the extraction
wv_pl = sp.Symbol('wv_pl', positive=True)      # fsolve root of Plastic_Residual (A5)
F = sp.Symbol('F_yield', positive=True)        # fsolve root of the finite-strain yield condition (A5)
xmax_batch = sp.Symbol('max_points', positive=True)


def externals():
    def fsolve(I, a, k):
        f = a[0]
        name = getattr(f, 'name', None) or getattr(getattr(f, 'func', None), 'name', '')
        fname = f.func.name if isinstance(f, BoundMethod) else getattr(f, 'name', '')
        if 'Plastic_Residual' in fname:
            res = I.apply(f, [wv_pl], {}); I.run.roots = getattr(I.run, 'roots', {}); I.run.roots['plastic'] = (wv_pl, sp.sympify(res))
            return Vec([wv_pl])
        if 'finite_yield' in fname:
            extra = list(a[2]) if len(a) > 2 else []
            res = I.apply(f, [F] + extra, {}); I.run.roots = getattr(I.run, 'roots', {}); I.run.roots['yield'] = (F, sp.sympify(res))
            return Vec([F])
        raise Unsupported('fsolve on %s' % fname)
    def msqrt(I, a, k):
        # the only math.sqrt of ep_piston.py defines the elastic wave speed: keep it as a symbol with the relation wv_el^2 = Q
        if hasattr(I.run, 'Q_el'): raise Unsupported('second math.sqrt call in ep_piston')
        I.run.Q_el = sp.sympify(a[0]); return wv_el
    return {'scipy.optimize.fsolve': fsolve, 'math.sqrt': msqrt}


SOLVER = SolverContract('ep_piston', 'exactpack.solvers.ep_piston.ep_piston:EPpiston',
                        {'gamma': gamma, 'c0': c0, 's0': s0, 'G': G, 'Y': Y, 'rho0': rho0, 'up': up},
                        hyps=[Y < 2 * G], cases=[{'model': 'hypo'}, {'model': 'hyperIfin'}, {'model': 'hyperFin'}], pos=x, t=t, externals=externals(),
                        note='Y < 2G (elastic limit strain below 1); wave speeds real (declared positive radicand)')
